#!/bin/sh
# usage: sweep_ws.sh <workspace dir made by mk_ws.sh> <list file>
# list lines: "<kind> <patch path> <Cxx>" with kind in mut|seed|benign. Expectation: mut/seed -> exit 1, benign -> exit 0.
# Prints DETECTED / MISSED / GREEN / FALSE-ALARM / MACHINERY / NOAPPLY per line. Works in the workspace only.
WS=$1; LIST=$2
R=$WS/repo
runcheck() { (cd $WS/harness && cargo build --release --offline -q 2>$WS/build.log) || { tail -20 $WS/build.log; return 2; }; VERIF_ROOT=$WS/out $WS/target/release/vcheck "$@"; }
git -C $R checkout -- . >/dev/null 2>&1
while read kind p id; do
  [ -n "$kind" ] || continue
  if [ "$kind" = bgroup ]; then
    # several benign patches of one property applied together: green together => each is green
    okall=1
    for q in $(echo "$p" | tr ',' ' '); do git -C $R apply "$q" 2>/dev/null || okall=0; done
    if [ $okall = 1 ]; then out=$(runcheck "$id" --tier quick 2>&1); code=$?; else code=9; fi
    git -C $R checkout -- . >/dev/null 2>&1; git -C $R clean -fdq >/dev/null 2>&1
    if [ $code = 0 ]; then for q in $(echo "$p" | tr ',' ' '); do echo "GREEN     benign $q (in a group)"; done; continue; fi
    # fall back to one by one
    for q in $(echo "$p" | tr ',' ' '); do
      if ! git -C $R apply --check "$q" 2>/dev/null; then echo "NOAPPLY   benign $q"; continue; fi
      git -C $R apply "$q"; out=$(runcheck "$id" --tier quick 2>&1); code=$?
      git -C $R checkout -- . >/dev/null 2>&1; git -C $R clean -fdq >/dev/null 2>&1
      sig=$(printf '%s\n' "$out" | grep -m1 'signature:' | sed 's/^ *signature: //')
      case $code in 0) echo "GREEN     benign $q";; 1) echo "FALSE-ALARM benign $q [$sig]";; *) echo "MACHINERY benign $q (exit $code)";; esac
    done
    continue
  fi
  if ! git -C $R apply --check "$p" 2>/dev/null; then echo "NOAPPLY   $kind $p"; continue; fi
  git -C $R apply "$p"
  out=$(runcheck "$id" --tier quick 2>&1); code=$?
  git -C $R checkout -- . >/dev/null 2>&1
  sig=$(printf '%s\n' "$out" | grep -m1 'signature:' | sed 's/^ *signature: //')
  case "$kind:$code" in
    mut:1|seed:1) echo "DETECTED  $kind $p [$sig]";;
    mut:0|seed:0) echo "MISSED    $kind $p";;
    benign:0) echo "GREEN     $kind $p";;
    benign:1) echo "FALSE-ALARM $kind $p [$sig]";;
    *) echo "MACHINERY $kind $p (exit $code)"; printf '%s\n' "$out" | tail -3;;
  esac
done < $LIST
echo "SWEEP-DONE $LIST"
