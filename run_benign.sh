#!/bin/sh
# Property-preserving edits (/verif/mutations/benign/Cxx_*.patch) must keep the quick check of Cxx green.
cd /verif || exit 2
if [ -n "${MUT_WS:-}" ]; then
  R=$MUT_WS/repo
  runcheck() { (cd $MUT_WS/harness && cargo build --release --offline -q 2>$MUT_WS/build.log) || { tail -20 $MUT_WS/build.log; return 2; }; VERIF_ROOT=$MUT_WS/out $MUT_WS/target/release/vcheck "$@"; }
else
  R=/repo
  runcheck() { ./check "$@"; }
fi
if [ -n "$(git -C $R status --porcelain --untracked-files=no)" ]; then echo "$R has uncommitted changes; refusing" >&2; exit 2; fi
rc=0
for p in mutations/benign/${1:-C}*.patch; do
  [ -f "$p" ] || continue
  id=$(basename "$p" | cut -d_ -f1)
  if ! git -C $R apply --check "/verif/$p" 2>/dev/null; then echo "NOAPPLY   $p"; rc=1; continue; fi
  git -C $R apply "/verif/$p"
  out=$(runcheck "$id" --tier quick 2>&1); code=$?
  git -C $R checkout -- . >/dev/null 2>&1
  case $code in
    0) echo "GREEN     $p";;
    1) echo "FALSE-ALARM $p"; printf '%s\n' "$out" | grep -m2 'signature:'; rc=1;;
    *) echo "MACHINERY $p (exit $code)"; rc=1;;
  esac
done
exit $rc
