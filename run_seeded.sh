#!/bin/sh
# For every kept seeded change /verif/seeded/<id>/ (optionally filtered by $1 = prefix): apply patch.diff,
# run the quick check of the property named in meta.json, expect exit 1, restore. Same MUT_WS convention as
# run_mutations.sh. Exit 0 iff every seeded change is DETECTED.
cd /verif || exit 2
if [ -n "${MUT_WS:-}" ]; then
  R=$MUT_WS/repo
  runcheck() { (cd $MUT_WS/harness && cargo build --release --offline -q 2>$MUT_WS/build.log) || { tail -20 $MUT_WS/build.log; return 2; }; VERIF_ROOT=$MUT_WS/out $MUT_WS/target/release/vcheck "$@"; }
else
  R=/repo
  runcheck() { ./check "$@"; }
fi
if [ -n "$(git -C $R status --porcelain --untracked-files=no)" ]; then echo "$R has uncommitted changes; refusing" >&2; exit 2; fi
rc=0
for d in seeded/${1:-C}*/; do
  [ -f "$d/patch.diff" ] || continue
  id=$(python3 -c "import json,sys; print(json.load(open('$d/meta.json'))['property'])")
  if ! git -C $R apply --check "/verif/$d/patch.diff" 2>/dev/null; then echo "NOAPPLY   $d"; rc=1; continue; fi
  git -C $R apply "/verif/$d/patch.diff"
  out=$(runcheck "$id" --tier quick 2>&1); code=$?
  git -C $R checkout -- . >/dev/null 2>&1
  sig=$(printf '%s\n' "$out" | grep -m1 'signature:' | sed 's/^ *signature: //')
  case $code in
    1) echo "DETECTED  $d ($id) [$sig]";;
    0) echo "MISSED    $d ($id)"; rc=1;;
    *) echo "MACHINERY $d ($id) (exit $code)"; printf '%s\n' "$out" | tail -5; rc=1;;
  esac
done
exit $rc
