//! E-SEQ: bounded-exhaustive enumeration of input sequences over a small alphabet, prefix-sharing DFS
//! (each prefix is executed once; the implementation state is cloned at every branch), parallel over
//! the first symbols. The oracle is evaluated after every step.

use crate::core::{Ctx, Distinct};
use rayon::prelude::*;
use serde::{Serialize, de::DeserializeOwned};
use serde_json::{Value, json};
use std::{
    fmt::Debug,
    sync::atomic::{AtomicU64, Ordering},
};

pub type Viol = (String, String);

pub trait SeqModel: Sync {
    type State: Clone + Send;
    type Sym: Clone + Send + Sync + Serialize + DeserializeOwned + Debug;
    fn init(&self) -> Self::State;
    fn alphabet(&self, s: &Self::State, hist: &[Self::Sym]) -> Vec<Self::Sym>;
    /// Apply `sym` to the real implementation held in `s`; evaluate oracle; push violations.
    fn step(&self, s: &mut Self::State, sym: &Self::Sym, hist: &[Self::Sym], out: &mut Vec<Viol>);
    /// Called on every maximal or intermediate sequence end; returns a hash of the final impl state.
    fn final_hash(&self, s: &Self::State) -> u64;
    /// Optional end-of-sequence oracle (called for every prefix, i.e. every sequence of length<=d).
    fn at_end(&self, _s: &Self::State, _hist: &[Self::Sym], _out: &mut Vec<Viol>) {}
}

#[derive(Debug, Default, Clone)]
pub struct SeqStats {
    pub sequences: u64,
    pub steps: u64,
    pub distinct_final: usize,
    pub max_len: usize,
    pub samples: Vec<Value>,
}

struct Shared<'a> {
    ctx: &'a Ctx,
    label: &'a str,
    sequences: AtomicU64,
    steps: AtomicU64,
    distinct: Distinct,
}

fn dfs<M: SeqModel>(
    m: &M,
    sh: &Shared,
    state: &M::State,
    hist: &mut Vec<M::Sym>,
    max_len: usize,
    local: &mut std::collections::HashSet<u64>,
) {
    // every prefix is itself a sequence of the bounded space
    sh.sequences.fetch_add(1, Ordering::Relaxed);
    local.insert(m.final_hash(state));
    let mut out = Vec::new();
    m.at_end(state, hist, &mut out);
    report(sh, hist, None::<&M::Sym>, out);
    if hist.len() >= max_len {
        return;
    }
    for sym in m.alphabet(state, hist) {
        let mut s2 = state.clone();
        let mut out = Vec::new();
        m.step(&mut s2, &sym, hist, &mut out);
        sh.steps.fetch_add(1, Ordering::Relaxed);
        report(sh, hist, Some(&sym), out);
        hist.push(sym);
        dfs(m, sh, &s2, hist, max_len, local);
        hist.pop();
    }
}

fn report<S: Serialize + Clone>(sh: &Shared, hist: &[S], last: Option<&S>, out: Vec<Viol>) {
    if out.is_empty() {
        return;
    }
    let mut seq: Vec<S> = hist.to_vec();
    if let Some(l) = last {
        seq.push(l.clone());
    }
    for (sig, detail) in out {
        sh.ctx.violate(sig, detail, json!({"engine": "seq", "label": sh.label, "seq": seq}));
    }
}

pub fn run<M: SeqModel>(ctx: &Ctx, m: &M, label: &str, max_len: usize) -> SeqStats {
    let sh = Shared {
        ctx,
        label,
        sequences: AtomicU64::new(0),
        steps: AtomicU64::new(0),
        distinct: Distinct::default(),
    };
    let init = m.init();
    // level 0 + 1 sequentially, then parallel over prefixes of length <= 2
    let mut prefixes: Vec<(M::State, Vec<M::Sym>)> = Vec::new();
    {
        let mut local = std::collections::HashSet::new();
        sh.sequences.fetch_add(1, Ordering::Relaxed);
        local.insert(m.final_hash(&init));
        let mut out = Vec::new();
        m.at_end(&init, &[], &mut out);
        report(&sh, &[] as &[M::Sym], None, out);
        if max_len >= 1 {
            for sym in m.alphabet(&init, &[]) {
                let mut s1 = init.clone();
                let mut out = Vec::new();
                m.step(&mut s1, &sym, &[], &mut out);
                sh.steps.fetch_add(1, Ordering::Relaxed);
                report(&sh, &[], Some(&sym), out);
                let h1 = vec![sym];
                if max_len >= 2 {
                    sh.sequences.fetch_add(1, Ordering::Relaxed);
                    local.insert(m.final_hash(&s1));
                    let mut out = Vec::new();
                    m.at_end(&s1, &h1, &mut out);
                    report(&sh, &h1, None, out);
                    for sym2 in m.alphabet(&s1, &h1) {
                        let mut s2 = s1.clone();
                        let mut out = Vec::new();
                        m.step(&mut s2, &sym2, &h1, &mut out);
                        sh.steps.fetch_add(1, Ordering::Relaxed);
                        report(&sh, &h1, Some(&sym2), out);
                        let mut h2 = h1.clone();
                        h2.push(sym2);
                        prefixes.push((s2, h2));
                    }
                } else {
                    prefixes.push((s1, h1));
                }
            }
        }
        sh.distinct.merge_local(&local);
    }
    prefixes.into_par_iter().for_each(|(s, mut h)| {
        let mut local = std::collections::HashSet::new();
        dfs(m, &sh, &s, &mut h, max_len, &mut local);
        sh.distinct.merge_local(&local);
    });
    SeqStats {
        sequences: sh.sequences.load(Ordering::Relaxed),
        steps: sh.steps.load(Ordering::Relaxed),
        distinct_final: sh.distinct.len(),
        max_len,
        samples: vec![],
    }
}

/// Re-execute a recorded sequence without the explorer.
pub fn replay<M: SeqModel>(m: &M, case: &Value) -> Vec<Viol> {
    let seq: Vec<M::Sym> =
        serde_json::from_value(case["seq"].clone()).expect("replay: seq does not parse");
    let mut s = m.init();
    let mut hist: Vec<M::Sym> = Vec::new();
    let mut all = Vec::new();
    for (i, sym) in seq.iter().enumerate() {
        let mut out = Vec::new();
        m.step(&mut s, sym, &hist, &mut out);
        hist.push(sym.clone());
        m.at_end(&s, &hist, &mut out);
        println!("replay step {i}: {sym:?} -> {} violation(s)", out.len());
        for (sig, detail) in &out {
            println!("    {sig}: {detail}");
        }
        all.extend(out);
    }
    all
}
