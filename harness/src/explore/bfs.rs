//! E-BFS: explicit-state breadth-first search where every transition executes the real
//! implementation. Level-synchronous, parallel over the frontier (rayon), deterministic: successors
//! are merged sequentially in frontier order, so state ids, paths and first counter-examples do not
//! depend on thread timing.

use crate::core::Ctx;
use rayon::prelude::*;
use serde::{Serialize, de::DeserializeOwned};
use serde_json::{Value, json};
use std::{collections::HashMap, fmt::Debug, hash::Hash};

pub type Viol = (String, String); // (signature, detail)

pub trait Model: Sync {
    type State: Clone + Eq + Hash + Send + Sync;
    type Action: Clone + Send + Sync + Serialize + DeserializeOwned + Debug;
    fn init(&self) -> Vec<Self::State>;
    fn actions(&self, s: &Self::State) -> Vec<Self::Action>;
    /// Apply `a` to the real implementation rebuilt from `s`, evaluate the oracle, return successor.
    fn step(&self, s: &Self::State, a: &Self::Action, out: &mut Vec<Viol>) -> Option<Self::State>;
    /// Optional: hash of the implementation-only part of the state (to count distinct impl states).
    fn impl_hash(&self, _s: &Self::State) -> Option<u64> {
        None
    }
}

#[derive(Debug, Clone, Default)]
pub struct BfsStats {
    pub states: usize,
    pub transitions: u64,
    pub max_depth: usize,
    /// true iff the frontier became empty (fixpoint) – the reachable set was enumerated completely
    pub fixpoint: bool,
    /// deepest level whose successors were all generated
    pub depth_completed: usize,
    pub capped: bool,
    pub frontier_sizes: Vec<usize>,
    pub distinct_impl_states: usize,
    pub oracle_violation_steps: u64,
    pub samples: Vec<Value>,
}

impl BfsStats {
    pub fn coverage(&self, extra: Value) -> Value {
        let mut v = json!({
            "states": self.states,
            "transitions": self.transitions,
            "traces_validated_against_impl": self.transitions,
            "max_depth": self.max_depth,
            "depth_completed": self.depth_completed,
            "fixpoint_reached": self.fixpoint,
            "exhaustive": self.fixpoint || !self.capped,
            "capped": self.capped,
            "frontier_sizes": self.frontier_sizes,
            "distinct_impl_states": self.distinct_impl_states,
            "samples": self.samples,
        });
        if let (Value::Object(m), Value::Object(e)) = (&mut v, extra) {
            for (k, val) in e {
                m.insert(k, val);
            }
        }
        v
    }
}

struct Node<A> {
    parent: u32,
    action: Option<A>,
    init_idx: u32,
}

fn path_of<A: Clone + Serialize>(nodes: &[Node<A>], mut id: u32) -> (u32, Vec<A>) {
    let mut rev = Vec::new();
    loop {
        let n = &nodes[id as usize];
        match &n.action {
            Some(a) => {
                rev.push(a.clone());
                id = n.parent;
            }
            None => {
                rev.reverse();
                return (n.init_idx, rev);
            }
        }
    }
}

pub fn run<M: Model>(
    ctx: &Ctx,
    model: &M,
    label: &str,
    max_depth: Option<usize>,
    max_states: usize,
) -> BfsStats {
    let mut stats = BfsStats::default();
    let mut index: HashMap<M::State, u32> = HashMap::new();
    let mut nodes: Vec<Node<M::Action>> = Vec::new();
    let mut impl_hashes = std::collections::HashSet::new();
    let mut frontier: Vec<(u32, M::State)> = Vec::new();
    let mut sig_counts: HashMap<String, u64> = HashMap::new();

    for (i, s) in model.init().into_iter().enumerate() {
        if !index.contains_key(&s) {
            let id = nodes.len() as u32;
            index.insert(s.clone(), id);
            nodes.push(Node { parent: 0, action: None, init_idx: i as u32 });
            if let Some(h) = model.impl_hash(&s) {
                impl_hashes.insert(h);
            }
            frontier.push((id, s));
        }
    }
    let mut depth = 0usize;
    stats.frontier_sizes.push(frontier.len());
    let mut last_sample_id: Option<u32> = None;

    while !frontier.is_empty() {
        if let Some(d) = max_depth {
            if depth >= d {
                break;
            }
        }
        // parallel expansion, in chunks of the frontier so that the successors waiting to be merged stay
        // bounded (merging is sequential and in frontier order => deterministic ids and paths)
        let mut next_frontier = Vec::new();
        for chunk in frontier.chunks(2048) {
        let expanded: Vec<(u32, Vec<(M::Action, Option<M::State>, Vec<Viol>)>)> = chunk
            .par_iter()
            .map(|(id, s)| {
                let mut res = Vec::new();
                for a in model.actions(s) {
                    let mut out = Vec::new();
                    let next = model.step(s, &a, &mut out);
                    res.push((a, next, out));
                }
                (*id, res)
            })
            .collect();
        for (pid, succs) in expanded {
            for (a, next, viols) in succs {
                stats.transitions += 1;
                if !viols.is_empty() {
                    stats.oracle_violation_steps += 1;
                    for (sig, detail) in viols {
                        let c = sig_counts.entry(sig.clone()).or_insert(0);
                        *c += 1;
                        if *c == 1 {
                            let (init_idx, mut path) = path_of(&nodes, pid);
                            path.push(a.clone());
                            ctx.violate(
                                sig,
                                detail,
                                json!({"engine": "bfs", "label": label, "init": init_idx, "path": path}),
                            );
                        } else {
                            ctx.violations.bump(&sig);
                        }
                    }
                }
                if let Some(ns) = next {
                    if !index.contains_key(&ns) {
                        if nodes.len() >= max_states {
                            stats.capped = true;
                            continue;
                        }
                        let id = nodes.len() as u32;
                        index.insert(ns.clone(), id);
                        let init_idx = nodes[pid as usize].init_idx;
                        nodes.push(Node { parent: pid, action: Some(a), init_idx });
                        if let Some(h) = model.impl_hash(&ns) {
                            impl_hashes.insert(h);
                        }
                        last_sample_id = Some(id);
                        next_frontier.push((id, ns));
                    }
                }
            }
        }
        }
        depth += 1;
        stats.depth_completed = depth;
        if !next_frontier.is_empty() {
            stats.max_depth = depth;
            stats.frontier_sizes.push(next_frontier.len());
        }
        frontier = next_frontier;
        if stats.capped {
            break;
        }
    }
    stats.fixpoint = frontier.is_empty() && !stats.capped;
    stats.states = nodes.len();
    stats.distinct_impl_states = impl_hashes.len();
    // samples: path to the last discovered (deepest) state and to a mid state
    let mut sample_ids = Vec::new();
    if let Some(id) = last_sample_id {
        sample_ids.push(id);
    }
    if nodes.len() > 2 {
        sample_ids.push((nodes.len() / 2) as u32);
    }
    for id in sample_ids {
        let (init_idx, path) = path_of(&nodes, id);
        stats.samples.push(json!({"label": label, "init": init_idx, "path": path}));
    }
    stats
}

/// Re-execute a recorded path without the explorer; prints every step's violations.
pub fn replay<M: Model>(model: &M, case: &Value) -> Vec<Viol> {
    let init_idx = case["init"].as_u64().unwrap_or(0) as usize;
    let path: Vec<M::Action> =
        serde_json::from_value(case["path"].clone()).expect("replay: path does not parse");
    let mut s = model.init().into_iter().nth(init_idx).expect("replay: bad init index");
    let mut all = Vec::new();
    for (i, a) in path.iter().enumerate() {
        let mut out = Vec::new();
        let next = model.step(&s, a, &mut out);
        println!("replay step {i}: {a:?} -> {} violation(s)", out.len());
        for (sig, detail) in &out {
            println!("    {sig}: {detail}");
        }
        all.extend(out);
        match next {
            Some(n) => s = n,
            None => break,
        }
    }
    all
}
