//! E-ENV helpers: manual polling of real futures on a paused current-thread tokio runtime.

use std::{
    future::Future,
    pin::Pin,
    sync::{
        Arc,
        atomic::{AtomicBool, Ordering},
    },
    task::{Context, Poll, Wake, Waker},
};

pub struct FlagWaker(pub AtomicBool);

impl Wake for FlagWaker {
    fn wake(self: Arc<Self>) {
        self.0.store(true, Ordering::SeqCst);
    }
    fn wake_by_ref(self: &Arc<Self>) {
        self.0.store(true, Ordering::SeqCst);
    }
}

pub fn flag_waker() -> (Arc<FlagWaker>, Waker) {
    let f = Arc::new(FlagWaker(AtomicBool::new(true)));
    let w = Waker::from(f.clone());
    (f, w)
}

/// Poll `fut` until its waker flag stays clear (quiescent) or it completes.
pub fn poll_quiesce<F: Future + ?Sized>(
    mut fut: Pin<&mut F>,
    flag: &Arc<FlagWaker>,
    waker: &Waker,
) -> Poll<F::Output> {
    let mut cx = Context::from_waker(waker);
    let mut spins = 0usize;
    loop {
        flag.0.store(false, Ordering::SeqCst);
        match fut.as_mut().poll(&mut cx) {
            Poll::Ready(v) => return Poll::Ready(v),
            Poll::Pending => {
                if !flag.0.load(Ordering::SeqCst) {
                    return Poll::Pending;
                }
                spins += 1;
                assert!(spins < 100_000, "livelock: subject re-woke itself 100000 times");
            }
        }
    }
}

pub fn paused_rt() -> tokio::runtime::Runtime {
    tokio::runtime::Builder::new_current_thread()
        .enable_time()
        .start_paused(true)
        .build()
        .expect("tokio runtime")
}
