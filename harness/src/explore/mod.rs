pub mod bfs;
pub mod choice;
pub mod env;
pub mod seq;
