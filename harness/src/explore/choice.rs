//! Stateless choice-sequence explorer (the brief's idiom): an execution is driven by a `Chooser`;
//! the explorer replays a prefix, then takes choice 0 at every later point, and enumerates every
//! alternative at every point after the prefix. A deviation is a non-zero choice; the number of
//! deviations can be bounded. Every execution is a fresh run of the real code.

use rayon::prelude::*;
use std::sync::atomic::{AtomicU64, Ordering};

pub struct Chooser {
    prefix: Vec<usize>,
    pub taken: Vec<(usize, usize)>, // (choice, arity)
}

impl Chooser {
    pub fn new(prefix: Vec<usize>) -> Self {
        Self { prefix, taken: Vec::new() }
    }
    /// Pick one of `n` alternatives (n >= 1). Alternative 0 is the default.
    pub fn choose(&mut self, n: usize) -> usize {
        assert!(n >= 1, "choose(0)");
        let i = self.taken.len();
        let c = if i < self.prefix.len() {
            let c = self.prefix[i];
            assert!(c < n, "replay divergence: choice {c} out of range {n} at point {i}");
            c
        } else {
            0
        };
        self.taken.push((c, n));
        c
    }
    pub fn choices(&self) -> Vec<usize> {
        self.taken.iter().map(|(c, _)| *c).collect()
    }
}

#[derive(Debug, Default, Clone)]
pub struct ChoiceStats {
    pub executions: u64,
    pub choice_points: u64,
    pub max_points: usize,
    pub bound: Option<usize>,
}

/// Explore all choice sequences with at most `bound` deviations (None = unbounded).
/// `run` must be deterministic given the chooser's answers.
pub fn explore<F>(bound: Option<usize>, run: F) -> ChoiceStats
where
    F: Fn(&mut Chooser) + Sync,
{
    let executions = AtomicU64::new(0);
    let points = AtomicU64::new(0);
    let maxp = AtomicU64::new(0);
    fn rec<F: Fn(&mut Chooser) + Sync>(
        prefix: Vec<usize>,
        bound: Option<usize>,
        run: &F,
        executions: &AtomicU64,
        points: &AtomicU64,
        maxp: &AtomicU64,
    ) {
        let plen = prefix.len();
        let mut ch = Chooser::new(prefix);
        run(&mut ch);
        assert!(
            ch.taken.len() >= plen,
            "replay divergence: execution consumed {} choices, prefix had {plen}",
            ch.taken.len()
        );
        executions.fetch_add(1, Ordering::Relaxed);
        points.fetch_add(ch.taken.len() as u64, Ordering::Relaxed);
        maxp.fetch_max(ch.taken.len() as u64, Ordering::Relaxed);
        let taken = ch.taken.clone();
        let mut children: Vec<Vec<usize>> = Vec::new();
        let mut dev_before = taken[..plen].iter().filter(|(c, _)| *c != 0).count();
        for i in plen..taken.len() {
            let (c, n) = taken[i];
            if bound.map(|b| dev_before + 1 <= b).unwrap_or(true) {
                for alt in 1..n {
                    let mut p: Vec<usize> = taken[..i].iter().map(|(c, _)| *c).collect();
                    p.push(alt);
                    children.push(p);
                }
            }
            if c != 0 {
                dev_before += 1;
            }
        }
        children
            .into_par_iter()
            .for_each(|p| rec(p, bound, run, executions, points, maxp));
    }
    rec(Vec::new(), bound, &run, &executions, &points, &maxp);
    ChoiceStats {
        executions: executions.load(Ordering::Relaxed),
        choice_points: points.load(Ordering::Relaxed),
        max_points: maxp.load(Ordering::Relaxed) as usize,
        bound,
    }
}
