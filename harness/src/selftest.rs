//! Self-tests of the exploration engines (run with `vcheck selftest`): known-size spaces must be
//! enumerated completely and deterministically.
use crate::core::{Ctx, Tier};
use crate::explore::{bfs, choice, seq};
use std::sync::Mutex;

struct Counter;
impl bfs::Model for Counter {
    type State = (u8, u8);
    type Action = u8;
    fn init(&self) -> Vec<(u8, u8)> { vec![(0, 0)] }
    fn actions(&self, _: &(u8, u8)) -> Vec<u8> { vec![0, 1] }
    fn step(&self, s: &(u8, u8), a: &u8, out: &mut Vec<bfs::Viol>) -> Option<(u8, u8)> {
        let n = if *a == 0 { ((s.0 + 1) % 5, s.1) } else { (s.0, (s.1 + 1) % 7) };
        if n == (4, 6) { out.push(("corner".into(), "reached".into())); }
        Some(n)
    }
}

struct Bits;
impl seq::SeqModel for Bits {
    type State = Vec<u8>;
    type Sym = u8;
    fn init(&self) -> Vec<u8> { vec![] }
    fn alphabet(&self, _: &Vec<u8>, _: &[u8]) -> Vec<u8> { vec![0, 1, 2] }
    fn step(&self, s: &mut Vec<u8>, sym: &u8, _: &[u8], out: &mut Vec<seq::Viol>) {
        s.push(*sym);
        if s.as_slice() == [2, 1, 0, 2] { out.push(("needle".into(), "found".into())); }
    }
    fn final_hash(&self, s: &Vec<u8>) -> u64 { crate::core::hash_of(s) }
}

pub fn run() -> i32 {
    let mut ok = true;
    let mut check = |name: &str, cond: bool, info: String| {
        println!("{} {name}: {info}", if cond { "ok  " } else { "FAIL" });
        ok &= cond;
    };
    let ctx = Ctx::new("SELFTEST", Tier::Quick, 0);
    let st = bfs::run(&ctx, &Counter, "counter", None, 1_000_000);
    check("bfs states", st.states == 35 && st.fixpoint && st.transitions == 70, format!("{st:?}"));
    let v = ctx.violations.drain();
    check("bfs shortest cex", v.len() == 1 && v[0].0.case["path"].as_array().map(|p| p.len()) == Some(10), format!("{:?}", v.first().map(|x| x.0.case.clone())));
    let ctx = Ctx::new("SELFTEST", Tier::Quick, 0);
    let st = seq::run(&ctx, &Bits, "bits", 5);
    // sequences of length <= 5 over 3 symbols: 1+3+9+27+81+243 = 364; steps = 363
    check("seq counts", st.sequences == 364 && st.steps == 363 && st.distinct_final == 364, format!("{st:?}"));
    let v = ctx.violations.drain();
    // the needle [2,1,0,2] occurs as a prefix of 1 + 3 sequences
    check("seq needle", v.len() == 1 && v[0].1 == 1, format!("{:?}", v.iter().map(|x| (x.0.case.clone(), x.1)).collect::<Vec<_>>()));
    let seen = Mutex::new(Vec::new());
    let st = choice::explore(None, |ch| {
        let a = ch.choose(2);
        let b = if a == 1 { ch.choose(3) } else { 0 };
        let c = ch.choose(2);
        seen.lock().unwrap().push((a, b, c));
    });
    let mut s = seen.lock().unwrap().clone();
    s.sort();
    s.dedup();
    check("choice unbounded", st.executions == 8 && s.len() == 8, format!("{st:?} {s:?}"));
    let seen = Mutex::new(Vec::new());
    let st = choice::explore(Some(1), |ch| {
        let v: Vec<usize> = (0..4).map(|_| ch.choose(3)).collect();
        seen.lock().unwrap().push(v);
    });
    let mut s = seen.lock().unwrap().clone();
    s.sort();
    s.dedup();
    // <=1 deviation among 4 ternary points: 1 + 4*2 = 9
    check("choice bound 1", st.executions == 9 && s.len() == 9, format!("{st:?}"));
    let st = choice::explore(Some(2), |ch| { for _ in 0..4 { ch.choose(3); } });
    // + C(4,2)*4 = 24 -> 33
    check("choice bound 2", st.executions == 33, format!("{st:?}"));
    if ok { 0 } else { 2 }
}
