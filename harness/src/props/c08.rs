//! C08 — The simulated exchange keeps a consistent ledger of balances, orders and fills.
//!
//! Layer 1 (E-SEQ, deciding): all sequences of open-order requests of length <= d over the alphabet
//! {buy, sell} x price{1,10} x quantity{1,2,3} x instrument{BTCUSDT, ETHUSDT, ETHBTC} (market) + one
//! limit order and one unknown-instrument order per side, for every configuration
//! (initial balance of btc, eth, usdt from a menu that makes "exactly enough" reachable) x fee {0, 0.1},
//! executed through the real `MockExchange::open_order`; the ledger is read back after every step with
//! the real `MockExchange::account_snapshot`. The three instruments share assets (eth/btc: base of one
//! is quote of another) so "which asset was spent" is observable.
//!
//! Layer 2 (E-ENV): the real `MockExecution` client talking to the real `MockExchange::run` on a paused
//! current-thread runtime; every sequence (<= d ops) of {open-order symbols, fetch_trades(since),
//! fetch_balances, account_snapshot} x {next op immediately / after the latency}; counts oneshot
//! responses and broadcast notifications and checks the queries.
//!
//! Also in layer 2: every open-order symbol again as a call the client ABANDONS - its future is polled, so the
//! request is with the exchange, and then dropped at once or half a latency later (what a client-side timeout
//! shorter than the exchange's latency does). Nothing is demanded about that call's own answer; the order itself is
//! still judged: accepted per the ledger => one balance + one trade announcement, fresh ids, reflected by later
//! queries (`.../client-abandoned-call` signatures). Layer 3 has the same through the real ExecutionManager: one
//! configuration whose exchange latency (1.5 s) exceeds the manager's request timeout (1 s).
//!
//! Layer 2b: one LONG scripted run through the same path (150 / 600 accepted orders, the whole trade history
//! queried after every 16th order and at the end) - the history-length dimension (ids, trade history).
//!
//! Layer 3 (E-ENV, builder path): `ExecutionBuilder::new(&IndexedInstruments).add_mock(config, clock).build().init()`
//! on a paused runtime - the MockExchange's instruments are derived from the `IndexedInstruments` by the
//! builder, orders are sent the way the engine sends them (MultiExchangeTxMap -> ExecutionManager ->
//! MockExecution -> MockExchange::run) and answers / announcements come back INDEXED on the merged account
//! channel. A second exchange (tracked, without execution link, naming the same assets) comes first, so no
//! index of the simulated exchange is 0. Every order sequence <= d x pacing; the events are translated back to
//! names with the tables of `IndexedInstruments` and judged by the same ledger oracle; the initial account
//! snapshot must equal the configured balances.
//!
//! Layer 1b: the same E-SEQ model over prices, quantities and a fee with many decimals (amounts down to 1e-14),
//! balances including the exactly-enough value: "exactly that amount" to the last digit.
//!
//! Also in the alphabet: market orders with every time in force (the statement speaks of all market orders).
//!
//! Second hardening round: layer 1c (the layer-1 model with every request of a sequence carrying the SAME client order
//! id and strategy - ids must be fresh and acceptance must follow the balance whatever the client sends); a balance
//! that is 1e-14 short of exactly enough in layer 1b; a trade query whose `since` lies INSIDE the history (1 ms after
//! the first op's exchange time) in layer 2; upper-case exchange asset names (!= the internal names) everywhere and,
//! in layer 3, a third exchange placed after the simulated one that uses one of its instrument names for another market.
//!
//! Oracle (statement):
//!   R-accept   a market order on a configured instrument is accepted iff balance(spent) >= required, with
//!              spent = quote, required = p*q*(1+fee) for a buy; spent = BASE, required = q*(1+fee) for a sell.
//!   R-debit    on acceptance exactly the spent asset is debited by exactly `required` (total and free),
//!              every other balance is unchanged, no balance is negative.
//!   R-reject   on rejection no balance changes and nothing is announced. Orders for an instrument the exchange does
//!              not list cannot be filled: rejected.
//!   R-limit    the statement speaks of market orders; a LIMIT order on a listed instrument may be (a) rejected without
//!              any effect or (b) accepted = filled at once at its limit price under ALL the market-order rules
//!              (accepted only with enough of the spent asset, exact debit, fresh ids, fee, one balance + one trade
//!              announcement, reflected by snapshots / trade queries). Accepted without enough, or half-applied
//!              (debited / announced although rejected, accepted without its announcements), is a violation.
//!   R-fill     each accepted order yields exactly one fill: order id and trade id fresh (never issued
//!              before), the trade echoes instrument/strategy/side/price/quantity, fees = fee * p * q (quote).
//!   R-notify   one balance notification (the debited asset with its new balance) and one trade
//!              notification per accepted order, none for a rejected one (layer 2: on the broadcast stream;
//!              their relative order is not prescribed).
//!   R-echo     the answer to an order names that order (exchange, instrument, strategy, client order id) and
//!              its side, price, quantity and kind (not compared: the time in force it reports); announcements carry the
//!              simulated exchange's id.
//!   R-queries  balances / snapshot equal the ledger; trade queries list exactly the accepted orders'
//!              trades (with time >= since; a trade exactly at `since` may be listed or not).
//! After each step the reference ledger is re-synchronised with the implementation so that one defect is
//! reported once per step with a stable signature and does not cascade.
//!
//! Signature for the candidate finding of DESIGN §5: when a sell deviates from the rules above but is
//! fully explained by "the sell checked and debited the QUOTE asset" the step is reported under the
//! single signature `C08/sell-spends-wrong-asset/quote-instead-of-base`.

use crate::core::{Ctx, Distinct, Outcome, Samples, hash_of};
use crate::explore::{
    choice::{self, Chooser},
    env::paused_rt,
    seq::{self, SeqModel, Viol},
};
use barter::{
    engine::{clock::EngineClock, execution_tx::ExecutionTxMap},
    execution::{AccountStreamEvent, builder::ExecutionBuilder, request::ExecutionRequest},
};
use barter_execution::{
    AccountEvent, AccountEventKind, UnindexedAccountEvent, UnindexedAccountSnapshot,
    balance::{AssetBalance, Balance},
    client::{
        ExecutionClient,
        mock::{MockExecution, MockExecutionClientConfig, MockExecutionConfig},
    },
    error::{ApiError, ConnectivityError, OrderError, UnindexedOrderError},
    exchange::mock::{MockExchange, OpenOrderNotifications, account::AccountState},
    order::{
        Order, OrderEvent, OrderKey, OrderKind, TimeInForce,
        id::{ClientOrderId, OrderId, StrategyId},
        request::{OrderRequestOpen, RequestOpen},
        state::{ActiveOrderState, InactiveOrderState, Open, OrderState},
    },
    trade::{AssetFees, Trade},
};
use barter_instrument::{
    Side, Underlying,
    asset::{AssetIndex, QuoteAsset, name::AssetNameExchange},
    exchange::{ExchangeId, ExchangeIndex},
    index::IndexedInstruments,
    instrument::{
        Instrument, InstrumentIndex,
        name::{InstrumentNameExchange, InstrumentNameInternal},
    },
};
use barter_integration::{channel::Tx, snapshot::Snapshot};
use chrono::{DateTime, TimeDelta, Utc};
use fnv::FnvHashMap;
use futures::StreamExt;
use rayon::prelude::*;
use rust_decimal::Decimal;
use rust_decimal_macros::dec;
use serde::{Deserialize, Serialize};
use serde_json::{Value, json};
use std::{
    collections::BTreeMap,
    future::Future,
    panic::{AssertUnwindSafe, catch_unwind},
    pin::Pin,
    sync::{
        Arc, Mutex,
        atomic::{AtomicU64, Ordering},
    },
    time::Duration,
};
use tokio::sync::{broadcast, mpsc};

use super::common::t0;

const EXCHANGE: ExchangeId = ExchangeId::BinanceSpot;
/// exchange names of the assets: upper case, so that an asset's exchange name differs from its (lower-case) internal name
const ASSETS: [&str; 3] = ["BTC", "ETH", "USDT"];
/// (name, base, quote)
const INSTRUMENTS: [(&str, &str, &str); 3] = [("BTCUSDT", "BTC", "USDT"), ("ETHUSDT", "ETH", "USDT"), ("ETHBTC", "ETH", "BTC")];
const UNKNOWN: &str = "DOGEUSDT";

// ------------------------------------------------------------------------------------------------
// alphabet + configuration
// ------------------------------------------------------------------------------------------------

/// One open-order request. `inst` 0..=2 = INSTRUMENTS, 3 = not listed.
#[derive(Debug, Clone, Copy, PartialEq, Eq, Hash, Serialize, Deserialize)]
pub struct Sym {
    pub sell: bool,
    pub price: u32,
    pub qty: u32,
    pub inst: u8,
    pub limit: bool,
    /// time in force: 0 = ImmediateOrCancel, 1 = GoodUntilCancelled (not post-only), 2 = FillOrKill, 3 = GoodUntilEndOfDay
    #[serde(default)]
    pub tif: u8,
    /// many-decimal values: the price is `price` x 0.00001234 and the quantity `qty` x 0.333
    #[serde(default)]
    pub fine: bool,
}

fn price_of(s: &Sym) -> Decimal {
    if s.fine { Decimal::from(s.price) * dec!(0.00001234) } else { Decimal::from(s.price) }
}
fn qty_of(s: &Sym) -> Decimal {
    if s.fine { Decimal::from(s.qty) * dec!(0.333) } else { Decimal::from(s.qty) }
}

/// the alphabet of the many-decimals sweep: market orders on all instruments, both sides
fn fine_alphabet() -> Vec<Sym> {
    let mut v = Vec::new();
    for sell in [false, true] {
        for inst in 0..3u8 {
            for price in [1u32, 10] {
                for qty in [1u32, 3] {
                    v.push(Sym { sell, price, qty, inst, limit: false, tif: 0, fine: true });
                }
            }
        }
    }
    v
}

/// initial balances (btc, eth, usdt) and fee, as decimal strings (the config travels in the case label)
#[derive(Debug, Clone, PartialEq, Eq, Hash, Serialize, Deserialize)]
pub struct Config {
    pub balances: [String; 3],
    pub fee: String,
    /// latency of the simulated exchange in ms; None = `LATENCY_MS` (only layer 3 varies it: a latency beyond the
    /// execution manager's request timeout makes the manager abandon every open-order call)
    #[serde(default, skip_serializing_if = "Option::is_none")]
    pub latency_ms: Option<u64>,
    /// layer 1c: every request of the sequence carries the SAME client order id and strategy (a client that re-uses
    /// its ids); the statement's "fresh order/trade id" and "accepts iff enough" hold for any sequence of orders
    #[serde(default, skip_serializing_if = "std::ops::Not::not")]
    pub same_cid: bool,
}
impl Config {
    fn latency(&self) -> u64 {
        self.latency_ms.unwrap_or(LATENCY_MS)
    }
    fn label(&self) -> String {
        serde_json::to_string(self).unwrap()
    }
    fn fee(&self) -> Decimal {
        self.fee.parse().unwrap()
    }
    fn mock_config(&self, latency_ms: u64) -> MockExecutionConfig {
        MockExecutionConfig {
            mocked_exchange: EXCHANGE,
            initial_state: UnindexedAccountSnapshot {
                exchange: EXCHANGE,
                balances: ASSETS
                    .iter()
                    .zip(self.balances.iter())
                    .map(|(a, b)| {
                        let b: Decimal = b.parse().unwrap();
                        AssetBalance { asset: AssetNameExchange::new(*a), balance: Balance { total: b, free: b }, time_exchange: t0() }
                    })
                    .collect(),
                instruments: vec![],
            },
            latency_ms,
            fees_percent: self.fee(),
        }
    }
}

fn instruments() -> FnvHashMap<InstrumentNameExchange, Instrument<ExchangeId, AssetNameExchange>> {
    INSTRUMENTS
        .iter()
        .map(|(name, base, quote)| {
            (
                InstrumentNameExchange::new(*name),
                Instrument::spot(EXCHANGE, format!("{}_{}", EXCHANGE.as_str(), name.to_lowercase()), *name, Underlying::new(*base, *quote), None),
            )
        })
        .collect()
}

fn alphabet(qtys: &[u32], with_tif: bool) -> Vec<Sym> {
    let mut v = Vec::new();
    for sell in [false, true] {
        for inst in 0..3u8 {
            for price in [1u32, 10] {
                for &qty in qtys {
                    v.push(Sym { sell, price, qty, inst, limit: false, tif: 0, fine: false });
                }
            }
        }
    }
    for sell in [false, true] {
        v.push(Sym { sell, price: 1, qty: 1, inst: 2, limit: true, tif: 0, fine: false });
        v.push(Sym { sell, price: 1, qty: 1, inst: 3, limit: false, tif: 0, fine: false });
    }
    if !with_tif {
        return v;
    }
    // market orders with another time in force (the statement quantifies over ALL market orders)
    v.push(Sym { sell: false, price: 1, qty: 3, inst: 0, limit: false, tif: 1, fine: false });
    v.push(Sym { sell: true, price: 10, qty: 1, inst: 1, limit: false, tif: 2, fine: false });
    v.push(Sym { sell: true, price: 1, qty: 2, inst: 2, limit: false, tif: 3, fine: false });
    v
}

fn inst_name(s: &Sym) -> &'static str {
    if (s.inst as usize) < INSTRUMENTS.len() { INSTRUMENTS[s.inst as usize].0 } else { UNKNOWN }
}

fn request(s: &Sym, n: usize) -> OrderRequestOpen<ExchangeId, InstrumentNameExchange> {
    request_u(s, n, false)
}

/// the request of layer 1c: whatever its position in the sequence it carries client order id "cid-0" / strategy "strat-0"
fn request_same_cid(s: &Sym) -> OrderRequestOpen<ExchangeId, InstrumentNameExchange> {
    request_u(s, 0, false)
}

/// `unique_strategy`: every request of a sequence has its own strategy id (used where a fill can only be
/// traced back to its order through the strategy it echoes), else two strategies alternate.
fn request_u(s: &Sym, n: usize, unique_strategy: bool) -> OrderRequestOpen<ExchangeId, InstrumentNameExchange> {
    OrderEvent {
        key: OrderKey {
            exchange: EXCHANGE,
            instrument: InstrumentNameExchange::new(inst_name(s)),
            strategy: StrategyId::new(format!("strat-{}", if unique_strategy { n } else { n % 2 })),
            cid: ClientOrderId::new(format!("cid-{n}")),
        },
        state: RequestOpen {
            side: if s.sell { Side::Sell } else { Side::Buy },
            price: price_of(s),
            quantity: qty_of(s),
            kind: if s.limit { OrderKind::Limit } else { OrderKind::Market },
            time_in_force: match s.tif {
                0 => TimeInForce::ImmediateOrCancel,
                1 => TimeInForce::GoodUntilCancelled { post_only: false },
                2 => TimeInForce::FillOrKill,
                _ => TimeInForce::GoodUntilEndOfDay,
            },
        },
    }
}

// ------------------------------------------------------------------------------------------------
// reference ledger + judgement of one open-order step (shared by both layers)
// ------------------------------------------------------------------------------------------------

/// asset -> (total, free)
type Ledger = BTreeMap<String, (Decimal, Decimal)>;

fn ledger_of(balances: &[AssetBalance<AssetNameExchange>]) -> Ledger {
    balances.iter().map(|b| (b.asset.name().to_string(), (b.balance.total, b.balance.free))).collect()
}

type OpenResp = Order<ExchangeId, InstrumentNameExchange, Result<Open, UnindexedOrderError>>;

/// What one open-order step showed. `after` = ledger read back (layer 1); layer 2 has only the announcements.
struct Observed<'a> {
    resp: &'a OpenResp,
    /// announced balance snapshots / trades for this order
    balances: Vec<&'a AssetBalance<AssetNameExchange>>,
    trades: Vec<&'a Trade<QuoteAsset, InstrumentNameExchange>>,
    after: Option<&'a Ledger>,
}

/// ids issued so far (freshness)
#[derive(Default, Clone)]
struct Issued {
    order_ids: Vec<String>,
    trade_ids: Vec<String>,
}

/// (spent asset, required amount) under the statement, or None if the order cannot be a market fill
fn spend(s: &Sym, fee: Decimal, use_quote_for_sell: bool) -> Option<(&'static str, Decimal)> {
    if s.limit || s.inst as usize >= INSTRUMENTS.len() {
        return None;
    }
    let (_, base, quote) = INSTRUMENTS[s.inst as usize];
    let (p, q) = (price_of(s), qty_of(s));
    Some(if s.sell {
        (if use_quote_for_sell { quote } else { base }, q + q * fee)
    } else {
        (quote, p * q + p * q * fee)
    })
}

/// `spend` for an order that is FILLED: a limit order on a listed instrument that the exchange chooses to fill (at once, in
/// full, at its limit price) is held to the market-order rules with its own price and quantity. None = unlisted instrument.
fn spend_filled(s: &Sym, fee: Decimal, use_quote_for_sell: bool) -> Option<(&'static str, Decimal)> {
    spend(&Sym { limit: false, ..*s }, fee, use_quote_for_sell)
}

/// ledger after the step if the order is decided on `spent`/`required`
fn predict(before: &Ledger, sp: Option<(&'static str, Decimal)>) -> (bool, Ledger) {
    match sp {
        Some((asset, required)) if before[asset].1 >= required => {
            let mut l = before.clone();
            let e = l.get_mut(asset).unwrap();
            e.0 -= required;
            e.1 -= required;
            (true, l)
        }
        _ => (false, before.clone()),
    }
}

struct LazyTxt<F: Fn() -> String>(F);
impl<F: Fn() -> String> std::fmt::Display for LazyTxt<F> {
    fn fmt(&self, f: &mut std::fmt::Formatter<'_>) -> std::fmt::Result {
        f.write_str(&(self.0)())
    }
}

/// Judge one step. Returns the violations and the ledger to continue from (None = unknown, layer 2 only).
fn judge_open(s: &Sym, n: usize, req: &OrderRequestOpen<ExchangeId, InstrumentNameExchange>, fee: Decimal, before: &Ledger, o: &Observed, issued: &mut Issued, render: bool) -> (Vec<Viol>, Option<Ledger>) {
    // details are rendered only on request (`render`): the explorer first asks for the signatures only
    macro_rules! det {
        ($($t:tt)*) => { if render { format!($($t)*) } else { String::new() } };
    }
    let side = if s.sell { "sell" } else { "buy" };
    let tag = if s.limit {
        "limit"
    } else if s.inst as usize >= INSTRUMENTS.len() {
        "unknown-instrument"
    } else {
        "market"
    };
    let accepted = o.resp.state.is_ok();
    // The statement speaks of market orders. A LIMIT order on a listed instrument is the exchange's choice: (a) rejected - then
    // judged like every rejection (no effect, nothing announced) - or (b) accepted = filled at its limit price - then judged by
    // the full market-order rules (enough iff accepted, exact debit, fresh ids, fee, one balance + one trade announcement).
    // Never accepted without enough, never half-applied. Orders for unlisted instruments can only be rejected.
    let as_filled = s.limit && accepted;
    let spend_of = |use_quote: bool| if as_filled { spend_filled(s, fee, use_quote) } else { spend(s, fee, use_quote) };
    let sp = spend_of(false);
    let (want_accept, want_after) = predict(before, sp);
    let mut ledger_viols: Vec<Viol> = Vec::new(); // violations about which asset / how much / accept-or-not
    let mut other: Vec<Viol> = Vec::new();
    // rendered only when a violation is reported
    let ctx_txt = LazyTxt(|| format!("request #{n} {s:?} fee={fee} ledger before={before:?} response state={:?}", o.resp.state));

    // R-accept
    if accepted != want_accept {
        ledger_viols.push((
            format!("C08/accept-iff-enough/{side}/{tag}/expected={}-got={}", if want_accept { "accept" } else { "reject" }, if accepted { "accept" } else { "reject" }),
            det!("{ctx_txt}; statement: spent/required={sp:?}"),
        ));
    }
    // R-debit / R-reject on the ledger read back
    if let Some(after) = o.after {
        // (only a balance this step touched: a negative balance inherited from an earlier, already reported step is not re-reported)
        if let Some((a, v)) = after.iter().find(|(a, v)| (v.0 < Decimal::ZERO || v.1 < Decimal::ZERO) && before[*a] != **v) {
            ledger_viols.push((format!("C08/negative-balance/{side}"), det!("{ctx_txt}; {a} = {v:?} after the step")));
        }
        let changed: Vec<&String> = after.keys().filter(|k| after[*k] != before[*k]).collect();
        if accepted {
            if let Some((asset, required)) = sp {
                let others: Vec<&&String> = changed.iter().filter(|k| k.as_str() != asset).collect();
                let d = (before[asset].0 - after[asset].0, before[asset].1 - after[asset].1);
                if d.0 == Decimal::ZERO && d.1 == Decimal::ZERO && !others.is_empty() {
                    ledger_viols.push((format!("C08/debit/{side}/wrong-asset"), det!("{ctx_txt}; must debit {asset} by {required}; changed instead: {others:?}; after={after:?}")));
                } else {
                    if d != (required, required) {
                        let what = if d.0 != d.1 { "total-and-free-differ" } else { "wrong-amount" };
                        ledger_viols.push((format!("C08/debit/{side}/{what}"), det!("{ctx_txt}; must debit {asset} by {required}; debited (total,free)={d:?}")));
                    }
                    if !others.is_empty() {
                        ledger_viols.push((format!("C08/debit/{side}/other-balance-changed"), det!("{ctx_txt}; only {asset} may change; also changed: {others:?}; after={after:?}")));
                    }
                }
            }
        } else if !changed.is_empty() {
            ledger_viols.push((format!("C08/reject-leaves-balances/{side}/{tag}"), det!("{ctx_txt}; changed on rejection: {changed:?}; after={after:?}")));
        }
    }
    // the answer is the answer to THIS order: it names the order's exchange, instrument, strategy and client order id
    // and the order's side, price, quantity and kind (what the ledger rules are evaluated on). The time in force it reports is
    // not compared: the statement does not say what the answer repeats, and an exchange may report the effective one
    // (a market order executes at once whatever was requested)
    let r = o.resp;
    if r.key != req.key || r.side != req.state.side || r.price != req.state.price || r.quantity != req.state.quantity || r.kind != req.state.kind {
        other.push((format!("C08/response/does-not-echo-order/{}", if accepted { "accepted" } else { "rejected" }), det!("{ctx_txt}; request={req:?}; response={r:?}")));
    }
    // R-notify (content of the balance announcement) + R-fill
    if accepted {
        let open = o.resp.state.as_ref().unwrap();
        if issued.order_ids.contains(&open.id.0.to_string()) {
            other.push(("C08/fresh-id/order-id-reused".into(), det!("{ctx_txt}; order id {} was issued before: {:?}", open.id.0, issued.order_ids)));
        }
        issued.order_ids.push(open.id.0.to_string());
        if o.balances.len() != 1 {
            other.push((format!("C08/notify/balance/count={}", o.balances.len().min(2)), det!("{ctx_txt}; {} balance announcements for one accepted order", o.balances.len())));
        }
        if o.trades.len() != 1 {
            other.push((format!("C08/notify/trade/count={}", o.trades.len().min(2)), det!("{ctx_txt}; {} fills/trade announcements for one accepted order", o.trades.len())));
        }
        if let (Some((asset, _)), Some(b)) = (sp, o.balances.first()) {
            let expect = o.after.unwrap_or(&want_after)[asset];
            if b.asset.name().as_str() != asset {
                ledger_viols.push((format!("C08/notify/balance/{side}/wrong-asset"), det!("{ctx_txt}; announced balance of {} instead of the debited {asset}", b.asset.name())));
            } else if (b.balance.total, b.balance.free) != expect {
                ledger_viols.push((format!("C08/notify/balance/{side}/wrong-value"), det!("{ctx_txt}; announced {:?}, ledger says {expect:?}", b.balance)));
            }
        }
        if let Some(t) = o.trades.first() {
            if issued.trade_ids.contains(&t.id.0.to_string()) {
                other.push(("C08/fresh-id/trade-id-reused".into(), det!("{ctx_txt}; trade id {} was issued before: {:?}", t.id.0, issued.trade_ids)));
            }
            issued.trade_ids.push(t.id.0.to_string());
            if t.order_id != open.id {
                other.push(("C08/fill/order-id-mismatch".into(), det!("{ctx_txt}; trade.order_id={:?} response id={:?}", t.order_id, open.id)));
            }
            if t.instrument != req.key.instrument || t.strategy != req.key.strategy || t.side != req.state.side || t.price != req.state.price || t.quantity != req.state.quantity {
                other.push(("C08/fill/does-not-echo-order".into(), det!("{ctx_txt}; trade={t:?}")));
            }
            let want_fee = req.state.price * req.state.quantity * fee;
            if t.fees.fees != want_fee {
                other.push((format!("C08/fill/fees/{side}"), det!("{ctx_txt}; trade fees {} (quote), configured percentage of the order value gives {want_fee}", t.fees.fees)));
            }
        }
    } else if !o.balances.is_empty() || !o.trades.is_empty() {
        other.push(("C08/notify/rejected-order-announced".into(), det!("{ctx_txt}; {} balance / {} trade announcements", o.balances.len(), o.trades.len())));
    }

    // continuation ledger + folding of the "sell spent the quote asset" explanation
    let mut next = match o.after {
        Some(a) => Some(a.clone()),
        None if ledger_viols.is_empty() => Some(want_after.clone()),
        None => None,
    };
    if !ledger_viols.is_empty() && s.sell && sp.is_some() {
        let alt = spend_of(true);
        let (alt_accept, alt_after) = predict(before, alt);
        let ledger_ok = o.after.map(|a| *a == alt_after).unwrap_or(true);
        let announce_ok = !accepted
            || o.balances.first().map(|b| b.asset.name().as_str() == alt.unwrap().0 && (b.balance.total, b.balance.free) == alt_after[alt.unwrap().0]).unwrap_or(true);
        if accepted == alt_accept && ledger_ok && announce_ok {
            let first = ledger_viols[0].0.clone();
            ledger_viols = vec![(
                "C08/sell-spends-wrong-asset/quote-instead-of-base".into(),
                det!(
                    "{ctx_txt}; statement: a sell spends the BASE asset {:?}; observed behaviour is exactly that of checking and debiting the QUOTE asset {:?} (ledger after={:?}, announced={:?}) [first broken rule: {first}]",
                    sp.unwrap(), alt.unwrap(), o.after, o.balances.first().map(|b| (b.asset.name().to_string(), b.balance))
                ),
            )];
            next = Some(o.after.cloned().unwrap_or(alt_after));
        }
    }
    ledger_viols.extend(other);
    (ledger_viols, next)
}

/// Judge an open-order call the client ABANDONED after the request had reached the exchange (layers 2 and 3).
/// There is no answer; `balances` / `trades` are the announcements attributed to the order by content (see
/// `env_judge`). The statement's "each accepted order ... announced by one balance and one trade notification"
/// does not depend on the client still listening for the answer, and whether the order is accepted is decided by
/// the ledger (R-accept), so: predicted accepted => exactly one balance announcement (the debited asset, its new
/// value) and exactly one trade announcement (fresh order / trade id, configured fee); predicted rejected => none.
/// Returns (violations, ledger to continue from, accepted according to the model).
#[allow(clippy::too_many_arguments)]
fn judge_abandoned(
    s: &Sym,
    n: usize,
    how: Abandon,
    req: &OrderRequestOpen<ExchangeId, InstrumentNameExchange>,
    fee: Decimal,
    before: &Ledger,
    balances: &[&AssetBalance<AssetNameExchange>],
    trades: &[&Trade<QuoteAsset, InstrumentNameExchange>],
    issued: &mut Issued,
) -> (Vec<Viol>, Option<Ledger>, bool) {
    let side = if s.sell { "sell" } else { "buy" };
    // a LIMIT order may be rejected (nothing announced) or filled under the market rules; without an answer the exchange's
    // choice shows in the announcements: a fill that echoes this order was announced => it is held to the market rules
    // (enough balance or it must not have been filled; one balance + one trade announcement); none => judged as rejected
    let as_filled = s.limit && !trades.is_empty();
    let spend_of = |use_quote: bool| if as_filled { spend_filled(s, fee, use_quote) } else { spend(s, fee, use_quote) };
    let sp = spend_of(false);
    let (want_accept, want_after) = predict(before, sp);
    let ctx_txt = format!(
        "request #{n} {s:?} fee={fee} ledger before={before:?}; the client dropped the open_order call ({how:?}) after the request had reached the exchange; announcements attributed to it: balances={:?} trades={:?}",
        balances.iter().map(|b| (b.asset.name().to_string(), b.balance)).collect::<Vec<_>>(),
        trades.iter().map(|t| (t.id.0.to_string(), t.order_id.0.to_string())).collect::<Vec<_>>()
    );
    // does the observation fit "decided on `sp`"?
    let fits = |sp: Option<(&'static str, Decimal)>| {
        let (acc, after) = predict(before, sp);
        if acc {
            let asset = sp.unwrap().0;
            trades.len() == 1 && balances.len() == 1 && balances[0].asset.name().as_str() == asset && (balances[0].balance.total, balances[0].balance.free) == after[asset]
        } else {
            trades.is_empty() && balances.is_empty()
        }
    };
    let mut viols: Vec<Viol> = Vec::new();
    let mut next = Some(want_after.clone());
    if !fits(sp) {
        let alt = spend_of(true);
        // (folded only on positive evidence - announcements the quote-asset explanation predicts; "nothing was
        // announced" is reported as what it is)
        if s.sell && sp.is_some() && predict(before, alt).0 && fits(alt) {
            let (_, alt_after) = predict(before, alt);
            viols.push((
                "C08/sell-spends-wrong-asset/quote-instead-of-base".into(),
                format!("{ctx_txt}; statement: a sell spends the BASE asset {:?}; the announcements are exactly those of checking and debiting the QUOTE asset {:?}", sp.unwrap(), alt.unwrap()),
            ));
            next = Some(alt_after);
        } else if want_accept {
            if balances.len() != 1 {
                viols.push((format!("C08/notify/balance/count={}/client-abandoned-call", balances.len().min(2)), format!("{ctx_txt}; the ledger accepts this order ({sp:?}): {} balance announcements for one accepted order", balances.len())));
            } else if let Some((asset, _)) = sp {
                // (attributed by the quote-asset explanation although that explanation does not fit as a whole)
                if balances[0].asset.name().as_str() != asset {
                    viols.push((format!("C08/notify/balance/{side}/wrong-asset"), format!("{ctx_txt}; announced balance of {} instead of the debited {asset}", balances[0].asset.name())));
                }
            }
            if trades.len() != 1 {
                viols.push((format!("C08/notify/trade/count={}/client-abandoned-call", trades.len().min(2)), format!("{ctx_txt}; the ledger accepts this order ({sp:?}): {} trade announcements for one accepted order", trades.len())));
            }
        } else {
            // announcements that only the quote-asset explanation attributes to an order the ledger rejects
            viols.push(("C08/notify/rejected-order-announced/client-abandoned-call".into(), format!("{ctx_txt}; the ledger rejects this order ({sp:?})")));
            next = None;
        }
    }
    // R-fill on the announced fill: ids never issued before, fee = configured percentage of the order value
    if let Some(t) = trades.first() {
        if issued.order_ids.contains(&t.order_id.0.to_string()) {
            viols.push(("C08/fresh-id/order-id-reused".into(), format!("{ctx_txt}; order id {} was issued before: {:?}", t.order_id.0, issued.order_ids)));
        }
        issued.order_ids.push(t.order_id.0.to_string());
        if issued.trade_ids.contains(&t.id.0.to_string()) {
            viols.push(("C08/fresh-id/trade-id-reused".into(), format!("{ctx_txt}; trade id {} was issued before: {:?}", t.id.0, issued.trade_ids)));
        }
        issued.trade_ids.push(t.id.0.to_string());
        let want_fee = req.state.price * req.state.quantity * fee;
        if t.fees.fees != want_fee {
            viols.push((format!("C08/fill/fees/{side}"), format!("{ctx_txt}; trade fees {} (quote), configured percentage of the order value gives {want_fee}", t.fees.fees)));
        }
    }
    (viols, next, want_accept)
}

// ------------------------------------------------------------------------------------------------
// layer 1: E-SEQ on MockExchange::open_order / account_snapshot
// ------------------------------------------------------------------------------------------------

/// The real exchange; `Clone` rebuilds it from its public fields (channel ends are fresh and unused here).
struct Ex(MockExchange);
impl Clone for Ex {
    fn clone(&self) -> Self {
        let e = &self.0;
        let (_tx, rx) = mpsc::unbounded_channel();
        let (etx, _) = broadcast::channel(1);
        Ex(MockExchange {
            exchange: e.exchange,
            latency_ms: e.latency_ms,
            fees_percent: e.fees_percent,
            request_rx: rx,
            event_tx: etx,
            instruments: e.instruments.clone(),
            account: {
                // the trade history goes back in through `ack_trade`, so the copy does not depend on the
                // collection type the ledger keeps its trades in
                let mut account = AccountState::new(
                    e.account.balances().map(|b| (b.asset.clone(), b.clone())).collect(),
                    e.account.orders_open().map(|o| (o.key.cid.clone(), o.clone())).collect(),
                    e.account.orders_cancelled().map(|o| (o.key.cid.clone(), o.clone())).collect(),
                    Default::default(),
                );
                for trade in e.account.trades(DateTime::<Utc>::MIN_UTC).cloned().collect::<Vec<_>>() {
                    account.ack_trade(trade);
                }
                account
            },
            order_sequence: e.order_sequence,
            time_exchange_latest: e.time_exchange_latest,
        })
    }
}

#[derive(Clone)]
pub struct St {
    ex: Ex,
    issued: Issued,
    accepted_cids: Vec<String>,
    dead: bool,
}

pub struct M<'a> {
    /// None when replaying (every violation is rendered)
    ctx: Option<&'a Ctx>,
    /// signature -> (shortest history length it was reported with by this model, occurrences not rendered)
    seen: Mutex<std::collections::HashMap<String, (usize, u64)>>,
    cfg: Config,
    alphabet: Vec<Sym>,
    evals: AtomicU64,
    accepted: AtomicU64,
    rejected: AtomicU64,
}

impl<'a> M<'a> {
    fn new(ctx: Option<&'a Ctx>, cfg: Config, alphabet: Vec<Sym>) -> Self {
        Self { ctx, seen: Mutex::new(Default::default()), cfg, alphabet, evals: AtomicU64::new(0), accepted: AtomicU64::new(0), rejected: AtomicU64::new(0) }
    }
}

impl<'a> SeqModel for M<'a> {
    type State = St;
    type Sym = Sym;

    fn init(&self) -> St {
        let (_tx, rx) = mpsc::unbounded_channel();
        let (etx, _) = broadcast::channel(1);
        St { ex: Ex(MockExchange::new(self.cfg.mock_config(0), rx, etx, instruments())), issued: Issued::default(), accepted_cids: vec![], dead: false }
    }

    fn alphabet(&self, s: &St, _hist: &[Sym]) -> Vec<Sym> {
        if s.dead { vec![] } else { self.alphabet.clone() }
    }

    fn step(&self, s: &mut St, sym: &Sym, hist: &[Sym], out: &mut Vec<Viol>) {
        let n = hist.len();
        let fee = self.cfg.fee();
        let before = ledger_of(&s.ex.0.account_snapshot().balances);
        // exchange time moves with the requests (two requests share an instant, then it advances)
        let t = t0() + TimeDelta::seconds((n / 2) as i64);
        s.ex.0.time_exchange_latest = t;
        s.ex.0.account.update_time_exchange(t);
        let req = if self.cfg.same_cid { request_same_cid(sym) } else { request(sym, n) };
        let req_echo = req.clone();
        let cid_txt = req.key.cid.0.to_string();
        let r = catch_unwind(AssertUnwindSafe(|| s.ex.0.open_order(req)));
        let (resp, notifications) = match r {
            Ok(x) => x,
            Err(_) => {
                out.push((format!("C08/panic/open_order/{}", if sym.sell { "sell" } else { "buy" }), format!("open_order panicked on request #{n} {sym:?}, ledger before={before:?}")));
                s.dead = true;
                return;
            }
        };
        let snap = s.ex.0.account_snapshot();
        let after = ledger_of(&snap.balances);
        let obs = Observed {
            resp: &resp,
            balances: notifications.iter().map(|x| &x.balance.0).collect(),
            trades: notifications.iter().map(|x| &x.trade).collect(),
            after: Some(&after),
        };
        // signatures first; a signature already reported by this model for a sequence that is not longer is
        // only counted (the collector keeps the shortest case anyway), everything else is rendered and reported
        let mut issued_probe = s.issued.clone();
        let (sigs, _) = judge_open(sym, n, &req_echo, fee, &before, &obs, &mut issued_probe, false);
        let mut need = sigs.is_empty();
        if !sigs.is_empty() {
            let mut seen = self.seen.lock().unwrap();
            for (sig, _) in &sigs {
                match seen.get_mut(sig) {
                    // strictly longer than a reported case: count only (flushed into the collector after the run)
                    Some((len, suppressed)) if *len < n => *suppressed += 1,
                    Some((len, _)) => {
                        *len = n.min(*len);
                        need = true;
                    }
                    None => {
                        seen.insert(sig.clone(), (n, 0));
                        need = true;
                    }
                }
            }
        }
        if need {
            let fresh: Vec<String> = {
                let seen = self.seen.lock().unwrap();
                sigs.iter().filter(|(g, _)| seen.get(g).map(|x| x.0 >= n).unwrap_or(true)).map(|(g, _)| g.clone()).collect()
            };
            let (viols, _) = judge_open(sym, n, &req_echo, fee, &before, &obs, &mut s.issued, true);
            out.extend(viols.into_iter().filter(|(g, _)| self.ctx.is_none() || fresh.contains(g)));
        } else {
            s.issued = issued_probe;
        }
        if resp.state.is_ok() {
            s.accepted_cids.push(cid_txt);
            self.accepted.fetch_add(1, Ordering::Relaxed);
        } else {
            self.rejected.fetch_add(1, Ordering::Relaxed);
        }
        // the alphabet assumes total == free (the code asserts it): a state that lost it is not explored further
        if after.values().any(|v| v.0 != v.1) {
            s.dead = true;
        }
        // R-queries (snapshot): every listed asset once; no order that was not accepted
        if snap.balances.len() != after.len() || after.len() != ASSETS.len() {
            out.push(("C08/snapshot/balances-not-one-per-asset".into(), format!("after request #{n} {sym:?}: snapshot balances={:?}", snap.balances)));
        }
        for o in snap.instruments.iter().flat_map(|i| i.orders.iter()) {
            if !s.accepted_cids.contains(&o.key.cid.0.to_string()) {
                out.push(("C08/snapshot/lists-order-never-accepted".into(), format!("after request #{n} {sym:?}: snapshot lists {o:?}")));
            }
        }
        self.evals.fetch_add(1, Ordering::Relaxed);
    }

    fn final_hash(&self, s: &St) -> u64 {
        let l = ledger_of(&s.ex.0.account_snapshot().balances);
        hash_of(&(self.cfg.label(), l, s.ex.0.order_sequence))
    }
}

// ------------------------------------------------------------------------------------------------
// layer 2: E-ENV through MockExecution -> MockExchange::run
// ------------------------------------------------------------------------------------------------

const LATENCY_MS: u64 = 100;
/// `ExecutionBuilder::add_mock` gives its ExecutionManager a request timeout of 1 s
const MANAGER_TIMEOUT_MS: u64 = 1000;
/// layer 3 "slow exchange": a latency beyond that timeout
const SLOW_LATENCY_MS: u64 = 1500;

#[derive(Debug, Clone, Copy, PartialEq, Eq, Hash, Serialize, Deserialize)]
pub enum Op {
    Open(Sym),
    /// an open-order call the client ABANDONS: its future is polled until the request has reached the exchange
    /// and then dropped (so the oneshot receiver of the response is gone when the exchange answers)
    OpenDrop(Sym, Abandon),
    /// since = the beginning of time
    TradesAll,
    /// since = exchange time of a request sent now (trades of orders sent at this instant are exactly at `since`)
    TradesSinceNow,
    Balances,
    Snapshot,
    /// since = 1 ms after the exchange time of the FIRST op of the sequence: fills of that instant are older than
    /// `since` (must not be listed), fills of later instants are newer (must be listed) - a `since` INSIDE the history
    TradesSinceFirst,
}

/// When the client gives up on an open-order call it has sent.
#[derive(Debug, Clone, Copy, PartialEq, Eq, Hash, Serialize, Deserialize)]
pub enum Abandon {
    /// right after the request was handed to the exchange
    AtOnce,
    /// half of the exchange's latency later
    MidLatency,
    /// layer 3: the ExecutionManager's request timeout (shorter than the exchange's latency) dropped the call
    ManagerTimeout,
}

fn env_ops() -> Vec<Op> {
    env_menu(true)
}

/// `extended` = with the ops appended in the second hardening round (indices of the others are unchanged, so a
/// case recorded with the base menu replays with the extended one)
fn env_menu(extended: bool) -> Vec<Op> {
    let m = |sell, price, qty, inst| Op::Open(Sym { sell, price, qty, inst, limit: false, tif: 0, fine: false });
    let mut v = vec![
        m(false, 10, 1, 0), // buy BTCUSDT
        m(true, 10, 1, 0),  // sell BTCUSDT
        m(true, 1, 3, 2),   // sell ETHBTC (base eth, quote btc)
        m(false, 1, 2, 2),  // buy ETHBTC
        m(false, 10, 3, 1), // buy ETHUSDT, large
        Op::Open(Sym { sell: false, price: 1, qty: 1, inst: 2, limit: true, tif: 0, fine: false }),
        Op::Open(Sym { sell: true, price: 1, qty: 1, inst: 3, limit: false, tif: 0, fine: false }),
        Op::TradesAll,
        Op::TradesSinceNow,
        Op::Balances,
        Op::Snapshot,
    ];
    // every open-order symbol again as a call the client abandons (appended: the indices above are stable)
    let opens: Vec<Sym> = v.iter().filter_map(|op| if let Op::Open(s) = op { Some(*s) } else { None }).collect();
    for how in [Abandon::AtOnce, Abandon::MidLatency] {
        v.extend(opens.iter().map(|s| Op::OpenDrop(*s, how)));
    }
    if extended {
        v.push(Op::TradesSinceFirst); // (appended: the indices above are stable)
    }
    v
}

/// `since` of `Op::TradesSinceFirst`: 1 ms after the exchange time of the first op (sent at `first_sent_ms`)
fn since_first(first_sent_ms: u64) -> DateTime<Utc> {
    t0() + TimeDelta::milliseconds((first_sent_ms + LATENCY_MS / 2 + 1) as i64)
}

enum Resp {
    Open(OpenResp),
    Trades(Vec<Trade<QuoteAsset, InstrumentNameExchange>>),
    Balances(Vec<AssetBalance<AssetNameExchange>>),
    Snapshot(UnindexedAccountSnapshot),
    Failed(String),
}

struct EnvExec {
    viols: Vec<Viol>,
    ops: Vec<(Op, u64)>,
    outcome_hash: u64,
    responses: u64,
    notifications: u64,
    /// open-order calls the client abandoned / of those the ones the ledger model says were accepted
    abandoned: u64,
    abandoned_accepted: u64,
}

fn env_execute(cfg: &Config, max_ops: usize, ch: &mut Chooser) -> EnvExec {
    env_execute_menu(cfg, max_ops, true, ch)
}

fn env_execute_menu(cfg: &Config, max_ops: usize, extended: bool, ch: &mut Chooser) -> EnvExec {
    let menu = env_menu(extended);
    let rt = paused_rt();
    let names: Vec<InstrumentNameExchange> =
        INSTRUMENTS.iter().map(|i| i.0).chain([UNKNOWN]).map(InstrumentNameExchange::new).collect();
    let clock_now = Arc::new(Mutex::new(t0()));
    let mut ops: Vec<(Op, u64)> = Vec::new(); // (op, virtual ms at which it was sent)
    let mut answers: Vec<Option<Resp>> = Vec::new();
    let mut events: Vec<UnindexedAccountEvent> = Vec::new();
    let mut task_died = false;

    rt.block_on(async {
        let (request_tx, request_rx) = mpsc::unbounded_channel();
        let (event_tx, event_rx) = broadcast::channel(256);
        let clock = {
            let c = clock_now.clone();
            move || *c.lock().unwrap()
        };
        let client = <MockExecution<_> as ExecutionClient>::new(MockExecutionClientConfig { mocked_exchange: EXCHANGE, clock, request_tx, event_rx });
        let mut stream = client.account_stream(&[], &[]).await.expect("account stream");
        let exchange = MockExchange::new(cfg.mock_config(LATENCY_MS), request_rx, event_tx, instruments());
        let handle = tokio::spawn(exchange.run());
        let mut pending: Vec<(usize, Pin<Box<dyn Future<Output = Resp> + '_>>)> = Vec::new();
        let mut now_ms = 0u64;

        // let the exchange task, its latency tasks and the client futures run until nothing moves
        macro_rules! settle {
            () => {{
                for _ in 0..3 {
                    for _ in 0..4 {
                        tokio::task::yield_now().await;
                    }
                    let mut i = 0;
                    while i < pending.len() {
                        match futures::poll!(pending[i].1.as_mut()) {
                            std::task::Poll::Ready(r) => {
                                let (k, _) = pending.remove(i);
                                answers[k] = Some(r);
                            }
                            std::task::Poll::Pending => i += 1,
                        }
                    }
                    while let std::task::Poll::Ready(Some(ev)) = futures::poll!(stream.next()) {
                        events.push(ev);
                    }
                }
            }};
        }

        while ops.len() < max_ops {
            let c = ch.choose(menu.len() + 1);
            if c == 0 {
                break;
            }
            let op = menu[c - 1];
            let k = ops.len();
            ops.push((op, now_ms));
            answers.push(None);
            *clock_now.lock().unwrap() = t0() + TimeDelta::milliseconds(now_ms as i64);
            let client = &client;
            let names = &names;
            let fut: Pin<Box<dyn Future<Output = Resp> + '_>> = match op {
                Op::Open(s) | Op::OpenDrop(s, _) => {
                    let r = request(&s, k);
                    Box::pin(async move {
                        let req = OrderEvent {
                            key: OrderKey { exchange: r.key.exchange, instrument: &names[s.inst as usize], strategy: r.key.strategy.clone(), cid: r.key.cid.clone() },
                            state: r.state.clone(),
                        };
                        Resp::Open(client.open_order(req).await)
                    })
                }
                Op::TradesAll => Box::pin(async move {
                    match client.fetch_trades(DateTime::<Utc>::MIN_UTC).await {
                        Ok(v) => Resp::Trades(v),
                        Err(e) => Resp::Failed(format!("{e:?}")),
                    }
                }),
                Op::TradesSinceNow => {
                    let since = t0() + TimeDelta::milliseconds((now_ms + LATENCY_MS / 2) as i64);
                    Box::pin(async move {
                        match client.fetch_trades(since).await {
                            Ok(v) => Resp::Trades(v),
                            Err(e) => Resp::Failed(format!("{e:?}")),
                        }
                    })
                }
                Op::TradesSinceFirst => {
                    let since = since_first(ops[0].1);
                    Box::pin(async move {
                        match client.fetch_trades(since).await {
                            Ok(v) => Resp::Trades(v),
                            Err(e) => Resp::Failed(format!("{e:?}")),
                        }
                    })
                }
                Op::Balances => Box::pin(async move {
                    match client.fetch_balances().await {
                        Ok(v) => Resp::Balances(v),
                        Err(e) => Resp::Failed(format!("{e:?}")),
                    }
                }),
                Op::Snapshot => Box::pin(async move {
                    match client.account_snapshot(&[], &[]).await {
                        Ok(v) => Resp::Snapshot(v),
                        Err(e) => Resp::Failed(format!("{e:?}")),
                    }
                }),
            };
            pending.push((k, fut));
            settle!();
            // environment: the client abandons this call. The future was polled (settle), so the request is with the
            // exchange; now - or half a latency later - it is dropped together with the response receiver.
            if let Op::OpenDrop(_, how) = op {
                if how == Abandon::MidLatency {
                    tokio::time::advance(Duration::from_millis(LATENCY_MS / 2)).await;
                    now_ms += LATENCY_MS / 2;
                    settle!();
                }
                pending.retain(|(i, _)| *i != k);
                answers[k] = None; // nothing is demanded about (or learnt from) the abandoned call's own response
            }
            // environment: next op at the same instant, or after the latency has passed
            if ch.choose(2) == 1 {
                tokio::time::advance(Duration::from_millis(LATENCY_MS)).await;
                now_ms += LATENCY_MS;
                settle!();
            }
        }
        // horizon: everything in flight lands
        for _ in 0..3 {
            tokio::time::advance(Duration::from_millis(LATENCY_MS)).await;
            settle!();
        }
        task_died = handle.is_finished();
        drop(pending);
    });

    env_judge(cfg, "MockExecution -> MockExchange::run", false, ops, answers, events, task_died, Vec::new())
}

/// The oracle of the asynchronous layers: `ops[k]` was sent at virtual ms `ops[k].1`, `answers[k]` is its response
/// (None = never answered), `events` are the announcements on the account stream. `unique_strategy`: how the
/// requests were built (see `request_u`). `viols` = what the driver already found.
#[allow(clippy::too_many_arguments)]
fn env_judge(cfg: &Config, via: &str, unique_strategy: bool, ops: Vec<(Op, u64)>, answers: Vec<Option<Resp>>, events: Vec<UnindexedAccountEvent>, task_died: bool, mut viols: Vec<Viol>) -> EnvExec {
    let fee = cfg.fee();
    let seq_txt = if ops.len() <= 12 { format!("config={} ops={ops:?}", cfg.label()) } else { format!("config={} ops=[scripted run of {} ops, see the replay]", cfg.label(), ops.len()) };
    if task_died {
        viols.push(("C08/env/exchange-task-ended".into(), format!("MockExchange::run ended (panicked?) while its client was alive; {seq_txt}")));
    }
    // announcements
    let mut ann_balances: Vec<&AssetBalance<AssetNameExchange>> = Vec::new();
    let mut ann_trades: Vec<&Trade<QuoteAsset, InstrumentNameExchange>> = Vec::new();
    for ev in &events {
        if ev.exchange != EXCHANGE {
            viols.push(("C08/env/notify/wrong-exchange".into(), format!("announcement carries exchange {:?}, the simulated exchange is {EXCHANGE:?}: {ev:?}; {seq_txt}", ev.exchange)));
        }
        match &ev.kind {
            AccountEventKind::BalanceSnapshot(Snapshot(b)) => ann_balances.push(b),
            AccountEventKind::Trade(t) => ann_trades.push(t),
            other => viols.push(("C08/env/unexpected-announcement".into(), format!("{other:?}; {seq_txt}"))),
        }
    }
    let mut used_b = vec![false; ann_balances.len()];
    let mut used_t = vec![false; ann_trades.len()];
    // trade announcements that carry the order id of an AWAITED order's answer belong to that order; an abandoned
    // call (which has no answer to take an id from) finds its announcement by content among the others
    let reserved_t: Vec<bool> = ann_trades
        .iter()
        .map(|t| ops.iter().zip(answers.iter()).any(|(op, a)| matches!((&op.0, a), (Op::Open(_), Some(Resp::Open(r))) if r.state.as_ref().map(|o| o.id == t.order_id).unwrap_or(false))))
        .collect();
    // accepted orders whose fill is in the exchange's history but whose ids the harness could not learn (abandoned
    // call without announcement - reported where it happens); tolerated as extra entries of later trade queries
    let mut unknown_fills = 0usize;
    // an abandoned call met an unknown ledger: which announcements are its own cannot be decided
    let mut skip_leftovers = false;
    let (mut abandoned, mut abandoned_accepted) = (0u64, 0u64);
    let initial: Ledger = ASSETS.iter().zip(cfg.balances.iter()).map(|(a, b)| (a.to_string(), (b.parse().unwrap(), b.parse().unwrap()))).collect();
    let mut ledger: Option<Ledger> = Some(initial);
    let mut issued = Issued::default();
    // fills of accepted orders so far (order id, exchange time of the fill, op)
    let mut fills: Vec<(String, DateTime<Utc>, usize)> = Vec::new();
    let mut responses = 0u64;
    for (k, (op, sent)) in ops.iter().enumerate() {
        if task_died && !matches!(&answers[k], Some(Resp::Open(_) | Resp::Trades(_) | Resp::Balances(_) | Resp::Snapshot(_))) {
            ledger = None; // consequence of the dead exchange task (reported once above)
            continue;
        }
        if let Op::OpenDrop(s, how) = op {
            // ---- the client abandoned this call: nothing is demanded about its response. The exchange's decision does
            // not depend on the client waiting, so the ledger model says whether the order was accepted; an accepted
            // order is still a fill: one balance and one trade announcement, fresh ids, ledger debited.
            abandoned += 1;
            let Some(before) = ledger.clone() else {
                unknown_fills += 1;
                skip_leftovers = true;
                continue;
            };
            let req = request_u(s, k, unique_strategy);
            let mut trades: Vec<&Trade<QuoteAsset, InstrumentNameExchange>> = Vec::new();
            let mut balances: Vec<&AssetBalance<AssetNameExchange>> = Vec::new();
            let expl: Vec<(bool, Ledger, &'static str)> = [false, true]
                .into_iter()
                .filter(|use_quote| !*use_quote || s.sell)
                // (a limit order the exchange chose to fill is recognised like a market order: by the fill that echoes it)
                .filter_map(|use_quote| spend_filled(s, fee, use_quote))
                .map(|sp| {
                    let (acc, after) = predict(&before, Some(sp));
                    (acc, after, sp.0)
                })
                .collect();
            if expl.iter().any(|e| e.0) {
                // the trade announcement that echoes this order (and every further one with the same order id)
                let first = (0..ann_trades.len()).find(|i| {
                    let t = ann_trades[*i];
                    !used_t[*i] && !reserved_t[*i] && t.instrument == req.key.instrument && t.strategy == req.key.strategy && t.side == req.state.side && t.price == req.state.price && t.quantity == req.state.quantity
                });
                if let Some(f) = first {
                    for i in 0..ann_trades.len() {
                        if !used_t[i] && !reserved_t[i] && ann_trades[i].order_id == ann_trades[f].order_id {
                            used_t[i] = true;
                            trades.push(ann_trades[i]);
                        }
                    }
                }
                // the balance announcement the statement predicts (balances only ever fall, so asset + new value name
                // one order); the one "the sell spent quote" predicts only when a fill of this order was announced
                // (without that evidence the value could as well be a later order's)
                // (likewise a limit order's balance announcement: only next to its fill - a rejected limit order owns none)
                let pick = expl.iter().enumerate().filter(|(x, e)| e.0 && ((*x == 0 && !s.limit) || !trades.is_empty())).find_map(|(_, (_, after, asset))| {
                    (0..ann_balances.len()).find(|i| {
                        let b = ann_balances[*i];
                        !used_b[*i] && b.asset.name().as_str() == *asset && (b.balance.total, b.balance.free) == after[*asset]
                    })
                });
                if let Some(i) = pick {
                    used_b[i] = true;
                    balances.push(ann_balances[i]);
                }
            }
            if let Some(t) = trades.first() {
                fills.push((t.order_id.0.to_string(), t.time_exchange, k));
            }
            let (v, next, accepted) = judge_abandoned(s, k, *how, &req, fee, &before, &balances, &trades, &mut issued);
            if accepted {
                abandoned_accepted += 1;
                if trades.is_empty() {
                    unknown_fills += 1;
                }
            }
            viols.extend(v.into_iter().map(|(sig, d)| (sig, format!("[via {via}] {d}; {seq_txt}"))));
            if next.is_none() {
                unknown_fills += 1;
                skip_leftovers = true;
            }
            ledger = next;
            continue;
        }
        let Some(ans) = &answers[k] else {
            viols.push((format!("C08/env/no-response/{}", op_tag(op)), format!("op #{k} {op:?} sent at t={sent}ms never got its oneshot response; {seq_txt}")));
            if matches!(op, Op::Open(_)) {
                ledger = None;
            }
            continue;
        };
        responses += 1;
        match (op, ans) {
            (_, Resp::Failed(e)) => viols.push((format!("C08/env/query-failed/{}", op_tag(op)), format!("op #{k} {op:?}: {e}; {seq_txt}"))),
            (Op::Open(s), Resp::Open(resp)) => {
                // the announcements of this order: trades carry the order id; balance announcements carry no
                // order id and the stream order across orders is not prescribed, so an announcement is paired
                // by content: the one the statement predicts, else the one the "sell spent quote" explanation
                // predicts, else any unused one (which is then diagnosed as wrong). Left-overs are reported below.
                let mut trades = Vec::new();
                let mut balances = Vec::new();
                if let Ok(open) = &resp.state {
                    for (i, t) in ann_trades.iter().enumerate() {
                        if !used_t[i] && t.order_id == open.id {
                            used_t[i] = true;
                            trades.push(*t);
                        }
                    }
                    let mut pick: Option<usize> = None;
                    if let Some(before) = &ledger {
                        for use_quote in [false, true] {
                            if let Some((asset, _)) = spend_filled(s, fee, use_quote) {
                                let (_, after) = predict(before, spend_filled(s, fee, use_quote));
                                pick = pick.or_else(|| {
                                    (0..ann_balances.len()).find(|i| {
                                        let b = ann_balances[*i];
                                        !used_b[*i] && b.asset.name().as_str() == asset && (b.balance.total, b.balance.free) == after[asset]
                                    })
                                });
                            }
                        }
                    }
                    let pick = pick.or_else(|| used_b.iter().position(|u| !u));
                    if let Some(i) = pick {
                        used_b[i] = true;
                        balances.push(ann_balances[i]);
                    }
                    // (a fill is known to later trade queries by the ORDER it belongs to - the statement wants order and trade
                    // ids fresh, not equal - and by the fill's own time where it was announced)
                    fills.push((open.id.0.to_string(), trades.first().map(|t| t.time_exchange).unwrap_or(open.time_exchange), k));
                }
                match &ledger {
                    Some(before) => {
                        let obs = Observed { resp, balances, trades, after: None };
                        let (v, next) = judge_open(s, k, &request_u(s, k, unique_strategy), fee, before, &obs, &mut issued, true);
                        viols.extend(v.into_iter().map(|(sig, d)| (sig, format!("[via {via}] {d}; {seq_txt}"))));
                        ledger = next;
                    }
                    None => {}
                }
            }
            (Op::TradesAll | Op::TradesSinceNow | Op::TradesSinceFirst, Resp::Trades(list)) => {
                let since = match op {
                    Op::TradesAll => DateTime::<Utc>::MIN_UTC,
                    Op::TradesSinceFirst => since_first(ops[0].1),
                    _ => t0() + TimeDelta::milliseconds((*sent + LATENCY_MS / 2) as i64),
                };
                // the listed fills, each named by the order it fills (`fills` holds order ids); a listing that repeats an
                // order or a trade id lists something twice
                let mut got: Vec<String> = list.iter().map(|t| t.order_id.0.to_string()).collect();
                got.sort();
                let mut got_trade_ids: Vec<String> = list.iter().map(|t| t.id.0.to_string()).collect();
                got_trade_ids.sort();
                let must: Vec<String> = fills.iter().filter(|f| f.1 > since).map(|f| f.0.clone()).collect();
                let may: Vec<String> = fills.iter().filter(|f| f.1 >= since).map(|f| f.0.clone()).collect();
                let dup = got.windows(2).any(|w| w[0] == w[1]) || got_trade_ids.windows(2).any(|w| w[0] == w[1]);
                let missing = must.iter().any(|m| !got.contains(m));
                let extra = got.iter().filter(|g| !may.contains(g)).count() > unknown_fills;
                if dup || missing || extra {
                    let what = if dup { "duplicate" } else if missing { "missing" } else { "extra" };
                    viols.push((format!("C08/env/trades-query/{what}"), format!("op #{k} {op:?} (since={since}) listed fills of orders {got:?} (trade ids {got_trade_ids:?}); accepted so far (order id, time, op)={fills:?}; {seq_txt}")));
                }
            }
            (Op::Balances, Resp::Balances(list)) => {
                if let Some(l) = &ledger {
                    let got = ledger_of(list);
                    if got != *l || list.len() != l.len() {
                        viols.push(("C08/env/balances-query/differs-from-ledger".into(), format!("op #{k}: got {got:?}, ledger {l:?}; {seq_txt}")));
                    }
                }
            }
            (Op::Snapshot, Resp::Snapshot(snap)) => {
                if let Some(l) = &ledger {
                    let got = ledger_of(&snap.balances);
                    if got != *l || snap.balances.len() != l.len() {
                        viols.push(("C08/env/snapshot-query/differs-from-ledger".into(), format!("op #{k}: got {got:?}, ledger {l:?}; {seq_txt}")));
                    }
                }
                for o in snap.instruments.iter().flat_map(|i| i.orders.iter()) {
                    if !fills.iter().any(|f| format!("cid-{}", f.2) == o.key.cid.0.as_str()) {
                        viols.push(("C08/snapshot/lists-order-never-accepted".into(), format!("op #{k}: snapshot lists {o:?}; {seq_txt}")));
                    }
                }
            }
            _ => viols.push(("C08/env/response-of-wrong-kind".into(), format!("op #{k} {op:?}; {seq_txt}"))),
        }
    }
    let left_b = used_b.iter().filter(|u| !**u).count();
    let left_t = used_t.iter().filter(|u| !**u).count();
    if left_b > 0 && !skip_leftovers {
        viols.push(("C08/env/notify/balance/more-than-one-per-accepted-order".into(), format!("{left_b} balance announcements beyond one per accepted order: {ann_balances:?}; {seq_txt}")));
    }
    if left_t > 0 && !skip_leftovers {
        viols.push(("C08/env/notify/trade/not-owned-by-an-accepted-order".into(), format!("{left_t} trade announcements that belong to no accepted order: {ann_trades:?}; {seq_txt}")));
    }
    let outcome_hash = hash_of(&(
        cfg.label(),
        answers.iter().map(|a| match a {
            Some(Resp::Open(r)) => format!("{:?}", r.state.as_ref().map(|o| o.id.clone()).map_err(|_| ())),
            Some(Resp::Trades(t)) => format!("T{}", t.len()),
            Some(Resp::Balances(b)) => format!("{:?}", ledger_of(b)),
            Some(Resp::Snapshot(s)) => format!("{:?}", ledger_of(&s.balances)),
            Some(Resp::Failed(_)) => "F".into(),
            None => "-".into(),
        }).collect::<Vec<_>>(),
        events.len(),
    ));
    EnvExec { viols, ops, outcome_hash, responses, notifications: events.len() as u64, abandoned, abandoned_accepted }
}

fn op_tag(op: &Op) -> &'static str {
    match op {
        Op::Open(_) | Op::OpenDrop(..) => "open",
        Op::TradesAll | Op::TradesSinceNow | Op::TradesSinceFirst => "trades",
        Op::Balances => "balances",
        Op::Snapshot => "snapshot",
    }
}

// ------------------------------------------------------------------------------------------------
// layer 2b: one LONG scripted run through MockExecution -> MockExchange::run (history-length dimension)
// ------------------------------------------------------------------------------------------------

/// The choice sequence of a scripted run of `n_opens` accepted market orders (cycling through the five
/// market symbols of `env_ops`, two of every three at the same instant as the previous one), a trade query for
/// the whole history after every 16th order, and the three queries at the end.
fn long_script(n_opens: usize) -> Vec<usize> {
    const TRADES_ALL: usize = 7;
    let mut choices = Vec::new();
    for i in 0..n_opens {
        choices.push(1 + i % 5); // menu index + 1 (0 = stop)
        choices.push(usize::from(i % 3 == 0)); // pacing
        if i % 16 == 15 {
            choices.push(1 + TRADES_ALL);
            choices.push(0);
        }
    }
    for q in [TRADES_ALL, 9, 10] {
        choices.push(1 + q);
        choices.push(1);
    }
    choices
}

fn long_config() -> Config {
    Config { balances: ["100000".into(), "100000".into(), "100000".into()], fee: "0.1".into(), latency_ms: None, same_cid: false }
}

// ------------------------------------------------------------------------------------------------
// layer 3: the builder path - ExecutionBuilder::add_mock -> build -> init: the MockExchange is configured
// from the IndexedInstruments by the builder, orders travel engine link -> ExecutionManager -> MockExecution
// -> MockExchange::run and come back indexed on the merged account channel
// ------------------------------------------------------------------------------------------------

#[derive(Clone)]
struct SharedClock(Arc<Mutex<DateTime<Utc>>>);
impl EngineClock for SharedClock {
    fn time(&self) -> DateTime<Utc> {
        *self.0.lock().unwrap()
    }
}

fn internal_name(name: &str) -> String {
    format!("{}_{}", EXCHANGE.as_str(), name.to_lowercase())
}

/// market orders on all three instruments, both sides, + one limit order (an unlisted instrument has no index)
fn builder_syms() -> Vec<Sym> {
    env_ops().into_iter().filter_map(|op| match op {
        Op::Open(s) if (s.inst as usize) < INSTRUMENTS.len() => Some(s),
        _ => None,
    }).collect()
}

fn builder_execute(cfg: &Config, max_ops: usize, ch: &mut Chooser) -> EnvExec {
    let menu = builder_syms();
    let rt = paused_rt();
    // Kraken is tracked but has no execution link and comes FIRST; it names the same assets, so the simulated
    // exchange's assets and instruments do not start at index 0
    let mut builder = IndexedInstruments::builder()
        .add_instrument(Instrument::spot(ExchangeId::Kraken, "kraken_eth_usdt", "ETH/USDT", Underlying::new("eth", "usdt"), None))
        .add_instrument(Instrument::spot(ExchangeId::Kraken, "kraken_btc_usdt", "XBT/USDT", Underlying::new("btc", "usdt"), None));
    for (name, base, quote) in INSTRUMENTS {
        builder = builder.add_instrument(Instrument::spot(EXCHANGE, internal_name(name), name, Underlying::new(base, quote), None));
    }
    // Okx is tracked too, has no execution link and comes LAST; it lists another market under a name the simulated
    // exchange also uses ("ETHBTC" there is btc/usdt): the simulated exchange must know its own instruments only
    builder = builder.add_instrument(Instrument::spot(ExchangeId::Okx, "okx_btc_usdt", "ETHBTC", Underlying::new("btc", "usdt"), None));
    let indexed = builder.build();
    let ex_index = indexed.find_exchange_index(EXCHANGE).expect("exchange index");
    let inst_index: Vec<InstrumentIndex> = INSTRUMENTS
        .iter()
        .map(|(name, ..)| indexed.find_instrument_index(EXCHANGE, &InstrumentNameInternal::new(internal_name(name))).expect("instrument index"))
        .collect();
    let clock = SharedClock(Arc::new(Mutex::new(t0())));
    let mut ops: Vec<(Op, u64)> = Vec::new();
    let mut collected: Vec<AccountStreamEvent> = Vec::new();
    let mut viols: Vec<Viol> = Vec::new();
    let mut mock_died = false;

    // a latency beyond the manager's request timeout: the manager abandons every open-order call (drops the
    // client future) before the exchange answers
    let latency = cfg.latency();
    let slow = latency > MANAGER_TIMEOUT_MS;

    rt.block_on(async {
        let start = tokio::time::Instant::now();
        let build = match ExecutionBuilder::new(&indexed).add_mock(cfg.mock_config(latency), clock.clone()) {
            Ok(b) => b.build(),
            Err(e) => {
                viols.push(("C08/builder/add-mock-failed".into(), format!("{e:?}")));
                return;
            }
        };
        let mut exec = match build.init().await {
            Ok(x) => x,
            Err(e) => {
                viols.push(("C08/builder/init-failed".into(), format!("{e:?}")));
                return;
            }
        };
        macro_rules! settle {
            () => {{
                for _ in 0..16 {
                    tokio::task::yield_now().await;
                    while let Ok(ev) = exec.account_channel.rx.rx.try_recv() {
                        collected.push(ev);
                    }
                }
            }};
        }
        // virtual time moves in steps of <= 500 ms (the manager's timeout and the exchange's latency fire in order)
        macro_rules! advance_by {
            ($ms:expr) => {{
                let mut left: u64 = $ms;
                while left > 0 {
                    let step = left.min(500);
                    tokio::time::advance(Duration::from_millis(step)).await;
                    settle!();
                    left -= step;
                }
            }};
        }
        settle!();
        while ops.len() < max_ops {
            let c = ch.choose(menu.len() + 1);
            if c == 0 {
                break;
            }
            let s = menu[c - 1];
            let k = ops.len();
            let now_ms = start.elapsed().as_millis() as u64;
            ops.push((Op::Open(s), now_ms));
            *clock.0.lock().unwrap() = t0() + TimeDelta::milliseconds(now_ms as i64);
            let r = request_u(&s, k, true);
            let indexed_request = OrderEvent {
                key: OrderKey { exchange: ex_index, instrument: inst_index[s.inst as usize], strategy: r.key.strategy, cid: r.key.cid },
                state: r.state,
            };
            match exec.execution_txs.find(&ex_index) {
                Ok(tx) => {
                    let _ = tx.send(ExecutionRequest::Open(indexed_request));
                }
                Err(e) => viols.push(("C08/builder/no-link-for-the-mocked-exchange".into(), format!("{e:?}"))),
            }
            settle!();
            // environment: next order at the same instant, or after the latency has passed; with a slow exchange
            // also: after the manager gave up on this order while the exchange's answer is still on its way
            match ch.choose(if slow { 3 } else { 2 }) {
                1 => advance_by!(latency),
                2 => advance_by!(MANAGER_TIMEOUT_MS),
                _ => {}
            }
        }
        // horizon: everything in flight lands
        for _ in 0..3 {
            advance_by!(latency);
        }
        mock_died = exec.handles.mock_exchanges.iter().any(|h| h.is_finished());
    });

    // ---- translate the indexed events back to exchange names (tables of IndexedInstruments itself)
    let seq_txt = format!("config={} ops={ops:?}", cfg.label());
    let mut events: Vec<UnindexedAccountEvent> = Vec::new();
    let mut order_events: Vec<&Order<ExchangeIndex, InstrumentIndex, OrderState<AssetIndex, InstrumentIndex>>> = Vec::new();
    let mut snapshots = 0usize;
    let asset_name = |i: AssetIndex| indexed.find_asset(i).ok().filter(|a| a.exchange == EXCHANGE).map(|a| a.asset.name_exchange.clone());
    let inst_name = |i: InstrumentIndex| indexed.find_instrument(i).ok().filter(|x| x.exchange.value == EXCHANGE).map(|x| x.name_exchange.clone());
    for ev in &collected {
        let AccountStreamEvent::Item(AccountEvent { exchange, kind }) = ev else {
            viols.push(("C08/builder/account-stream-reconnecting".into(), format!("{ev:?}; {seq_txt}")));
            continue;
        };
        if *exchange != ex_index {
            viols.push(("C08/builder/event-for-another-exchange".into(), format!("account event carries {exchange:?}, the simulated exchange has {ex_index:?}: {kind:?}; {seq_txt}")));
        }
        match kind {
            AccountEventKind::Snapshot(snap) => {
                // R-queries: the first thing every manager reports is the account snapshot = the configured balances
                snapshots += 1;
                let got: Option<Ledger> = snap.balances.iter().map(|b| asset_name(b.asset).map(|n| (n.name().to_string(), (b.balance.total, b.balance.free)))).collect();
                let want: Ledger = ASSETS.iter().zip(cfg.balances.iter()).map(|(a, b)| (a.to_string(), (b.parse().unwrap(), b.parse().unwrap()))).collect();
                if got.as_ref() != Some(&want) || snap.balances.len() != want.len() || snapshots > 1 {
                    viols.push(("C08/builder/initial-snapshot/differs-from-configured-balances".into(), format!("snapshot #{snapshots} balances={:?} (by name: {got:?}), configured {want:?}; {seq_txt}", snap.balances)));
                }
            }
            AccountEventKind::BalanceSnapshot(Snapshot(b)) => match asset_name(b.asset) {
                Some(asset) => events.push(UnindexedAccountEvent {
                    exchange: EXCHANGE,
                    kind: AccountEventKind::BalanceSnapshot(Snapshot(AssetBalance { asset, balance: b.balance, time_exchange: b.time_exchange })),
                }),
                None => viols.push(("C08/builder/balance-of-an-asset-of-another-exchange".into(), format!("{b:?}; {seq_txt}"))),
            },
            AccountEventKind::Trade(t) => match inst_name(t.instrument) {
                Some(instrument) => events.push(UnindexedAccountEvent {
                    exchange: EXCHANGE,
                    kind: AccountEventKind::Trade(Trade {
                        id: t.id.clone(),
                        order_id: t.order_id.clone(),
                        instrument,
                        strategy: t.strategy.clone(),
                        time_exchange: t.time_exchange,
                        side: t.side,
                        price: t.price,
                        quantity: t.quantity,
                        fees: t.fees.clone(),
                    }),
                }),
                None => viols.push(("C08/builder/trade-on-an-instrument-of-another-exchange".into(), format!("{t:?}; {seq_txt}"))),
            },
            AccountEventKind::OrderSnapshot(Snapshot(o)) => order_events.push(o),
            other => viols.push(("C08/builder/unexpected-account-event".into(), format!("{other:?}; {seq_txt}"))),
        }
    }
    if snapshots == 0 && !viols.iter().any(|v| v.0.starts_with("C08/builder/add-mock") || v.0.starts_with("C08/builder/init")) {
        viols.push(("C08/builder/initial-snapshot/missing".into(), seq_txt.clone()));
    }
    // ---- the answer to order k = the order snapshot with its client order id
    let mut answers: Vec<Option<Resp>> = Vec::new();
    let mut gave_up: Vec<usize> = Vec::new();
    for (k, (op, _)) in ops.iter().enumerate() {
        let Op::Open(s) = op else { unreachable!() };
        let req = request_u(s, k, true);
        let mine: Vec<_> = order_events.iter().filter(|o| o.key.cid == req.key.cid).collect();
        if mine.len() > 1 {
            viols.push(("C08/builder/order-answered-more-than-once".into(), format!("order #{k}: {mine:?}; {seq_txt}")));
        }
        // slow exchange: the manager reports its own timeout (or nothing) - the call was abandoned; what the manager
        // says about it is not the simulated exchange's business and nothing is demanded about it
        if slow && mine.first().map(|o| matches!(&o.state, OrderState::Inactive(InactiveOrderState::OpenFailed(OrderError::Connectivity(ConnectivityError::Timeout))))).unwrap_or(true) {
            gave_up.push(k);
            answers.push(None);
            continue;
        }
        let Some(o) = mine.first() else {
            answers.push(None);
            continue;
        };
        // a fully filled order is reported without its exchange order id: the fill that echoes the order's
        // (per order unique) strategy supplies it
        let fill = events.iter().find_map(|e| match &e.kind {
            AccountEventKind::Trade(t) if t.strategy == req.key.strategy => Some(t),
            _ => None,
        });
        let state = match &o.state {
            OrderState::Active(ActiveOrderState::Open(open)) => Ok(open.clone()),
            OrderState::Inactive(InactiveOrderState::FullyFilled) => Ok(Open {
                id: fill.map(|t| t.order_id.clone()).unwrap_or_else(|| OrderId::new(format!("order-{k}-without-fill"))),
                time_exchange: fill.map(|t| t.time_exchange).unwrap_or_else(t0),
                filled_quantity: o.quantity,
            }),
            OrderState::Inactive(InactiveOrderState::OpenFailed(OrderError::Rejected(e))) => Err(UnindexedOrderError::Rejected(ApiError::OrderRejected(format!("{e:?}")))),
            other => {
                answers.push(Some(Resp::Failed(format!("order #{k} came back as {other:?}"))));
                continue;
            }
        };
        let key_ok = o.key.exchange == ex_index && o.key.instrument == inst_index[s.inst as usize];
        answers.push(Some(Resp::Open(Order {
            // (a wrong exchange / instrument index shows as a key that does not echo the order)
            key: OrderKey {
                exchange: EXCHANGE,
                instrument: if key_ok { req.key.instrument.clone() } else { InstrumentNameExchange::new(format!("{:?}/{:?}", o.key.exchange, o.key.instrument)) },
                strategy: o.key.strategy.clone(),
                cid: o.key.cid.clone(),
            },
            side: o.side,
            price: o.price,
            quantity: o.quantity,
            kind: o.kind,
            time_in_force: o.time_in_force,
            state,
        })));
    }
    for o in &order_events {
        if !(0..ops.len()).any(|k| o.key.cid.0.as_str() == format!("cid-{k}")) {
            viols.push(("C08/builder/answer-to-an-order-never-sent".into(), format!("{o:?}; {seq_txt}")));
        }
    }
    for k in gave_up {
        if let Op::Open(s) = ops[k].0 {
            ops[k].0 = Op::OpenDrop(s, Abandon::ManagerTimeout);
        }
    }
    env_judge(cfg, "ExecutionBuilder::add_mock -> ExecutionManager -> MockExecution -> MockExchange::run", true, ops, answers, events, mock_died, viols)
}

// ------------------------------------------------------------------------------------------------
// run / replay
// ------------------------------------------------------------------------------------------------

/// Panics raised inside the code under test (location in one of the barter crates) are caught and reported
/// as violations, so they are not printed; any other panic is a machinery failure and keeps the default report.
fn install_quiet_hook() {
    static ONCE: std::sync::Once = std::sync::Once::new();
    ONCE.call_once(|| {
        let default = std::panic::take_hook();
        std::panic::set_hook(Box::new(move |info| {
            let in_subject = info.location().map(|l| l.file().contains("/barter-execution/src/") || l.file().contains("/barter/src/")).unwrap_or(false);
            if !in_subject {
                default(info);
            }
        }));
    });
}

fn configs(menu: &[&str], fees: &[&str]) -> Vec<Config> {
    let mut v = Vec::new();
    for f in fees {
        for a in menu {
            for b in menu {
                for c in menu {
                    v.push(Config { balances: [a.to_string(), b.to_string(), c.to_string()], fee: f.to_string(), latency_ms: None, same_cid: false });
                }
            }
        }
    }
    v
}

pub fn run(ctx: &Ctx) -> Outcome {
    install_quiet_hook();
    let quick = ctx.tier == crate::core::Tier::Quick;
    // ---- layer 1
    // balances: 0 (nothing), 3 / 3.3 (exactly enough for q=3 at price 1 without / with the fee), 33 (exactly 10*3*1.1)
    // quick: 3-value menu, all sequences <= 3. thorough: the same menu to depth 4 + the configurations that
    // involve the fee-less boundary value 3 to depth 3.
    let menu: Vec<&str> = if quick { vec!["0", "3.3", "33"] } else { vec!["0", "3", "3.3", "33"] };
    let depth_of = |c: &Config| if quick || c.balances.iter().any(|b| b == "3") { 3usize } else { 4 };
    let depth = if quick { 3 } else { 4 };
    let cfgs = configs(&menu, &["0", "0.1"]);
    // the market orders with another time in force are explored to depth 3; deeper runs use the base alphabet
    let alpha = alphabet(&[1, 2, 3], true);
    let alpha_base = alphabet(&[1, 2, 3], false);
    let distinct = Distinct::default();
    // configurations in parallel (each seq::run is itself parallel over its prefixes)
    let per_cfg: Vec<(u64, u64, usize, u64, u64)> = cfgs
        .par_iter()
        .map(|cfg| {
            let mut sum = (0u64, 0u64, 0usize, 0u64, 0u64);
            let d = depth_of(cfg);
            let passes: Vec<(&Vec<Sym>, usize)> = if d > 3 { vec![(&alpha_base, d), (&alpha, 3)] } else { vec![(&alpha, d)] };
            for (a, d) in passes {
                let m = M::new(Some(ctx), cfg.clone(), a.clone());
                let st = seq::run(ctx, &m, &cfg.label(), d);
                for (sig, (_, suppressed)) in m.seen.lock().unwrap().iter() {
                    for _ in 0..*suppressed {
                        ctx.violations.bump(sig);
                    }
                }
                sum = (sum.0 + st.sequences, sum.1 + st.steps, sum.2 + st.distinct_final, sum.3 + m.accepted.load(Ordering::Relaxed), sum.4 + m.rejected.load(Ordering::Relaxed));
            }
            sum
        })
        .collect();
    let sequences: u64 = per_cfg.iter().map(|x| x.0).sum();
    let steps: u64 = per_cfg.iter().map(|x| x.1).sum();
    let distinct_total: usize = per_cfg.iter().map(|x| x.2).sum();
    let accepted: u64 = per_cfg.iter().map(|x| x.3).sum();
    let rejected: u64 = per_cfg.iter().map(|x| x.4).sum();
    eprintln!("C08 layer 1: configs={} alphabet={} depth={depth} sequences={sequences} steps={steps} accepted={accepted} rejected={rejected} elapsed={:.1}s", cfgs.len(), alpha.len(), ctx.start.elapsed().as_secs_f64());

    // ---- layer 1b: many-decimal prices, quantities and fee (0.075 %): "exactly that amount" to the last digit.
    // 0.00012336905745 = 10 x 0.00001234 x 3 x 0.333 x 1.00075: exactly enough for the largest buy
    // 0.00012336905744 = that minus 1e-14: NOT enough for it, by the last digit; 0.99974925 = 3 x 0.333 x 1.00075: exactly
    // enough for the largest sell, 0.99974924999999 = 1e-14 short of it
    let fine_menu = ["0.00012336905745", "0.00012336905744", "0.99974925", "0.99974924999999", "33"];
    let fine_cfgs = configs(&fine_menu, &["0.00075"]);
    let fine_alpha = fine_alphabet();
    let fine_depth = if quick { 2 } else { 3 };
    let per_fine: Vec<(u64, u64, usize, u64, u64)> = fine_cfgs
        .par_iter()
        .map(|cfg| {
            let m = M::new(Some(ctx), cfg.clone(), fine_alpha.clone());
            let st = seq::run(ctx, &m, &cfg.label(), fine_depth);
            for (sig, (_, suppressed)) in m.seen.lock().unwrap().iter() {
                for _ in 0..*suppressed {
                    ctx.violations.bump(sig);
                }
            }
            (st.sequences, st.steps, st.distinct_final, m.accepted.load(Ordering::Relaxed), m.rejected.load(Ordering::Relaxed))
        })
        .collect();
    let fine_sequences: u64 = per_fine.iter().map(|x| x.0).sum();
    let fine_distinct: usize = per_fine.iter().map(|x| x.2).sum();
    let fine_accepted: u64 = per_fine.iter().map(|x| x.3).sum();
    let fine_rejected: u64 = per_fine.iter().map(|x| x.4).sum();
    eprintln!("C08 layer 1b: configs={} alphabet={} depth={fine_depth} sequences={fine_sequences} accepted={fine_accepted} rejected={fine_rejected} elapsed={:.1}s", fine_cfgs.len(), fine_alpha.len(), ctx.start.elapsed().as_secs_f64());

    // ---- layer 1c: a client that re-uses its client order id (and strategy) for every order
    let cid_cfgs: Vec<Config> = [["3.3", "3.3", "33"], ["33", "33", "33"], ["0", "3.3", "33"]]
        .iter()
        .flat_map(|b| ["0", "0.1"].into_iter().map(move |f| Config { balances: [b[0].into(), b[1].into(), b[2].into()], fee: f.into(), latency_ms: None, same_cid: true }))
        .collect();
    let cid_depth = 3usize;
    let per_cid: Vec<(u64, u64, usize, u64, u64)> = cid_cfgs
        .par_iter()
        .map(|cfg| {
            let m = M::new(Some(ctx), cfg.clone(), alpha_base.clone());
            let st = seq::run(ctx, &m, &cfg.label(), cid_depth);
            for (sig, (_, suppressed)) in m.seen.lock().unwrap().iter() {
                for _ in 0..*suppressed {
                    ctx.violations.bump(sig);
                }
            }
            (st.sequences, st.steps, st.distinct_final, m.accepted.load(Ordering::Relaxed), m.rejected.load(Ordering::Relaxed))
        })
        .collect();
    let cid_sequences: u64 = per_cid.iter().map(|x| x.0).sum();
    let cid_distinct: usize = per_cid.iter().map(|x| x.2).sum();
    let cid_accepted: u64 = per_cid.iter().map(|x| x.3).sum();
    let cid_rejected: u64 = per_cid.iter().map(|x| x.4).sum();
    eprintln!("C08 layer 1c: configs={} alphabet={} depth={cid_depth} sequences={cid_sequences} accepted={cid_accepted} rejected={cid_rejected} elapsed={:.1}s", cid_cfgs.len(), alpha_base.len(), ctx.start.elapsed().as_secs_f64());

    // ---- layer 2
    let env_cfgs = vec![
        Config { balances: ["3.3".into(), "3.3".into(), "33".into()], fee: "0.1".into(), latency_ms: None, same_cid: false },
        Config { balances: ["5".into(), "0".into(), "25".into()], fee: "0".into(), latency_ms: None, same_cid: false },
        Config { balances: ["0".into(), "3".into(), "11".into()], fee: "0.1".into(), latency_ms: None, same_cid: false },
    ];
    let env_depth = if quick { 3 } else { 4 };
    let env_exec = AtomicU64::new(0);
    let env_resp = AtomicU64::new(0);
    let env_notes = AtomicU64::new(0);
    let env_abandoned = AtomicU64::new(0);
    let env_abandoned_acc = AtomicU64::new(0);
    let samples: Mutex<BTreeMap<u64, Value>> = Mutex::new(BTreeMap::new());
    let mut env_points = 0u64;
    // quick: the extended menu to depth 3; thorough: the base menu to depth 4 + the extended menu to depth 3
    let env_passes: Vec<(bool, usize)> = if quick { vec![(true, 3)] } else { vec![(false, 4), (true, 3)] };
    for (cfg, (extended, env_depth)) in env_cfgs.iter().flat_map(|c| env_passes.iter().map(move |p| (c, *p))) {
        let stats = choice::explore(None, |ch| {
            let ex = env_execute_menu(cfg, env_depth, extended, ch);
            env_exec.fetch_add(1, Ordering::Relaxed);
            env_resp.fetch_add(ex.responses, Ordering::Relaxed);
            env_notes.fetch_add(ex.notifications, Ordering::Relaxed);
            env_abandoned.fetch_add(ex.abandoned, Ordering::Relaxed);
            env_abandoned_acc.fetch_add(ex.abandoned_accepted, Ordering::Relaxed);
            distinct.add_hash(ex.outcome_hash);
            let choices = ch.choices();
            if ex.ops.len() == env_depth && ex.notifications >= 4 {
                // deterministic sample: the few executions with the smallest case hash
                let h = hash_of(&(cfg.label(), choices.clone()));
                let mut g = samples.lock().unwrap();
                if g.len() < 3 || h < *g.keys().next_back().unwrap() {
                    g.insert(h, json!({"engine": "env", "config": cfg, "depth": env_depth, "choices": choices, "ops": ex.ops}));
                    if g.len() > 3 {
                        let last = *g.keys().next_back().unwrap();
                        g.remove(&last);
                    }
                }
            }
            for (sig, detail) in ex.viols {
                ctx.violate(sig, detail, json!({"engine": "env", "config": cfg, "depth": env_depth, "choices": choices, "ops_for_the_reader": format!("{:?}", ex.ops)}));
            }
        });
        env_points += stats.choice_points;
    }
    let env_execs = env_exec.load(Ordering::Relaxed);
    eprintln!(
        "C08 layer 2: configs={} menu={} depth={env_depth} executions={env_execs} abandoned_calls={} (accepted {}) elapsed={:.1}s",
        env_cfgs.len(), env_ops().len(), env_abandoned.load(Ordering::Relaxed), env_abandoned_acc.load(Ordering::Relaxed), ctx.start.elapsed().as_secs_f64()
    );

    // ---- layer 2b: one long scripted run (history length)
    let long_opens: usize = if quick { 150 } else { 600 };
    let script = long_script(long_opens);
    let long_cfg = long_config();
    let long_ops = script.len() / 2;
    let long_ex = env_execute(&long_cfg, long_ops, &mut Chooser::new(script.clone()));
    distinct.add_hash(long_ex.outcome_hash);
    let (long_responses, long_notes) = (long_ex.responses, long_ex.notifications);
    for (sig, detail) in long_ex.viols {
        ctx.violate(sig, detail, json!({"engine": "env", "config": long_cfg, "depth": long_ops, "choices": script, "ops_for_the_reader": format!("scripted run: {long_opens} accepted market orders, trade query after every 16th, three queries at the end")}));
    }
    eprintln!("C08 layer 2b: ops={long_ops} responses={long_responses} notifications={long_notes} elapsed={:.1}s", ctx.start.elapsed().as_secs_f64());

    // ---- layer 3: the builder path
    let b_cfgs = vec![
        Config { balances: ["3.3".into(), "3.3".into(), "33".into()], fee: "0.1".into(), latency_ms: None, same_cid: false },
        Config { balances: ["5".into(), "0".into(), "25".into()], fee: "0".into(), latency_ms: None, same_cid: false },
        // slow exchange: the manager's request timeout (1 s) drops every open-order call before the answer (1.5 s)
        Config { balances: ["3.3".into(), "3.3".into(), "33".into()], fee: "0.1".into(), latency_ms: Some(SLOW_LATENCY_MS), same_cid: false },
    ];
    let b_depth = if quick { 3 } else { 4 };
    let b_exec = AtomicU64::new(0);
    let b_resp = AtomicU64::new(0);
    let b_notes = AtomicU64::new(0);
    let b_abandoned = AtomicU64::new(0);
    let b_abandoned_acc = AtomicU64::new(0);
    let b_distinct = Distinct::default();
    let mut b_points = 0u64;
    for cfg in &b_cfgs {
        let stats = choice::explore(None, |ch| {
            let ex = builder_execute(cfg, b_depth, ch);
            b_exec.fetch_add(1, Ordering::Relaxed);
            b_resp.fetch_add(ex.responses, Ordering::Relaxed);
            b_notes.fetch_add(ex.notifications, Ordering::Relaxed);
            b_abandoned.fetch_add(ex.abandoned, Ordering::Relaxed);
            b_abandoned_acc.fetch_add(ex.abandoned_accepted, Ordering::Relaxed);
            b_distinct.add_hash(ex.outcome_hash);
            let choices = ch.choices();
            for (sig, detail) in ex.viols {
                ctx.violate(sig, detail, json!({"engine": "builder", "config": cfg, "depth": b_depth, "choices": choices, "ops_for_the_reader": format!("{:?}", ex.ops)}));
            }
        });
        b_points += stats.choice_points;
    }
    let b_execs = b_exec.load(Ordering::Relaxed);
    eprintln!(
        "C08 layer 3: configs={} depth={b_depth} executions={b_execs} calls_abandoned_by_the_manager={} (accepted {}) elapsed={:.1}s",
        b_cfgs.len(), b_abandoned.load(Ordering::Relaxed), b_abandoned_acc.load(Ordering::Relaxed), ctx.start.elapsed().as_secs_f64()
    );

    Outcome {
        level: "exploration",
        coverage: json!({
            "evaluations": sequences + fine_sequences + cid_sequences + env_execs + 1 + b_execs,
            "distinct_nontrivial": distinct_total + fine_distinct + cid_distinct + distinct.len() + b_distinct.len(),
            "exhaustive": true,
            "layer1_seq": {
                "configurations": cfgs.len(), "balance_menu": menu, "fees": ["0", "0.1"], "alphabet_size": alpha.len(), "alphabet_size_beyond_len_3": alpha_base.len(), "max_len": depth, "max_len_for_configurations_with_balance_3": 3,
                "sequences": sequences, "open_order_calls": steps, "accepted": accepted, "rejected": rejected, "distinct_final_ledgers": distinct_total,
            },
            "layer1b_many_decimals": {
                "configurations": fine_cfgs.len(), "balance_menu": fine_menu, "fee": "0.00075", "price_unit": "0.00001234", "quantity_unit": "0.333",
                "alphabet_size": fine_alpha.len(), "max_len": fine_depth, "sequences": fine_sequences, "accepted": fine_accepted, "rejected": fine_rejected, "distinct_final_ledgers": fine_distinct,
            },
            "layer1c_reused_client_order_id": {
                "configurations": cid_cfgs.len(), "alphabet_size": alpha_base.len(), "max_len": cid_depth, "sequences": cid_sequences, "accepted": cid_accepted, "rejected": cid_rejected, "distinct_final_ledgers": cid_distinct,
                "what": "every request of a sequence carries the same client order id and strategy",
            },
            "layer2_env": {
                "configurations": env_cfgs, "ops_menu": env_ops().len(), "ops_menu_at_max_ops_4": env_menu(false).len(), "max_ops": env_depth, "executions": env_execs, "choice_points": env_points,
                "oneshot_responses": env_resp.load(Ordering::Relaxed), "broadcast_notifications": env_notes.load(Ordering::Relaxed),
                "open_order_calls_abandoned_by_the_client": env_abandoned.load(Ordering::Relaxed), "of_those_accepted_by_the_ledger": env_abandoned_acc.load(Ordering::Relaxed),
                "abandonment": "every open-order symbol also as a call whose future is polled (request sent) and then dropped at once / half a latency later; the order must still be announced and reflected by the queries",
                "distinct_outcomes": distinct.len(),
            },
            "layer2b_long_run": {
                "configuration": long_cfg, "accepted_market_orders": long_opens, "ops": long_ops, "oneshot_responses": long_responses, "broadcast_notifications": long_notes,
                "what": "one scripted run: trade query for the whole history after every 16th order and at the end, balances + snapshot at the end; ids fresh over the whole run",
            },
            "layer3_builder_path": {
                "configurations": b_cfgs, "order_menu": builder_syms().len(), "max_orders": b_depth, "executions": b_execs, "choice_points": b_points,
                "order_answers": b_resp.load(Ordering::Relaxed), "notifications": b_notes.load(Ordering::Relaxed), "distinct_outcomes": b_distinct.len(),
                "open_order_calls_abandoned_by_the_manager": b_abandoned.load(Ordering::Relaxed), "of_those_accepted_by_the_ledger": b_abandoned_acc.load(Ordering::Relaxed),
                "slow_exchange": format!("one configuration with latency {SLOW_LATENCY_MS} ms > the manager's request timeout {MANAGER_TIMEOUT_MS} ms: every call is dropped by the manager before the answer; pacing same instant / after the timeout / after the latency"),
                "what": "IndexedInstruments [Kraken (tracked, no link) x2, BinanceSpot x3, Okx (tracked, no link; its one instrument is named like a BinanceSpot one)] -> ExecutionBuilder::add_mock -> build -> init; orders sent through the MultiExchangeTxMap, answers and announcements read (indexed) from the merged account channel and judged by the same ledger oracle",
            },
            "rule": "ledger model from the statement (buy spends quote p*q*(1+fee), sell spends base q*(1+fee); accept iff enough - a limit order may also be rejected although enough; exact debit; rejection without effect; fresh ids; fee percentage; one balance + one trade announcement; queries reflect accepted orders) checked after every step of every request sequence <= max_len for every balance/fee configuration on the real MockExchange::open_order/account_snapshot, on every op sequence x pacing x {call awaited, call abandoned at once, abandoned half a latency later} through MockExecution -> MockExchange::run (+ one long scripted run; an abandoned call's accepted order must still be announced once by a balance and a trade notification with fresh ids and be reflected by later queries), and on every order sequence x pacing through the builder path (ExecutionBuilder::add_mock -> ExecutionManager -> MockExecution -> MockExchange configured by the builder; one configuration with an exchange slower than the manager's request timeout, so that the manager abandons every call)",
            "samples": samples.lock().unwrap().values().cloned().collect::<Vec<_>>(),
        }),
        assumptions: vec![
            "amounts stay far inside Decimal's 28 significant digits (no rounding inside the arithmetic)".into(),
            "prices and quantities are positive; initial total == free (market orders only, as the code asserts)".into(),
            "every asset of every listed instrument has an initial balance entry (the code panics otherwise by design)".into(),
            "client order ids are unique, except in layer 1c where every order of a sequence carries the same client order id and strategy (the statement's rules hold for any sequence of orders: accepted iff enough, ids fresh)".into(),
            "orders for unlisted instruments are expected to be rejected without effect; a limit order on a listed instrument may be rejected without effect or accepted (filled at once at its limit price) under the full market-order rules - never accepted without enough balance, never half-applied (the statement speaks of market orders only)".into(),
            "the relative order of the balance and the trade announcement is not prescribed; a trade exactly at `since` may or may not be listed; a trade query names an absolute `since` (one of the queries puts it 1 ms after the first op's exchange time, i.e. inside the history)".into(),
            "asset names on the exchange are upper case, i.e. differ from the lower-case internal names the index derives from them; layer 3 has a third exchange (Okx, tracked, no link, after the simulated one) that lists another market under an instrument name the simulated exchange also uses".into(),
            "layer 2: requests are processed in the order they were sent (single client)".into(),
            "a market order is a market order whatever its time in force (IOC, FOK, GTC, GTD are all in the alphabet); the answer to an order repeats the order's key, side, price, quantity and kind (the time in force it reports is not compared)".into(),
            "an open-order call the client abandons AFTER its request reached the exchange is an order like any other: whether it is accepted is decided by the ledger (its answer is neither demanded nor used), and an accepted one is owed its one balance and one trade announcement; its announcements are recognised by content (trade: instrument, strategy, side, price, quantity, not carrying an awaited order's id; balance: the debited asset with its new value)".into(),
            "layer 3: every order of a sequence has its own strategy id (a fully filled order comes back without its exchange order id; its fill is found through the strategy it echoes)".into(),
        ],
    }
}

pub fn replay(ctx: &Ctx, case: &Value) {
    install_quiet_hook();
    match case["engine"].as_str() {
        Some("seq") => {
            let cfg: Config = serde_json::from_str(case["label"].as_str().expect("replay: label")).expect("replay: config");
            let m = M::new(None, cfg, alphabet(&[1, 2, 3], true));
            for (sig, detail) in seq::replay(&m, case) {
                ctx.violate(sig, detail, case.clone());
            }
        }
        Some("env") => {
            let cfg: Config = serde_json::from_value(case["config"].clone()).expect("replay: config");
            let depth = case["depth"].as_u64().expect("replay: depth") as usize;
            let choices: Vec<usize> = serde_json::from_value(case["choices"].clone()).expect("replay: choices");
            let mut ch = Chooser::new(choices);
            let ex = env_execute(&cfg, depth, &mut ch);
            println!("replay: ops (op, sent at ms) = {:?}; responses={} notifications={}", ex.ops, ex.responses, ex.notifications);
            for (sig, detail) in ex.viols {
                ctx.violate(sig, detail, case.clone());
            }
        }
        Some("builder") => {
            let cfg: Config = serde_json::from_value(case["config"].clone()).expect("replay: config");
            let depth = case["depth"].as_u64().expect("replay: depth") as usize;
            let choices: Vec<usize> = serde_json::from_value(case["choices"].clone()).expect("replay: choices");
            let ex = builder_execute(&cfg, depth, &mut Chooser::new(choices));
            println!("replay: orders (op, sent at ms) = {:?}; answers={} notifications={}", ex.ops, ex.responses, ex.notifications);
            for (sig, detail) in ex.viols {
                ctx.violate(sig, detail, case.clone());
            }
        }
        other => {
            eprintln!("MACHINERY: C08 replay: unknown engine {other:?}");
            std::process::exit(2);
        }
    }
}
