//! C10 — The audit stream is gap-free and sufficient to replicate engine state.
//!
//! Engine: E-SEQ over whole engine-event histories (every sequence of length <= d over the alphabet
//! below, every prefix being a history of its own), in several "worlds" (strategy that does / does not
//! issue orders, healthy / terminated / missing execution links, trading initially on / off, audit
//! sequence starting at 0 or mid-run). Every history is executed from scratch
//!
//!   * through the real `sync_run_with_audit` (feed = the real `UnboundedRx` used as `Iterator`),
//!   * through the real `async_run_with_audit` (feed = the real `UnboundedRx` used as `Stream`), polled
//!     manually on a paused current-thread tokio runtime under environment schedules (which events are
//!     already queued when the runner is polled, whether the feed closes together with the last batch),
//!   * by a *twin* engine stepped event by event with `process_with_audit` (gives the engine state after
//!     every record),
//!
//! each preceded by `audit_snapshot()` exactly as `SystemBuild::init_internal` does, with the real
//! `mpsc_unbounded` audit channel behind `ChannelTxDroppable` as the recorder. The recorded stream then
//! drives the real `StateReplicaManager`, one tick per `run()` call, and the derived fault streams
//! (drop / duplicate / swap a tick).
//!
//! Oracle (each rule names the sentence of the statement it comes from):
//!   S1 "exactly one audit record per processed input event, carrying that event": record i carries
//!      feed event i; no event is skipped or reported twice.
//!   S2 "strictly consecutive sequence numbers following the initial state snapshot": record i has
//!      sequence snapshot+i (i = 1..).
//!   S3 "the run's final record is the shutdown, feed-ended or fatal-error record": the last record is
//!      FeedEnded (and then every feed event has its record), or carries a Shutdown event, or carries
//!      errors; no earlier record is of that kind (the run would have had to end there).
//!   S4 (tie) the runner's records equal the twin's records and the runner's final engine state equals
//!      the twin's — this is what allows the twin's per-record states to stand for the runner's engine.
//!   R1 "a replica built from the snapshot by applying the audit records reproduces … exactly after
//!      every record": after every tick, replica.{trading, connectivity, assets} and per instrument
//!      {position, data, tear_sheet} equal the engine's; the in-order stream is never rejected.
//!   R2 "its orders equal the engine's orders once in-flight request markers are set aside": per
//!      instrument, orders projected to their exchange-confirmed open data (OpenInFlight and
//!      CancelInFlight{None} dropped, CancelInFlight{Some(o)} -> Open(o)) are equal.
//!   F1 "a stream with a missing or repeated record is rejected or skipped rather than applied": in a
//!      fault stream a tick may change the replica only if it directly follows the last applied tick;
//!      after every delivered tick the replica must equal the engine state of some admissible
//!      "applied so far" prefix (either unchanged, or advanced by exactly the next in-order tick).
//!      `Err` vs. silent skip is not distinguished (both are allowed).
//!
//! Layers and bounds (measured numbers go to the evidence file):
//!   1. exhaustive histories over the full alphabet (40 symbols) up to length 3 / 4 (quick / thorough),
//!      all async schedules up to length 2 / 3 and two canonical ones beyond; every fault stream of every
//!      history that is not extended further and of every history of length <= 2, for the others the
//!      faults at the last event record and the final record (earlier faults are prefixes of the
//!      extensions' fault streams);
//!   2. the same over the "core" alphabet (order / position life cycle, 18 symbols) up to length 4 / 5;
//!   3. joint-state BFS with de-duplication over (engine state, replica state, strategy memory), full
//!      alphabet, depth 4 / 6: every transition is the real `process_with_audit` plus the real replica
//!      `run()` on the record after a gap, the record, the record again (R1, R2, F1 only, no runners);
//!   4. system layer: every history of length <= 1 / 2 (full alphabet, every world) through the real
//!      `SystemBuild::new(engine, feed mode, AuditMode::Enabled, ..).init()` — the code that takes the
//!      snapshot, creates the audit channel and starts `sync_run_with_audit` (blocking thread) or
//!      `async_run_with_audit` (task) in a real system — in both feed modes, the run ended by closing
//!      the feed, by `System::shutdown()` and by `System::shutdown_after_backtest()`. The events go in
//!      through the system's own `feed_tx` while the runner is live (one FIFO, so the input order is
//!      the history; the sync runner meets an empty-but-open feed). The system's `SnapUpdates`
//!      (snapshot + drained updates) is checked by S1-S4 against the stepped twin and a replica
//!      built from it must end in the engine's final state (R1/R2 at the end of the stream).
//!   5. builder layer: the system layer's histories through the real `SystemBuilder::new(SystemArgs { .. })
//!      .engine_feed_mode(..).audit_mode(AuditMode::Enabled).trading_state(..).build()` followed by `init()` —
//!      the configuration path a user of the library takes (the builder makes engine state and engine itself:
//!      every exchange without execution link, audit sequence 0). A system configured with auditing enabled
//!      that hands out no audit stream is a violation of S1 (no record for any event).
//!   6. long-run layer: per world (quiet world 0; an active world whose sequence starts at 2^32-40) and
//!      pattern one deterministic history of 320 / 1000 events cycling through the alphabet: the whole
//!      history through everything layer 1 does (canonical async schedules) and the system layer, and every
//!      shorter length 1..L through both runners (S1-S4) — count-dependent loss / repetition / renumbering
//!      of records is out of reach of histories of length <= 5.
//!   self-tests: determinism (same history twice), negative control (a strategy that changes engine
//!      state inside `on_disconnect` must be reported) — failing either is exit 2, not a verdict.

use super::common::{EState, ScriptClock, ScriptRisk, ScriptTx, TxMode, spot, strategy_id, t_plus, t_plus_ms};
use crate::core::{Ctx, Distinct, Outcome, Samples};
use crate::explore::env::{flag_waker, paused_rt, poll_quiesce};
use barter::{
    EngineEvent, Sequence,
    engine::{
        Engine, EngineOutput, Processor,
        audit::{AuditTick, Auditor, EngineAudit, context::EngineContext, state_replica::StateReplicaManager},
        command::Command,
        execution_tx::MultiExchangeTxMap,
        process_with_audit,
        run::{async_run_with_audit, sync_run_with_audit},
        state::{
            EngineState,
            global::DefaultGlobalData,
            instrument::{data::{DefaultInstrumentMarketData, InstrumentDataState}, filter::InstrumentFilter},
            order::Orders,
            trading::TradingState,
        },
    },
    execution::{AccountStreamEvent, builder::ExecutionBuildFutures},
    shutdown::Shutdown,
    strategy::{
        algo::AlgoStrategy,
        close_positions::{ClosePositionsStrategy, close_open_positions_with_market_orders},
        on_disconnect::OnDisconnectStrategy,
        on_trading_disabled::OnTradingDisabled,
    },
    shutdown::SyncShutdown,
    system::{
        System,
        builder::{AuditMode, EngineFeedMode, SystemArgs, SystemBuild, SystemBuilder},
    },
};
use barter_data::{
    books::Level,
    event::{DataKind, MarketEvent},
    streams::consumer::MarketStreamEvent,
    subscription::{book::OrderBookL1, trade::PublicTrade},
};
use barter_execution::{
    AccountEvent, AccountEventKind, AccountSnapshot, InstrumentAccountSnapshot,
    balance::{AssetBalance, Balance},
    error::{ConnectivityError, OrderError},
    order::{
        Order, OrderKey, OrderKind, TimeInForce,
        id::{ClientOrderId, OrderId, StrategyId},
        request::{OrderRequestCancel, OrderRequestOpen, OrderResponseCancel, RequestCancel, RequestOpen},
        state::{ActiveOrderState, Cancelled, Open, OrderState},
    },
    trade::{AssetFees, Trade, TradeId},
};
use barter_instrument::{
    Side,
    asset::AssetIndex,
    exchange::{ExchangeId, ExchangeIndex},
    index::IndexedInstruments,
    instrument::InstrumentIndex,
};
use barter_integration::{
    FeedEnded,
    channel::{Channel, ChannelTxDroppable, Tx, mpsc_unbounded},
    collection::one_or_many::OneOrMany,
    snapshot::Snapshot,
};
use rayon::prelude::*;
use rust_decimal::Decimal;
use rust_decimal_macros::dec;
use serde::{Deserialize, Serialize};
use serde_json::{Value, json};
use std::{
    cell::Cell,
    collections::{BTreeMap, HashMap, HashSet},
    hash::Hasher,
    panic::{AssertUnwindSafe, catch_unwind},
    sync::atomic::{AtomicU64, Ordering},
    task::Poll,
};

type Event = EngineEvent<DataKind>;
type Audit = EngineAudit<Event, EngineOutput<u32, ExchangeId>>;
type Tick = AuditTick<Audit, EngineContext>;
type SnapTick = AuditTick<EState, EngineContext>;
type Eng = Engine<ScriptClock, EState, MultiExchangeTxMap<ScriptTx>, Strat, ScriptRisk>;
/// the engine type `SystemBuilder::build` produces (real `UnboundedTx` execution links)
type EngB = Engine<ScriptClock, EState, MultiExchangeTxMap, Strat, ScriptRisk>;
type Mkt = MarketStreamEvent<InstrumentIndex, DataKind>;
type Replica = StateReplicaManager<EState, std::vec::IntoIter<Tick>>;
type Viol = (String, String);

// ------------------------------------------------------------------------------------------------
// Strategy seam (own type: the algo output must be a deterministic function of the engine state so
// that the runner engines and the twin behave identically without the explorer reaching inside).
// ------------------------------------------------------------------------------------------------

#[derive(Debug, Clone, Copy, PartialEq, Eq, Serialize, Deserialize)]
pub enum StratKind {
    /// never issues orders (orders then come from `Command`s)
    Quiet,
    /// issues order A / B once the instrument has a price and cancels it when the price moves away
    Active,
    /// NEGATIVE CONTROL only: disables trading inside `on_disconnect` — a state change no audit
    /// record carries, so the replica must be reported as diverging
    Sabotage,
}

/// Static fields of the two orders of the alphabet (A: exchange 0, B: exchange 1).
#[derive(Debug, Clone, Copy)]
struct Tpl {
    cid: &'static str,
    exchange: ExchangeIndex,
    instrument: InstrumentIndex,
    side: Side,
    price: Decimal,
    quantity: Decimal,
}

impl Tpl {
    fn key(&self) -> OrderKey {
        OrderKey {
            exchange: self.exchange,
            instrument: self.instrument,
            strategy: strategy_id(),
            cid: ClientOrderId::new(self.cid),
        }
    }
    fn request_open(&self) -> OrderRequestOpen {
        OrderRequestOpen {
            key: self.key(),
            state: RequestOpen {
                side: self.side,
                price: self.price,
                quantity: self.quantity,
                kind: OrderKind::Limit,
                time_in_force: TimeInForce::GoodUntilCancelled { post_only: false },
            },
        }
    }
    fn request_cancel(&self) -> OrderRequestCancel {
        OrderRequestCancel { key: self.key(), state: RequestCancel { id: None } }
    }
    /// exchange report echoing the request's static fields (assumption, see `assumptions`)
    fn report(&self, state: OrderState) -> Order<ExchangeIndex, InstrumentIndex, OrderState> {
        Order {
            key: self.key(),
            side: self.side,
            price: self.price,
            quantity: self.quantity,
            kind: OrderKind::Limit,
            time_in_force: TimeInForce::GoodUntilCancelled { post_only: false },
            state,
        }
    }
    fn oid(&self) -> OrderId {
        OrderId::new(format!("oid-{}", self.cid))
    }
}

#[derive(Debug)]
pub struct Strat {
    kind: StratKind,
    id: StrategyId,
    tpl: [Tpl; 2],
    issued: [Cell<bool>; 2],
    close_n: Cell<u32>,
    disabled_calls: Cell<u32>,
}

impl AlgoStrategy for Strat {
    type State = EState;
    fn generate_algo_orders(
        &self,
        state: &EState,
    ) -> (
        impl IntoIterator<Item = OrderRequestCancel<ExchangeIndex, InstrumentIndex>>,
        impl IntoIterator<Item = OrderRequestOpen<ExchangeIndex, InstrumentIndex>>,
    ) {
        let mut cancels = Vec::new();
        let mut opens = Vec::new();
        if self.kind == StratKind::Active {
            for (i, t) in self.tpl.iter().enumerate() {
                let inst = state.instruments.instrument_index(&t.instrument);
                let price = inst.data.price();
                match inst.orders.0.get(&ClientOrderId::new(t.cid)) {
                    // client order ids are used once: only while the id is neither tracked nor used before
                    None if !self.issued[i].get() && price.is_some() => {
                        self.issued[i].set(true);
                        opens.push(t.request_open());
                    }
                    Some(order)
                        if matches!(order.state, ActiveOrderState::OpenInFlight(_) | ActiveOrderState::Open(_))
                            && price.is_some()
                            && price != Some(t.price) =>
                    {
                        if let Some(c) = order.to_request_cancel() {
                            cancels.push(c);
                        }
                    }
                    _ => {}
                }
            }
        }
        (cancels, opens)
    }
}

impl ClosePositionsStrategy for Strat {
    type State = EState;
    fn close_positions_requests<'a>(
        &'a self,
        state: &'a EState,
        filter: &'a InstrumentFilter<ExchangeIndex, AssetIndex, InstrumentIndex>,
    ) -> (
        impl IntoIterator<Item = OrderRequestCancel<ExchangeIndex, InstrumentIndex>> + 'a,
        impl IntoIterator<Item = OrderRequestOpen<ExchangeIndex, InstrumentIndex>> + 'a,
    )
    where
        ExchangeIndex: 'a,
        AssetIndex: 'a,
        InstrumentIndex: 'a,
    {
        // deterministic, never reused client order ids: close-<instrument>-<n>
        close_open_positions_with_market_orders(&self.id, state, filter, |s| {
            let n = self.close_n.get();
            self.close_n.set(n + 1);
            ClientOrderId::new(format!("close-{}-{}", s.key.index(), n))
        })
    }
}

impl<C, T, R> OnDisconnectStrategy<C, EState, T, R> for Strat {
    type OnDisconnect = ExchangeId;
    fn on_disconnect(engine: &mut Engine<C, EState, T, Self, R>, exchange: ExchangeId) -> ExchangeId {
        if engine.strategy.kind == StratKind::Sabotage {
            engine.state.trading = TradingState::Disabled;
        }
        exchange
    }
}

impl<C, S, T, R> OnTradingDisabled<C, S, T, R> for Strat {
    type OnTradingDisabled = u32;
    fn on_trading_disabled(engine: &mut Engine<C, S, T, Self, R>) -> u32 {
        let n = engine.strategy.disabled_calls.get() + 1;
        engine.strategy.disabled_calls.set(n);
        n
    }
}

// ------------------------------------------------------------------------------------------------
// Worlds
// ------------------------------------------------------------------------------------------------

#[derive(Debug, Clone, Serialize, Deserialize)]
pub struct WorldSpec {
    pub name: String,
    pub strat: StratKind,
    /// execution link of exchange 0 / 1 (None = tracked exchange without link)
    pub links: [Option<TxMode>; 2],
    pub trading_enabled: bool,
    /// value of the engine's audit sequence when the snapshot is taken
    pub seq0: u64,
    /// risk manager refuses every cancel request (they are then reported, not sent)
    #[serde(default)]
    pub risk_refuses_cancels: bool,
}

pub struct World {
    spec: WorldSpec,
    instruments: IndexedInstruments,
    state0: EState,
    ex: [ExchangeId; 2],
    /// i0 = btc_usdt on exchange 0, i1 = eth_usdt on exchange 0, i2 = btc_usdt on exchange 1
    inst: [InstrumentIndex; 3],
    usdt0: AssetIndex,
    btc1: AssetIndex,
    tpl: [Tpl; 2],
}

/// index (into `worlds()`) of the world used by the long-run layer next to world 0
const LONG_WORLD: usize = 7;

fn worlds() -> Vec<WorldSpec> {
    let h = Some(TxMode::Healthy);
    vec![
        WorldSpec { name: "quiet/links=ok,ok/trading=off/seq0=0".into(), strat: StratKind::Quiet, links: [h, h], trading_enabled: false, seq0: 0, risk_refuses_cancels: false },
        WorldSpec { name: "active/links=ok,ok/trading=on/seq0=0".into(), strat: StratKind::Active, links: [h, h], trading_enabled: true, seq0: 0, risk_refuses_cancels: false },
        WorldSpec { name: "quiet/links=ok,terminated/trading=off/seq0=7".into(), strat: StratKind::Quiet, links: [h, Some(TxMode::Closed)], trading_enabled: false, seq0: 7, risk_refuses_cancels: false },
        WorldSpec { name: "active/links=ok,none/trading=on/seq0=3".into(), strat: StratKind::Active, links: [h, None], trading_enabled: true, seq0: 3, risk_refuses_cancels: false },
        WorldSpec { name: "quiet/links=unhealthy,ok/trading=on/seq0=0".into(), strat: StratKind::Quiet, links: [Some(TxMode::Unhealthy), h], trading_enabled: true, seq0: 0, risk_refuses_cancels: false },
        // thorough tier only (appended so that world indices of replay artefacts stay stable)
        WorldSpec { name: "active/links=ok,ok/trading=on/risk-refuses-cancels/seq0=0".into(), strat: StratKind::Active, links: [h, h], trading_enabled: true, seq0: 0, risk_refuses_cancels: true },
        WorldSpec { name: "active/links=unhealthy,terminated/trading=on/seq0=1000000".into(), strat: StratKind::Active, links: [Some(TxMode::Unhealthy), Some(TxMode::Closed)], trading_enabled: true, seq0: 1_000_000, risk_refuses_cancels: false },
        // long-run layer only: the sequence numbers of a run of >= 41 events cross 2^32
        WorldSpec { name: "active/links=ok,ok/trading=on/seq0=2^32-40".into(), strat: StratKind::Active, links: [h, h], trading_enabled: true, seq0: (1u64 << 32) - 40, risk_refuses_cancels: false },
    ]
}

fn sabotage_world() -> WorldSpec {
    WorldSpec {
        name: "NEGATIVE-CONTROL sabotage/links=ok,ok/trading=on".into(),
        strat: StratKind::Sabotage,
        links: [Some(TxMode::Healthy), Some(TxMode::Healthy)],
        trading_enabled: true,
        seq0: 0,
        risk_refuses_cancels: false,
    }
}

impl World {
    pub fn new(spec: WorldSpec) -> Self {
        let ex = [ExchangeId::BinanceSpot, ExchangeId::Kraken];
        let instruments = IndexedInstruments::builder()
            .add_instrument(spot(ex[0], "binance_spot-btc_usdt", "BTCUSDT", "btc", "usdt"))
            .add_instrument(spot(ex[0], "binance_spot-eth_usdt", "ETHUSDT", "eth", "usdt"))
            .add_instrument(spot(ex[1], "kraken-btc_usdt", "XBT/USDT", "btc", "usdt"))
            .build();
        let find_inst = |name: &str| {
            instruments
                .instruments()
                .iter()
                .find(|k| k.value.name_internal.name().as_str() == name)
                .unwrap_or_else(|| panic!("C10 world: instrument {name} missing"))
                .key
        };
        let find_asset = |e: ExchangeId, name: &str| {
            instruments
                .assets()
                .iter()
                .find(|k| k.value.exchange == e && k.value.asset.name_internal.name().as_str() == name)
                .unwrap_or_else(|| panic!("C10 world: asset {name} missing"))
                .key
        };
        let inst = [find_inst("binance_spot-btc_usdt"), find_inst("binance_spot-eth_usdt"), find_inst("kraken-btc_usdt")];
        let ex_idx = |e: ExchangeId| {
            instruments.exchanges().iter().find(|k| k.value == e).expect("exchange").key
        };
        assert_eq!(ex_idx(ex[0]), ExchangeIndex(0));
        assert_eq!(ex_idx(ex[1]), ExchangeIndex(1));
        let tpl = [
            Tpl { cid: "A", exchange: ExchangeIndex(0), instrument: inst[0], side: Side::Buy, price: dec!(100), quantity: dec!(2) },
            Tpl { cid: "B", exchange: ExchangeIndex(1), instrument: inst[2], side: Side::Sell, price: dec!(100), quantity: dec!(1) },
        ];
        let state0 = EngineState::builder(&instruments, DefaultGlobalData, DefaultInstrumentMarketData::default)
            .time_engine_start(t_plus(0))
            .trading_state(if spec.trading_enabled { TradingState::Enabled } else { TradingState::Disabled })
            .build();
        let usdt0 = find_asset(ex[0], "usdt");
        let btc1 = find_asset(ex[1], "btc");
        Self { spec, instruments, state0, ex, inst, usdt0, btc1, tpl }
    }

    /// A fresh real engine closed with the scripted seams, audit sequence at `seq0`.
    fn engine(&self) -> Eng {
        self.engine_from(self.state0.clone(), [false, false], 0, self.spec.seq0)
    }

    fn strat(&self, issued: [bool; 2], close_n: u32) -> Strat {
        Strat {
            kind: self.spec.strat,
            id: strategy_id(),
            tpl: self.tpl,
            issued: [Cell::new(issued[0]), Cell::new(issued[1])],
            close_n: Cell::new(close_n),
            disabled_calls: Cell::new(0),
        }
    }

    fn risk(&self) -> ScriptRisk {
        ScriptRisk { refuse_opens: false, refuse_cancels: self.spec.risk_refuses_cancels }
    }

    /// A real engine rebuilt around a given engine state / strategy memory (joint-state BFS).
    fn engine_from(&self, state: EState, issued: [bool; 2], close_n: u32, seq: u64) -> Eng {
        let txs = MultiExchangeTxMap::from_iter(
            self.ex.iter().zip(self.spec.links.iter()).map(|(e, m)| (*e, m.map(ScriptTx::new))),
        );
        let mut engine = Engine::new(ScriptClock::default(), state, txs, self.strat(issued, close_n), self.risk());
        engine.meta.sequence = Sequence(seq);
        engine
    }

    /// The system the real `SystemBuilder` makes of this world: `SystemArgs` (the world's instruments, clock,
    /// strategy, risk manager, no execution configuration => every exchange tracked without link, an empty
    /// market stream) -> `.engine_feed_mode(..).audit_mode(Enabled).trading_state(..).build()`. The builder
    /// creates the engine state and the engine itself (`Engine::new` => audit sequence 0), so the world's
    /// `links` and `seq0` do not apply here.
    fn built_system(&self, mode: EngineFeedMode) -> SystemBuild<EngB, Event, futures::stream::Empty<Mkt>> {
        let args = SystemArgs::new(
            &self.instruments,
            vec![],
            ScriptClock::default(),
            self.strat([false, false], 0),
            self.risk(),
            futures::stream::empty::<Mkt>(),
            DefaultGlobalData,
            DefaultInstrumentMarketData::default,
        );
        let built = SystemBuilder::new(args)
            .engine_feed_mode(mode)
            .audit_mode(AuditMode::Enabled)
            .trading_state(if self.spec.trading_enabled { TradingState::Enabled } else { TradingState::Disabled })
            .build::<Event, DefaultInstrumentMarketData>();
        match built {
            Ok(b) => b,
            Err(e) => {
                eprintln!("MACHINERY: C10 builder layer: SystemBuilder::build failed without execution configuration: {e:?}");
                std::process::exit(2);
            }
        }
    }
}

/// What the layers need from an engine, whatever its execution-link type.
trait EngLike: Processor<Event, Audit = Audit> + Auditor<Audit, Snapshot = EState, Context = EngineContext> {
    fn st(&self) -> &EState;
}
impl<T> EngLike for Engine<ScriptClock, EState, MultiExchangeTxMap<T>, Strat, ScriptRisk>
where
    Self: Processor<Event, Audit = Audit> + Auditor<Audit, Snapshot = EState, Context = EngineContext>,
{
    fn st(&self) -> &EState {
        &self.state
    }
}

// ------------------------------------------------------------------------------------------------
// Alphabet
// ------------------------------------------------------------------------------------------------

/// Input symbols. `o` = order template (0 = A on exchange 0, 1 = B on exchange 1); `inst` indexes
/// `World::inst`; `ex` indexes `World::ex`.
#[derive(Debug, Clone, Copy, PartialEq, Eq, Hash, Serialize, Deserialize)]
pub enum Sym {
    /// public trade: `hi=false` => price 100 at t1, `hi=true` => price 110 at t2
    MktTrade { inst: u8, hi: bool },
    /// L1 book of i0, bid 99 / ask 101 (equal amounts => mid 100) at t3
    MktL1,
    MktReconnecting(u8),
    AcctReconnecting(u8),
    /// 0: usdt@ex0 1000 at t1, 1: usdt@ex0 900 at t2, 2: btc@ex1 5 at t1
    Balance(u8),
    /// order report Open: `late=false` => (t1, filled 0), `late=true` => (t1 + 500 ms, filled 1) — for B
    /// (quantity 1) the late report has nothing left to fill
    OrdOpen { o: u8, late: bool },
    /// terminal order report: 0 FullyFilled, 1 Cancelled(t3), 2 OpenFailed
    OrdDone { o: u8, how: u8 },
    CancelResp { o: u8, ok: bool },
    /// own trade (fill): Buy at 100/t1 or Sell at 110/t2, quantity 1 or 2, fee 0.1
    Fill { inst: u8, sell: bool, qty: u8 },
    /// full account snapshot of exchange 0: usdt 950 at t2; i0 orders [A Open t1 filled 1], i1 orders []
    AcctSnapshot,
    Trading(bool),
    /// Command::SendOpenRequests: 0 = A, 1 = B, 2 = [A, B]
    CmdOpen(u8),
    /// Command::SendCancelRequests for A / B
    CmdCancel(u8),
    /// Command::CancelOrders: 0 = no filter, 1 = exchange 1
    CmdCancelOrders(u8),
    CmdClosePositions,
    Shutdown,
}

impl Sym {
    /// abstract event kind used in signatures
    fn kind(&self) -> &'static str {
        match *self {
            Sym::MktTrade { .. } => "market-trade",
            Sym::MktL1 => "market-l1",
            Sym::MktReconnecting(_) => "market-reconnecting",
            Sym::AcctReconnecting(_) => "account-reconnecting",
            Sym::Balance(_) => "balance",
            Sym::OrdOpen { late: false, .. } => "order-open",
            Sym::OrdOpen { o: 0, late: true } => "order-open-partly-filled",
            Sym::OrdOpen { late: true, .. } => "order-open-nothing-left-to-fill",
            Sym::OrdDone { .. } => "order-finished",
            Sym::CancelResp { ok: true, .. } => "cancel-ok",
            Sym::CancelResp { ok: false, .. } => "cancel-err",
            Sym::Fill { .. } => "own-trade",
            Sym::AcctSnapshot => "account-snapshot",
            Sym::Trading(_) => "trading-state",
            Sym::CmdOpen(_) => "cmd-open",
            Sym::CmdCancel(_) => "cmd-cancel",
            Sym::CmdCancelOrders(_) => "cmd-cancel-orders",
            Sym::CmdClosePositions => "cmd-close-positions",
            Sym::Shutdown => "shutdown",
        }
    }
    /// could this symbol make order `o` tracked (used for the "client order ids are used once" filter)
    fn may_track(&self, o: u8) -> bool {
        match *self {
            Sym::OrdOpen { o: x, .. } => x == o,
            Sym::CmdOpen(x) => x == o || x == 2,
            Sym::AcctSnapshot => o == 0,
            _ => false,
        }
    }
}

#[derive(Debug, Clone, Copy, PartialEq, Eq)]
enum Level_ {
    Full,
    Core,
}

fn base_alphabet(level: Level_) -> Vec<Sym> {
    use Sym::*;
    match level {
        Level_::Full => vec![
            MktTrade { inst: 0, hi: false }, MktTrade { inst: 0, hi: true },
            MktTrade { inst: 2, hi: false }, MktTrade { inst: 2, hi: true },
            MktL1,
            MktReconnecting(0), MktReconnecting(1), AcctReconnecting(0), AcctReconnecting(1),
            Balance(0), Balance(1), Balance(2),
            OrdOpen { o: 0, late: false }, OrdOpen { o: 0, late: true },
            OrdOpen { o: 1, late: false }, OrdOpen { o: 1, late: true },
            OrdDone { o: 0, how: 0 }, OrdDone { o: 0, how: 1 }, OrdDone { o: 1, how: 0 }, OrdDone { o: 1, how: 2 },
            CancelResp { o: 0, ok: true }, CancelResp { o: 0, ok: false },
            CancelResp { o: 1, ok: true }, CancelResp { o: 1, ok: false },
            Fill { inst: 0, sell: false, qty: 1 }, Fill { inst: 0, sell: true, qty: 1 },
            Fill { inst: 0, sell: true, qty: 2 }, Fill { inst: 2, sell: false, qty: 1 },
            AcctSnapshot,
            Trading(true), Trading(false),
            CmdOpen(0), CmdOpen(1), CmdOpen(2),
            CmdCancel(0), CmdCancel(1),
            CmdCancelOrders(0), CmdCancelOrders(1),
            CmdClosePositions,
            Shutdown,
        ],
        // order / position life cycle only, for the deeper layer
        Level_::Core => vec![
            MktTrade { inst: 0, hi: false }, MktTrade { inst: 0, hi: true }, MktTrade { inst: 2, hi: true },
            AcctReconnecting(1),
            OrdOpen { o: 0, late: false }, OrdOpen { o: 0, late: true }, OrdOpen { o: 1, late: true },
            OrdDone { o: 0, how: 0 },
            CancelResp { o: 0, ok: true }, CancelResp { o: 0, ok: false }, CancelResp { o: 1, ok: false },
            Fill { inst: 0, sell: false, qty: 1 }, Fill { inst: 0, sell: true, qty: 1 }, Fill { inst: 0, sell: true, qty: 2 },
            CmdOpen(0), CmdOpen(1),
            CmdCancelOrders(0),
            CmdClosePositions,
        ],
    }
}

/// Symbols that may extend `hist`. Restrictions (all listed under `assumptions`):
/// * an open request for cid X is never issued after something that may have made X tracked (client
///   order ids are used once); in `Active` worlds the strategy is the only source of open requests;
/// * after `Shutdown` only one more (state-changing) event is appended — it must not be processed.
fn alphabet(w: &World, base: &[Sym], hist: &[Sym]) -> Vec<Sym> {
    if let Some(p) = hist.iter().position(|s| *s == Sym::Shutdown) {
        return if p + 1 == hist.len() {
            vec![Sym::MktTrade { inst: 0, hi: false }, Sym::Fill { inst: 0, sell: false, qty: 1 }]
        } else {
            vec![]
        };
    }
    let bits = [hist.iter().any(|h| h.may_track(0)), hist.iter().any(|h| h.may_track(1))];
    alphabet_bits(w, base, bits)
}

/// `alphabet` with the history abstracted to "something may have made A / B tracked already".
fn alphabet_bits(w: &World, base: &[Sym], may_track: [bool; 2]) -> Vec<Sym> {
    base.iter()
        .copied()
        .filter(|s| match *s {
            Sym::CmdOpen(x) => {
                if w.spec.strat == StratKind::Active {
                    return false;
                }
                let needs: &[usize] = match x {
                    0 => &[0],
                    1 => &[1],
                    _ => &[0, 1],
                };
                !needs.iter().any(|o| may_track[*o])
            }
            _ => true,
        })
        .collect()
}

impl World {
    fn event(&self, s: &Sym) -> Event {
        let acct = |ex: usize, kind: AccountEventKind<ExchangeIndex, AssetIndex, InstrumentIndex>| {
            EngineEvent::Account(AccountStreamEvent::Item(AccountEvent { exchange: ExchangeIndex(ex), kind }))
        };
        let ex_of_inst = |i: u8| if i == 2 { 1usize } else { 0usize };
        match *s {
            Sym::MktTrade { inst, hi } => {
                let (price, t) = if hi { (110.0, 2) } else { (100.0, 1) };
                EngineEvent::Market(MarketStreamEvent::Item(MarketEvent {
                    time_exchange: t_plus(t),
                    time_received: t_plus(t),
                    exchange: self.ex[ex_of_inst(inst)],
                    instrument: self.inst[inst as usize],
                    kind: DataKind::Trade(PublicTrade { id: format!("p{t}"), price, amount: 1.0, side: Side::Buy }),
                }))
            }
            Sym::MktL1 => EngineEvent::Market(MarketStreamEvent::Item(MarketEvent {
                time_exchange: t_plus(3),
                time_received: t_plus(3),
                exchange: self.ex[0],
                instrument: self.inst[0],
                kind: DataKind::OrderBookL1(OrderBookL1 {
                    last_update_time: t_plus(3),
                    best_bid: Some(Level { price: dec!(99), amount: dec!(1) }),
                    best_ask: Some(Level { price: dec!(101), amount: dec!(1) }),
                }),
            })),
            Sym::MktReconnecting(x) => EngineEvent::Market(MarketStreamEvent::Reconnecting(self.ex[x as usize])),
            Sym::AcctReconnecting(x) => EngineEvent::Account(AccountStreamEvent::Reconnecting(self.ex[x as usize])),
            Sym::Balance(b) => {
                let (ex, asset, total, t) = match b {
                    0 => (0, self.usdt0, dec!(1000), 1),
                    1 => (0, self.usdt0, dec!(900), 2),
                    _ => (1, self.btc1, dec!(5), 1),
                };
                acct(ex, AccountEventKind::BalanceSnapshot(Snapshot(AssetBalance {
                    asset,
                    balance: Balance { total, free: total },
                    time_exchange: t_plus(t),
                })))
            }
            Sym::OrdOpen { o, late } => {
                let t = &self.tpl[o as usize];
                // The late report is stamped half a second after the early one: the two fall into the same
                // second, so a guard that compares exchange times at a coarser resolution than the
                // timestamps carry sees a tie where there is an order (older / newer by a sub-second step).
                let (time, filled) = if late { (t_plus_ms(1500), dec!(1)) } else { (t_plus(1), dec!(0)) };
                let mut order = t.report(OrderState::active(Open { id: t.oid(), time_exchange: time, filled_quantity: filled }));
                // The early report of order A carries a price that differs from the requested one (a
                // venue may confirm an order at other terms than requested - price improvement, rounding
                // to the tick size): the statement quantifies over all account items.
                if o == 0 && !late {
                    order.price += dec!(1);
                }
                acct(o as usize, AccountEventKind::OrderSnapshot(Snapshot(order)))
            }
            Sym::OrdDone { o, how } => {
                let t = &self.tpl[o as usize];
                let state = match how {
                    0 => OrderState::fully_filled(),
                    1 => OrderState::inactive(Cancelled { id: t.oid(), time_exchange: t_plus(3) }),
                    _ => OrderState::inactive(OrderError::Connectivity(ConnectivityError::Timeout)),
                };
                acct(o as usize, AccountEventKind::OrderSnapshot(Snapshot(t.report(state))))
            }
            Sym::CancelResp { o, ok } => {
                let t = &self.tpl[o as usize];
                let state = if ok {
                    Ok(Cancelled { id: t.oid(), time_exchange: t_plus(3) })
                } else {
                    Err(OrderError::Connectivity(ConnectivityError::Timeout))
                };
                acct(o as usize, AccountEventKind::OrderCancelled(OrderResponseCancel { key: t.key(), state }))
            }
            Sym::Fill { inst, sell, qty } => {
                let (side, price, t) = if sell { (Side::Sell, dec!(110), 2) } else { (Side::Buy, dec!(100), 1) };
                acct(ex_of_inst(inst), AccountEventKind::Trade(Trade {
                    id: TradeId::new(format!("f{}{}{}", inst, sell as u8, qty)),
                    order_id: OrderId::new("oid-fill"),
                    instrument: self.inst[inst as usize],
                    strategy: strategy_id(),
                    time_exchange: t_plus(t),
                    side,
                    price,
                    quantity: Decimal::from(qty),
                    fees: AssetFees::quote_fees(dec!(0.1)),
                }))
            }
            Sym::AcctSnapshot => {
                let a = &self.tpl[0];
                acct(0, AccountEventKind::Snapshot(AccountSnapshot {
                    exchange: ExchangeIndex(0),
                    balances: vec![AssetBalance {
                        asset: self.usdt0,
                        balance: Balance { total: dec!(950), free: dec!(900) },
                        time_exchange: t_plus(2),
                    }],
                    instruments: vec![
                        InstrumentAccountSnapshot {
                            instrument: self.inst[0],
                            // same exchange time as `OrdOpen { o: 0, late: false }` but a different fill: the two
                            // reports tie on time_exchange (equal timestamps, different content)
                            orders: vec![a.report(OrderState::active(Open { id: a.oid(), time_exchange: t_plus(1), filled_quantity: dec!(1) }))],
                        },
                        InstrumentAccountSnapshot { instrument: self.inst[1], orders: vec![] },
                    ],
                }))
            }
            Sym::Trading(on) => EngineEvent::TradingStateUpdate(if on { TradingState::Enabled } else { TradingState::Disabled }),
            Sym::CmdOpen(x) => EngineEvent::Command(Command::SendOpenRequests(match x {
                0 => OneOrMany::One(self.tpl[0].request_open()),
                1 => OneOrMany::One(self.tpl[1].request_open()),
                _ => OneOrMany::Many(vec![self.tpl[0].request_open(), self.tpl[1].request_open()]),
            })),
            Sym::CmdCancel(o) => EngineEvent::Command(Command::SendCancelRequests(OneOrMany::One(self.tpl[o as usize].request_cancel()))),
            Sym::CmdCancelOrders(f) => EngineEvent::Command(Command::CancelOrders(if f == 0 {
                InstrumentFilter::None
            } else {
                InstrumentFilter::Exchanges(OneOrMany::One(ExchangeIndex(1)))
            })),
            Sym::CmdClosePositions => EngineEvent::Command(Command::ClosePositions(InstrumentFilter::None)),
            Sym::Shutdown => EngineEvent::shutdown(),
        }
    }
}

// ------------------------------------------------------------------------------------------------
// Observations
// ------------------------------------------------------------------------------------------------

/// S3's notion of a final record, written from the statement (not `Terminal::is_terminal`).
fn is_final_kind(t: &Tick) -> bool {
    match &t.event {
        EngineAudit::FeedEnded => true,
        EngineAudit::Process(p) => matches!(p.event, EngineEvent::Shutdown(_)) || !p.errors.is_empty(),
    }
}

fn final_kind_name(t: &Tick) -> &'static str {
    match &t.event {
        EngineAudit::FeedEnded => "feed-ended",
        EngineAudit::Process(p) if matches!(p.event, EngineEvent::Shutdown(_)) => "shutdown",
        EngineAudit::Process(p) if !p.errors.is_empty() => "fatal-error",
        EngineAudit::Process(_) => "ordinary",
    }
}

struct RunObs {
    snapshot: SnapTick,
    state_before: EState,
    ticks: Vec<Tick>,
    final_state: EState,
    /// runner finished (async: future completed) — false is reported as a violation
    completed: bool,
}

/// The twin: the same engine stepped with `process_with_audit`; `states[i]` = engine state after i
/// records (`states[0]` = snapshot state).
struct Twin {
    snapshot: SnapTick,
    ticks: Vec<Tick>,
    states: Vec<EState>,
}

fn run_twin(w: &World, events: &[Event]) -> Twin {
    run_twin_on(w.engine(), events)
}

fn run_twin_on<E: EngLike>(mut e: E, events: &[Event]) -> Twin {
    let snapshot = <E as Auditor<Audit>>::audit_snapshot(&mut e);
    let mut ticks = Vec::with_capacity(events.len() + 1);
    let mut states = Vec::with_capacity(events.len() + 2);
    states.push(e.st().clone());
    let mut ended = false;
    for ev in events {
        let t: Tick = process_with_audit(&mut e, ev.clone());
        let fin = is_final_kind(&t);
        ticks.push(t);
        states.push(e.st().clone());
        if fin {
            ended = true;
            break;
        }
    }
    if !ended {
        ticks.push(<E as Auditor<Audit>>::audit(&mut e, FeedEnded));
        states.push(e.st().clone());
    }
    Twin { snapshot, ticks, states }
}

fn drain(rx: &mut barter_integration::channel::UnboundedRx<Tick>) -> Vec<Tick> {
    let mut v = Vec::new();
    while let Ok(t) = rx.rx.try_recv() {
        v.push(t);
    }
    v
}

fn run_sync(w: &World, events: &[Event]) -> RunObs {
    let mut engine = w.engine();
    let state_before = engine.state.clone();
    let snapshot = <Eng as Auditor<Audit>>::audit_snapshot(&mut engine);
    let (feed_tx, mut feed_rx) = mpsc_unbounded::<Event>();
    for ev in events {
        feed_tx.tx.send(ev.clone()).expect("feed open");
    }
    drop(feed_tx); // the iterator feed ends when the channel is closed and drained
    let (audit_tx, mut audit_rx) = mpsc_unbounded::<Tick>();
    let mut audit_tx = ChannelTxDroppable::new(audit_tx);
    let _ret: Audit = sync_run_with_audit(&mut feed_rx, &mut engine, &mut audit_tx);
    drop(audit_tx);
    let ticks = drain(&mut audit_rx);
    RunObs { snapshot, state_before, ticks, final_state: engine.state.clone(), completed: true }
}

/// Environment schedule of the async runner: `gaps` bit i set = the runner is polled to quiescence
/// between event i and i+1 (otherwise both are queued before the next poll); `poll_first` = polled
/// once on the empty feed; `close_late` = the feed is closed only after a further quiescent poll.
#[derive(Debug, Clone, Copy, PartialEq, Eq, Serialize, Deserialize)]
pub struct Schedule {
    pub gaps: u32,
    pub poll_first: bool,
    pub close_late: bool,
}

thread_local! {
    // One paused current-thread runtime per worker: the runner spawns nothing and uses no timers, so
    // nothing survives from one execution to the next.
    static RT: tokio::runtime::Runtime = paused_rt();
}

fn run_async(w: &World, events: &[Event], sch: Schedule) -> RunObs {
    RT.with(|rt| {
        let _guard = rt.enter();
        let mut engine = w.engine();
        let state_before = engine.state.clone();
        let snapshot = <Eng as Auditor<Audit>>::audit_snapshot(&mut engine);
        let (feed_tx, mut feed_rx) = mpsc_unbounded::<Event>();
        let (audit_tx, mut audit_rx) = mpsc_unbounded::<Tick>();
        let mut audit_tx = ChannelTxDroppable::new(audit_tx);
        let (flag, waker) = flag_waker();
        let mut feed_tx = Some(feed_tx);
        let mut completed = false;
        {
            let fut = async_run_with_audit(&mut feed_rx, &mut engine, &mut audit_tx);
            let mut fut = std::pin::pin!(fut);
            let mut poll = |completed: &mut bool| {
                if !*completed {
                    if let Poll::Ready(_) = poll_quiesce(fut.as_mut(), &flag, &waker) {
                        *completed = true;
                    }
                }
            };
            if sch.poll_first {
                poll(&mut completed);
            }
            let n = events.len();
            for (i, ev) in events.iter().enumerate() {
                if completed {
                    break;
                }
                let _ = feed_tx.as_ref().unwrap().tx.send(ev.clone());
                let last = i + 1 == n;
                if last {
                    if !sch.close_late {
                        feed_tx = None;
                    }
                    poll(&mut completed);
                } else if sch.gaps & (1u32 << (i % 32)) != 0 {
                    poll(&mut completed);
                }
            }
            feed_tx = None;
            poll(&mut completed);
        }
        drop(feed_tx);
        drop(audit_tx);
        let ticks = drain(&mut audit_rx);
        RunObs { snapshot, state_before, ticks, final_state: engine.state.clone(), completed }
    })
}

fn all_schedules(n: usize) -> Vec<Schedule> {
    let gaps = if n >= 2 { 1u32 << (n - 1) } else { 1 };
    let mut v = Vec::new();
    for g in 0..gaps {
        for poll_first in [false, true] {
            for close_late in [false, true] {
                v.push(Schedule { gaps: g, poll_first, close_late });
            }
        }
    }
    v
}

fn canonical_schedules(n: usize) -> Vec<Schedule> {
    // (long histories: bit i % 32 stands for gap i, so all-ones = a poll after every event)
    let all = if n >= 33 { u32::MAX } else if n >= 2 { (1u32 << (n - 1)) - 1 } else { 0 };
    vec![
        Schedule { gaps: 0, poll_first: false, close_late: false }, // everything queued, feed closed, one poll
        Schedule { gaps: all, poll_first: true, close_late: true }, // one event per poll, close on its own
    ]
}

// ------------------------------------------------------------------------------------------------
// Oracle
// ------------------------------------------------------------------------------------------------

/// S1–S4 for one runner execution.
fn check_stream(runner: &str, obs: &RunObs, events: &[Event], hist: &[Sym], twin: &Twin, out: &mut Vec<Viol>) -> bool {
    let before = out.len();
    if !obs.completed {
        out.push((format!("C10/stream/{runner}/runner-did-not-finish"), "feed closed and drained but the runner future is still pending".into()));
    }
    // the snapshot is the engine state at the time it was taken
    if obs.snapshot.event != obs.state_before {
        out.push((format!("C10/snapshot/{runner}/state-differs-from-engine-state"), "audit_snapshot() does not carry the engine state".into()));
    }
    let s0 = obs.snapshot.context.sequence.value();
    let m = obs.ticks.len();
    if m == 0 {
        out.push((format!("C10/stream/{runner}/no-records"), format!("{} feed events, no audit record at all (not even a final one)", events.len())));
        return false;
    }
    for (i, t) in obs.ticks.iter().enumerate() {
        let want_seq = s0 + 1 + i as u64;
        let got_seq = t.context.sequence.value();
        // S2
        if got_seq != want_seq {
            let cause = if i == 0 {
                if got_seq <= s0 { "first-record-does-not-follow-snapshot/repeat" } else { "first-record-does-not-follow-snapshot/gap" }
            } else if got_seq <= obs.ticks[i - 1].context.sequence.value() {
                "repeat-or-backwards"
            } else {
                "gap"
            };
            out.push((
                format!("C10/stream/{runner}/sequence/{cause}"),
                format!("record #{} has sequence {got_seq}, expected {want_seq} (snapshot sequence {s0})", i + 1),
            ));
            break;
        }
    }
    for (i, t) in obs.ticks.iter().enumerate() {
        let last = i + 1 == m;
        match &t.event {
            EngineAudit::FeedEnded => {
                if !last {
                    out.push((format!("C10/stream/{runner}/final-kind-record-not-last/feed-ended"), format!("record #{} is FeedEnded but {} records follow", i + 1, m - i - 1)));
                    break;
                }
                // S1: every feed event must have had its record before the feed-ended record
                if i != events.len() {
                    out.push((
                        format!("C10/stream/{runner}/record-count/{}", if i < events.len() { "fewer-records-than-events" } else { "more-records-than-events" }),
                        format!("FeedEnded is record #{} but the feed had {} events", i + 1, events.len()),
                    ));
                    break;
                }
            }
            EngineAudit::Process(p) => {
                // S1: record i carries event i
                match events.get(i) {
                    None => {
                        out.push((format!("C10/stream/{runner}/record-count/more-records-than-events"), format!("record #{} but the feed had only {} events", i + 1, events.len())));
                        break;
                    }
                    Some(ev) if *ev != p.event => {
                        let cause = if i > 0 && events[i - 1] == p.event {
                            "event-reported-twice"
                        } else if events.get(i + 1) == Some(&p.event) {
                            "event-without-record"
                        } else {
                            "carries-other-event"
                        };
                        out.push((
                            format!("C10/stream/{runner}/record-event/{cause}"),
                            format!("record #{} carries {:?}, feed event #{} is {:?} ({})", i + 1, p.event, i + 1, ev, hist[i].kind()),
                        ));
                        break;
                    }
                    _ => {}
                }
                // S3
                if !last && is_final_kind(t) {
                    out.push((
                        format!("C10/stream/{runner}/final-kind-record-not-last/{}", final_kind_name(t)),
                        format!("record #{} is a {} record but {} records follow", i + 1, final_kind_name(t), m - i - 1),
                    ));
                    break;
                }
                if last && !is_final_kind(t) {
                    out.push((
                        format!("C10/stream/{runner}/final-record-not-final-kind"),
                        format!("last record #{} is an ordinary record of {:?}; the run ended without shutdown / feed-ended / fatal-error record", i + 1, hist[i]),
                    ));
                }
            }
        }
    }
    // S4: tie to the twin
    if out.len() == before {
        if obs.ticks.len() != twin.ticks.len() {
            out.push((
                format!("C10/stream/{runner}/differs-from-stepped-engine/record-count"),
                format!("runner emitted {} records, the engine stepped with process_with_audit {}", obs.ticks.len(), twin.ticks.len()),
            ));
        } else {
            for (i, (a, b)) in obs.ticks.iter().zip(twin.ticks.iter()).enumerate() {
                if a != b {
                    let field = match (&a.event, &b.event) {
                        _ if a.context != b.context => "context",
                        (EngineAudit::Process(x), EngineAudit::Process(y)) if x.event != y.event => "event",
                        (EngineAudit::Process(x), EngineAudit::Process(y)) if x.outputs != y.outputs => "outputs",
                        (EngineAudit::Process(x), EngineAudit::Process(y)) if x.errors != y.errors => "errors",
                        _ => "kind",
                    };
                    out.push((
                        format!("C10/stream/{runner}/differs-from-stepped-engine/{field}"),
                        format!("record #{}: runner {:?} vs stepped engine {:?}", i + 1, a, b),
                    ));
                    break;
                }
            }
        }
        if obs.snapshot != twin.snapshot {
            out.push((format!("C10/snapshot/{runner}/differs-from-stepped-engine"), "snapshot ticks differ".into()));
        }
    }
    if out.len() == before && obs.final_state != *twin.states.last().unwrap() {
        let d = compare_states(twin.states.last().unwrap(), &obs.final_state);
        out.push((
            format!("C10/stream/{runner}/final-engine-state-differs-from-stepped-engine"),
            format!("same records but different engine state after the run: {:?}", d.first()),
        ));
    }
    out.len() == before
}

fn order_label(o: Option<&Order<ExchangeIndex, InstrumentIndex, ActiveOrderState>>) -> &'static str {
    match o.map(|o| &o.state) {
        None => "untracked",
        Some(ActiveOrderState::OpenInFlight(_)) => "open-in-flight",
        Some(ActiveOrderState::Open(_)) => "open",
        Some(ActiveOrderState::CancelInFlight(c)) if c.order.is_some() => "cancel-in-flight-with-open-data",
        Some(ActiveOrderState::CancelInFlight(_)) => "cancel-in-flight-without-open-data",
    }
}

/// R2's projection: the exchange-confirmed open data of every order, in-flight markers set aside.
fn project(orders: &Orders) -> BTreeMap<String, Order<ExchangeIndex, InstrumentIndex, Open>> {
    let mut m = BTreeMap::new();
    for (cid, o) in orders.0.iter() {
        let open = match &o.state {
            ActiveOrderState::OpenInFlight(_) => None,
            ActiveOrderState::Open(open) => Some(open.clone()),
            ActiveOrderState::CancelInFlight(c) => c.order.clone(),
        };
        if let Some(open) = open {
            m.insert(
                cid.0.to_string(),
                Order {
                    key: o.key.clone(),
                    side: o.side,
                    price: o.price,
                    quantity: o.quantity,
                    kind: o.kind,
                    time_in_force: o.time_in_force,
                    state: open,
                },
            );
        }
    }
    m
}

/// R1 + R2: (field signature fragment, detail) for every difference between engine and replica.
/// Signature of an in-order replica divergence. A divergence that consists only of an order's static
/// terms (price, quantity, ...) gets one signature whatever record follows: it has a single cause - the
/// engine keeps the terms of its own request when the exchange confirms the order, the replica only ever
/// sees the exchange's report.
fn replica_sig(layer: &str, f: &str, after: &str) -> String {
    if f == "orders/static-fields-differ" {
        "C10/replica/orders/static-terms-differ-after-report-whose-terms-differ-from-the-request".to_string()
    } else {
        format!("C10/replica/{layer}/{f}/after={after}")
    }
}

fn compare_states(engine: &EState, replica: &EState) -> Vec<(String, String)> {
    let mut d = Vec::new();
    if engine.trading != replica.trading {
        d.push(("trading-state".to_string(), format!("engine {:?} replica {:?}", engine.trading, replica.trading)));
    }
    if engine.connectivity != replica.connectivity {
        d.push(("connectivity".to_string(), format!("engine {:?} replica {:?}", engine.connectivity, replica.connectivity)));
    }
    if engine.assets != replica.assets {
        d.push(("balances".to_string(), "asset states differ".to_string()));
    }
    for ((name, e), (_, r)) in engine.instruments.0.iter().zip(replica.instruments.0.iter()) {
        if e.position != r.position {
            d.push(("position".to_string(), format!("{name}: engine {:?} replica {:?}", e.position, r.position)));
        }
        if e.data != r.data {
            d.push(("market-data".to_string(), format!("{name}: engine {:?} replica {:?}", e.data, r.data)));
        }
        if e.tear_sheet != r.tear_sheet {
            d.push(("instrument-statistics".to_string(), format!("{name}: tear sheets differ")));
        }
        let (pe, pr) = (project(&e.orders), project(&r.orders));
        if pe != pr {
            let cids: std::collections::BTreeSet<&String> = pe.keys().chain(pr.keys()).collect();
            for cid in cids {
                if pe.get(cid) != pr.get(cid) {
                    let c = ClientOrderId::new(cid.as_str());
                    let (le, lr) = (order_label(e.orders.0.get(&c)), order_label(r.orders.0.get(&c)));
                    let what = match (pe.get(cid), pr.get(cid)) {
                        (Some(a), Some(b)) if a.state != b.state => "/open-data-differs",
                        (Some(_), Some(_)) => "/static-fields-differ",
                        _ => "",
                    };
                    d.push((
                        if what == "/static-fields-differ" { "orders/static-fields-differ".to_string() } else { format!("orders/engine={le}/replica={lr}{what}") },
                        format!("{name} order {cid}: engine {:?} replica {:?}", e.orders.0.get(&c).map(|o| &o.state), r.orders.0.get(&c).map(|o| &o.state)),
                    ));
                    break;
                }
            }
        }
    }
    d
}

fn states_match(engine: &EState, replica: &EState) -> bool {
    compare_states(engine, replica).is_empty()
}

/// Deliver one tick through the real `StateReplicaManager::run`.
fn replica_step(mgr: &mut Replica, tick: &Tick) -> Result<Result<(), String>, ()> {
    mgr.updates = vec![tick.clone()].into_iter();
    guarded(|| mgr.run::<u32, ExchangeId>())
}

#[derive(Default, Clone)]
struct Counters {
    histories: u64,
    sync_runs: u64,
    async_runs: u64,
    records_checked: u64,
    replica_steps: u64,
    fault_streams: u64,
    fault_steps: u64,
    fault_rejected: u64,
    fault_skipped: u64,
    with_in_flight_markers: u64,
    with_position_exit: u64,
    end_feed: u64,
    end_shutdown: u64,
    end_fatal: u64,
    algo_orders: u64,
    system_runs: u64,
    builder_runs: u64,
    long_histories: u64,
    long_prefix_lengths: u64,
    long_max_len: u64,
    /// nanoseconds per phase (twin, sync, async, bookkeeping+hash, replica, faults); only printed with C10_PROFILE=1
    ns: [u64; 6],
}

/// Which fault positions are derived from a recorded stream: every position, or only the last event
/// record and the final record (used for histories that are extended further by the exploration).
#[derive(Clone, Copy, PartialEq, Eq)]
enum FaultMode {
    All,
    Tail,
}

#[derive(Clone, Copy, PartialEq, Eq)]
enum SchedMode {
    All,
    Canonical,
}

/// Everything for one history in one world. Returns the violations (signature, detail, layer case).
fn check_history(w: &World, hist: &[Sym], sched: SchedMode, faults: FaultMode, c: &mut Counters, outcome_hash: &mut Option<u64>) -> Vec<(String, String, Value)> {
    let events: Vec<Event> = hist.iter().map(|s| w.event(s)).collect();
    let mut res: Vec<(String, String, Value)> = Vec::new();
    c.histories += 1;
    let twin = match guarded(|| run_twin(w, &events)) {
        Ok(t) => t,
        Err(()) => {
            res.push(("C10/stream/stepped-engine-panicked".into(), "process_with_audit panicked: no record for a fed event".into(), json!({"layer": "twin"})));
            if outcome_hash.is_some() {
                *outcome_hash = Some(0);
            }
            return res;
        }
    };

    let t0 = std::time::Instant::now();
    let mut lap = {
        let mut last = t0;
        move |c: &mut Counters, i: usize| {
            let now = std::time::Instant::now();
            c.ns[i] += (now - last).as_nanos() as u64;
            last = now;
        }
    };
    // --- runners ---
    let mut v = Vec::new();
    let sync = match guarded(|| run_sync(w, &events)) {
        Ok(o) => o,
        Err(_) => {
            res.push(("C10/stream/sync/runner-panicked".into(), "sync_run_with_audit panicked".into(), json!({"layer": "sync"})));
            return res;
        }
    };
    c.sync_runs += 1;
    lap(c, 1);
    c.records_checked += sync.ticks.len() as u64;
    let sync_ok = check_stream("sync", &sync, &events, hist, &twin, &mut v);
    for (s, d) in v.drain(..) {
        res.push((s, d, json!({"layer": "sync"})));
    }
    let schedules = match sched {
        SchedMode::All => all_schedules(events.len()),
        SchedMode::Canonical => canonical_schedules(events.len()),
    };
    for sch in schedules {
        let obs = match guarded(|| run_async(w, &events, sch)) {
            Ok(o) => o,
            Err(_) => {
                res.push(("C10/stream/async/runner-panicked".into(), "async_run_with_audit panicked".into(), json!({"layer": "async", "schedule": sch})));
                continue;
            }
        };
        c.async_runs += 1;
        c.records_checked += obs.ticks.len() as u64;
        check_stream("async", &obs, &events, hist, &twin, &mut v);
        for (s, d) in v.drain(..) {
            res.push((s, d, json!({"layer": "async", "schedule": sch})));
        }
    }

    lap(c, 2);
    // non-vacuity bookkeeping (from the twin)
    match twin.ticks.last().map(final_kind_name) {
        Some("feed-ended") => c.end_feed += 1,
        Some("shutdown") => c.end_shutdown += 1,
        Some("fatal-error") => c.end_fatal += 1,
        _ => {}
    }
    for t in &twin.ticks {
        if let EngineAudit::Process(p) = &t.event {
            for o in p.outputs.iter() {
                match o {
                    EngineOutput::PositionExit(_) => c.with_position_exit += 1,
                    EngineOutput::AlgoOrders(_) => c.algo_orders += 1,
                    _ => {}
                }
            }
        }
    }
    if outcome_hash.is_some() {
        let mut h = HashWriter(fnv::FnvHasher::default());
        use std::fmt::Write;
        let _ = write!(h, "{:?}|{:?}", twin.states.last().unwrap(), twin.ticks.last().map(|t| &t.context));
        *outcome_hash = Some(h.0.finish());
    }

    lap(c, 3);
    // --- replica on the recorded stream of the sync runner (== async == twin when sync_ok) ---
    if !sync_ok {
        return res;
    }
    let ticks = &sync.ticks;
    let states = &twin.states;
    let mut mgr: Replica = StateReplicaManager::new(sync.snapshot.clone(), Vec::new().into_iter());
    let mut mgrs: Vec<Replica> = Vec::with_capacity(ticks.len() + 1); // mgrs[i] = replica after i in-order ticks
    mgrs.push(mgr.clone());
    let mut in_order_ok = true;
    let mut markers = false;
    for (i, t) in ticks.iter().enumerate() {
        let after = hist.get(i).map(|s| s.kind()).unwrap_or("feed-ended");
        c.replica_steps += 1;
        match replica_step(&mut mgr, t) {
            Err(()) => {
                res.push((format!("C10/replica/in-order/panicked/after={after}"), format!("StateReplicaManager::run panicked on in-order record #{}", i + 1), json!({"layer": "replica"})));
                in_order_ok = false;
                break;
            }
            // An `Err` of a one-record `run()` call is a rejection of the RECORD only if the record was not applied
            // (the VERDICT is the state comparison; the replica's own "context of the last applied record" only
            // chooses between the signatures "rejected" and, below, "diverged"):
            // the statement is silent about a stream that simply stops after a record (an implementation may
            // complain about a stream that ends without a final record - the harness delivers one record per
            // call to see the state after every record). A record that leaves the state unchanged cannot be
            // judged here; a rejection of the in-order stream as a whole is judged below (`rejected/whole-stream`).
            Ok(Err(e)) if mgr.state_replica.context != t.context && !states_match(&states[i + 1], mgr.replica_engine_state()) => {
                res.push((format!("C10/replica/in-order/rejected/after={after}"), format!("in-order record #{} rejected and not applied: {e}", i + 1), json!({"layer": "replica"})));
                in_order_ok = false;
                break;
            }
            Ok(Err(_)) | Ok(Ok(())) => {}
        }
        let diffs = compare_states(&states[i + 1], mgr.replica_engine_state());
        if !diffs.is_empty() {
            for (f, d) in diffs {
                res.push((replica_sig("in-order", &f, &after.to_string()), format!("after record #{}: {d}", i + 1), json!({"layer": "replica"})));
            }
            in_order_ok = false;
            break;
        }
        if states[i + 1].instruments.0.values().zip(mgr.replica_engine_state().instruments.0.values()).any(|(e, r)| e.orders != r.orders) {
            markers = true;
        }
        mgrs.push(mgr.clone());
    }
    if markers {
        c.with_in_flight_markers += 1;
    }
    if !in_order_ok {
        return res;
    }
    // the whole stream in one `run()` call
    {
        // … fed by the real audit channel (`UnboundedRx` as `Iterator`), as `SnapUpdates` hands it out
        let (tx, rx) = mpsc_unbounded::<Tick>();
        for t in ticks {
            let _ = tx.tx.send(t.clone());
        }
        drop(tx);
        let mut whole = StateReplicaManager::new(sync.snapshot.clone(), rx);
        match guarded(|| whole.run::<u32, ExchangeId>()) {
            Ok(Ok(())) => {
                if !states_match(states.last().unwrap(), whole.replica_engine_state()) {
                    res.push(("C10/replica/in-order/whole-stream-run-differs-from-engine".into(), "run() over the whole stream ends in a different state".into(), json!({"layer": "replica"})));
                }
            }
            Ok(Err(e)) => res.push(("C10/replica/in-order/rejected/whole-stream".into(), format!("in-order stream rejected: {e}"), json!({"layer": "replica"}))),
            Err(_) => res.push(("C10/replica/in-order/panicked/whole-stream".into(), "run() panicked".into(), json!({"layer": "replica"}))),
        }
    }

    lap(c, 4);
    // --- F1: fault streams ---
    let m = ticks.len();
    for (kind, kmax) in [("drop", m.saturating_sub(1)), ("duplicate", m), ("swap", m.saturating_sub(1))] {
        // `Tail`: a fault stream with an earlier fault is, up to its final record, a prefix of a fault
        // stream of every one-symbol extension of this history, and is delivered there
        let kmin = match faults {
            FaultMode::All => 0,
            FaultMode::Tail => m.saturating_sub(2),
        };
        for k in kmin..kmax {
            // the stream is in order up to (excluding) tick k: start from the replica after k ticks
            let order: Vec<usize> = match kind {
                "drop" => (k + 1..m).collect(),
                "duplicate" => std::iter::once(k).chain(k..m).collect(),
                _ => [k + 1, k].into_iter().chain(k + 2..m).collect(),
            };
            c.fault_streams += 1;
            let mut r = mgrs[k].clone();
            let mut possible: Vec<usize> = vec![k]; // admissible numbers of applied ticks
            for j in order {
                c.fault_steps += 1;
                let result = replica_step(&mut r, &ticks[j]);
                // `mgrs[a]` is the replica after a in-order ticks, already shown equal (R1/R2) to the engine
                // state after a records; the replica is deterministic, so "unchanged" and "advanced by the
                // next in-order tick" can be decided by plain equality with those replica states.
                let rs = r.replica_engine_state();
                let mut next: Vec<usize> = Vec::new();
                for a in &possible {
                    if mgrs[*a].replica_engine_state() == rs && !next.contains(a) {
                        next.push(*a); // rejected or skipped
                    }
                    if *a == j && mgrs[j + 1].replica_engine_state() == rs && !next.contains(&(j + 1)) {
                        next.push(j + 1); // it was the next in-order tick: applying it is fine
                    }
                }
                match &result {
                    Ok(Err(_)) => c.fault_rejected += 1,
                    Ok(Ok(())) if !possible.contains(&j) => c.fault_skipped += 1,
                    _ => {}
                }
                if result.is_err() || next.is_empty() {
                    let after = hist.get(j).map(|s| s.kind()).unwrap_or("feed-ended");
                    let how = match &result {
                        Err(()) => "panicked",
                        Ok(Ok(())) => "applied-silently",
                        Ok(Err(_)) => "applied-then-rejected",
                    };
                    let relation = if possible.iter().all(|a| j < *a) { "already-applied-record" } else { "record-after-gap" };
                    res.push((
                        format!("C10/replica/fault={kind}/{relation}/{how}"),
                        format!(
                            "stream with tick #{} {kind}: delivering record #{} ({after}; in-order records applied so far: {:?}) changed the replica to a state that is neither unchanged nor the engine state after that record",
                            k + 1, j + 1, possible
                        ),
                        json!({"layer": "fault", "fault": kind, "k": k}),
                    ));
                    break;
                }
                possible = next;
            }
        }
    }
    lap(c, 5);
    res
}

thread_local! {
    static GUARDED: Cell<bool> = const { Cell::new(false) };
}

/// Run code under test; a panic inside is caught (and not printed) so that it can be reported as a
/// violation. Panics outside `guarded` (harness bugs) keep the default behaviour (exit 2).
fn guarded<T>(f: impl FnOnce() -> T) -> Result<T, ()> {
    static HOOK: std::sync::Once = std::sync::Once::new();
    HOOK.call_once(|| {
        let prev = std::panic::take_hook();
        std::panic::set_hook(Box::new(move |info| {
            if !GUARDED.with(|g| g.get()) {
                prev(info)
            }
        }));
    });
    let before = GUARDED.with(|g| g.replace(true));
    let r = catch_unwind(AssertUnwindSafe(f)).map_err(|_| ());
    GUARDED.with(|g| g.set(before));
    r
}

struct HashWriter(fnv::FnvHasher);
impl std::fmt::Write for HashWriter {
    fn write_str(&mut self, s: &str) -> std::fmt::Result {
        self.0.write(s.as_bytes());
        Ok(())
    }
}

// ------------------------------------------------------------------------------------------------
// Exploration
// ------------------------------------------------------------------------------------------------

struct Shared<'a> {
    ctx: &'a Ctx,
    counters: std::sync::Mutex<Counters>,
    distinct: Distinct,
    best: std::sync::Mutex<HashMap<String, usize>>,
    samples: Samples,
}

fn add(a: &mut Counters, b: &Counters) {
    a.histories += b.histories;
    a.sync_runs += b.sync_runs;
    a.async_runs += b.async_runs;
    a.records_checked += b.records_checked;
    a.replica_steps += b.replica_steps;
    a.fault_streams += b.fault_streams;
    a.fault_steps += b.fault_steps;
    a.fault_rejected += b.fault_rejected;
    a.fault_skipped += b.fault_skipped;
    a.with_in_flight_markers += b.with_in_flight_markers;
    a.with_position_exit += b.with_position_exit;
    a.end_feed += b.end_feed;
    a.end_shutdown += b.end_shutdown;
    a.end_fatal += b.end_fatal;
    a.algo_orders += b.algo_orders;
    a.system_runs += b.system_runs;
    a.builder_runs += b.builder_runs;
    a.long_histories += b.long_histories;
    a.long_prefix_lengths += b.long_prefix_lengths;
    a.long_max_len = a.long_max_len.max(b.long_max_len);
    for i in 0..a.ns.len() {
        a.ns[i] += b.ns[i];
    }
}

fn case_of(widx: usize, w: &World, hist: &[Sym], extra: &Value) -> Value {
    json!({"world": widx, "world_name": w.spec.name, "hist": hist, "where": extra})
}

fn report(sh: &Shared, widx: usize, w: &World, hist: &[Sym], viols: Vec<(String, String, Value)>) {
    for (sig, detail, extra) in viols {
        let mut best = sh.best.lock().unwrap();
        match best.get(&sig) {
            // equal length is passed on too: the collector keeps the (length, text)-smallest case, which
            // makes the retained counter-example independent of thread timing
            Some(l) if *l < hist.len() => {
                drop(best);
                sh.ctx.violations.bump(&sig);
            }
            _ => {
                best.insert(sig.clone(), hist.len());
                drop(best);
                sh.ctx.violate(sig, detail, case_of(widx, w, hist, &extra));
            }
        }
    }
}

#[allow(clippy::too_many_arguments)]
fn dfs(sh: &Shared, widx: usize, w: &World, base: &[Sym], hist: &mut Vec<Sym>, max_len: usize, all_sched_upto: usize, c: &mut Counters, local: &mut HashSet<u64>) {
    let sched = if hist.len() <= all_sched_upto { SchedMode::All } else { SchedMode::Canonical };
    let faults = if hist.len() <= 2 || hist.len() >= max_len { FaultMode::All } else { FaultMode::Tail };
    let mut oh = Some(0u64);
    let viols = check_history(w, hist, sched, faults, c, &mut oh);
    local.insert(oh.unwrap());
    if !viols.is_empty() {
        report(sh, widx, w, hist, viols);
    }
    if hist.len() >= max_len {
        return;
    }
    for s in alphabet(w, base, hist) {
        hist.push(s);
        dfs(sh, widx, w, base, hist, max_len, all_sched_upto, c, local);
        hist.pop();
    }
}

/// All histories of length <= max_len over `base` in world `widx`, parallel over 2-symbol prefixes.
fn explore(sh: &Shared, widx: usize, w: &World, base: &[Sym], max_len: usize, all_sched_upto: usize, skip_upto: usize) {
    // histories of length <= skip_upto were already covered by a layer with a superset alphabet
    let mut prefixes: Vec<Vec<Sym>> = vec![];
    let mut c = Counters::default();
    let mut local = HashSet::new();
    let top = |hist: &Vec<Sym>, c: &mut Counters, local: &mut HashSet<u64>| {
        if hist.len() > skip_upto {
            let mut oh = Some(0u64);
            let viols = check_history(w, hist, SchedMode::All, FaultMode::All, c, &mut oh);
            local.insert(oh.unwrap());
            report(sh, widx, w, hist, viols);
        }
    };
    top(&vec![], &mut c, &mut local);
    if max_len >= 1 {
        for s1 in alphabet(w, base, &[]) {
            let h1 = vec![s1];
            if max_len == 1 {
                top(&h1, &mut c, &mut local);
                continue;
            }
            top(&h1, &mut c, &mut local);
            for s2 in alphabet(w, base, &h1) {
                prefixes.push(vec![s1, s2]);
            }
        }
    }
    sh.distinct.merge_local(&local);
    add(&mut sh.counters.lock().unwrap(), &c);
    prefixes.into_par_iter().for_each(|mut h| {
        let mut c = Counters::default();
        let mut local = HashSet::new();
        if skip_upto >= max_len {
            return;
        }
        if skip_upto >= 2 {
            // only descend; nodes of length <= skip_upto are not re-checked
            dfs_skip(sh, widx, w, base, &mut h, max_len, all_sched_upto, skip_upto, &mut c, &mut local);
        } else {
            dfs(sh, widx, w, base, &mut h, max_len, all_sched_upto, &mut c, &mut local);
        }
        sh.distinct.merge_local(&local);
        add(&mut sh.counters.lock().unwrap(), &c);
    });
}

#[allow(clippy::too_many_arguments)]
fn dfs_skip(sh: &Shared, widx: usize, w: &World, base: &[Sym], hist: &mut Vec<Sym>, max_len: usize, all_sched_upto: usize, skip_upto: usize, c: &mut Counters, local: &mut HashSet<u64>) {
    if hist.len() > skip_upto {
        return dfs(sh, widx, w, base, hist, max_len, all_sched_upto, c, local);
    }
    if hist.len() >= max_len {
        return;
    }
    for s in alphabet(w, base, hist) {
        hist.push(s);
        dfs_skip(sh, widx, w, base, hist, max_len, all_sched_upto, skip_upto, c, local);
        hist.pop();
    }
}

// ------------------------------------------------------------------------------------------------
// System layer: the same histories through the real `SystemBuild::init` (the code that takes the
// snapshot, creates the audit channel and starts the runner in a real system)
// ------------------------------------------------------------------------------------------------

/// How the run is brought to its end.
#[derive(Debug, Clone, Copy, PartialEq, Eq, Serialize, Deserialize)]
pub enum SysEnd {
    /// every feed transmitter is dropped (=> feed-ended record)
    FeedClosed,
    /// the real `System::shutdown()` (sends `Shutdown`)
    Shutdown,
    /// the real `System::shutdown_after_backtest()` (market stream drained, then `Shutdown`)
    ShutdownAfterBacktest,
}

thread_local! {
    // Real-time current-thread runtime (the Iterator feed mode needs `spawn_blocking`). The clock is
    // only used as a hang guard (exit 2), never for a verdict.
    static SYS_RT: tokio::runtime::Runtime = tokio::runtime::Builder::new_current_thread().enable_time().build().expect("tokio runtime");
}

/// Where the `SystemBuild` comes from.
#[derive(Debug, Clone, Copy, PartialEq, Eq)]
pub enum Origin {
    /// `SystemBuild::new(<the world's scripted engine>, ..)`
    New,
    /// `SystemBuilder::new(SystemArgs { .. }).engine_feed_mode(..).audit_mode(Enabled).build()` — the
    /// builder makes the engine (see `World::built_system`)
    Builder,
}

fn feed_mode_name(o: Origin, m: &EngineFeedMode) -> &'static str {
    match (o, m) {
        (Origin::New, EngineFeedMode::Iterator) => "system-iterator",
        (Origin::New, EngineFeedMode::Stream) => "system-stream",
        (Origin::Builder, EngineFeedMode::Iterator) => "builder-iterator",
        (Origin::Builder, EngineFeedMode::Stream) => "builder-stream",
    }
}

/// One history through `<SystemBuild>.init()` with auditing enabled: the events are sent on the system's
/// own `feed_tx` (one FIFO => the engine's input order is the history), the run is ended as `end` says,
/// the engine is joined and the audit `SnapUpdates` drained.
/// `Err(text)` = no audit stream, or the engine task did not return an engine (it panicked).
fn run_system(w: &World, events: &[Event], mode: EngineFeedMode, end: SysEnd, origin: Origin) -> Result<RunObs, String> {
    SYS_RT.with(|rt| {
        rt.block_on(async {
            match origin {
                Origin::New => {
                    let build: SystemBuild<Eng, Event, futures::stream::Empty<Mkt>> = SystemBuild::new(
                        w.engine(),
                        mode,
                        AuditMode::Enabled,
                        futures::stream::empty::<Mkt>(),
                        Channel::new(),
                        ExecutionBuildFutures { mock_exchange_run_futures: vec![], execution_init_futures: vec![] },
                    );
                    drive_system(build, events, end).await
                }
                Origin::Builder => drive_system(w.built_system(mode), events, end).await,
            }
        })
    })
}

const NO_AUDIT: &str = "no audit stream";

async fn drive_system<E>(build: SystemBuild<E, Event, futures::stream::Empty<Mkt>>, events: &[Event], end: SysEnd) -> Result<RunObs, String>
where
    E: EngLike + SyncShutdown + Send + 'static,
{
    let state_before = build.engine.st().clone();
    let mut system: System<E, Event> = match build.init().await {
        Ok(s) => s,
        Err(e) => {
            eprintln!("MACHINERY: C10 system layer: SystemBuild::init failed without execution components: {e:?}");
            std::process::exit(2);
        }
    };
    let Some(audit) = system.take_audit() else {
        // nothing is left running: end the engine task before reporting
        let System { engine, handles, feed_tx, audit: _ } = system;
        drop(feed_tx);
        let _ = engine.await;
        handles.abort();
        return Err(format!("{NO_AUDIT}: AuditMode::Enabled but System::take_audit() is None"));
    };
    for ev in events {
        // a send fails only if the runner has already ended (history with Shutdown / fatal error)
        let _ = Tx::send(&system.feed_tx, ev.clone());
    }
    let joined = async {
        match end {
            SysEnd::FeedClosed => {
                let System { engine, handles, feed_tx, audit: _ } = system;
                drop(feed_tx);
                let r = engine.await;
                handles.abort();
                r.map_err(|e| format!("{e:?}"))
            }
            SysEnd::Shutdown => system.shutdown().await.map_err(|e| format!("{e:?}")),
            SysEnd::ShutdownAfterBacktest => system.shutdown_after_backtest().await.map_err(|e| format!("{e:?}")),
        }
    };
    let (engine, _ret) = match tokio::time::timeout(std::time::Duration::from_secs(600), joined).await {
        Ok(r) => r?,
        Err(_) => {
            eprintln!("MACHINERY: C10 system layer: engine task not finished 600 s after the feed was closed");
            std::process::exit(2);
        }
    };
    let mut rx = audit.updates;
    let ticks = drain(&mut rx);
    Ok(RunObs { snapshot: audit.snapshot, state_before, ticks, final_state: engine.st().clone(), completed: true })
}

/// System layer for one history: every feed mode x every admissible ending; S1-S4 (tie to the twin) plus
/// R1/R2 at the end of the stream for a replica built from the system's own snapshot + updates.
fn check_system(w: &World, hist: &[Sym], c: &mut Counters, origin: Origin) -> Vec<(String, String, Value)> {
    let mut res = Vec::new();
    let events: Vec<Event> = hist.iter().map(|s| w.event(s)).collect();
    // the stepped twin is made the same way as the system's engine
    let twin_of = |evs: &[Event]| match origin {
        Origin::New => guarded(|| run_twin(w, evs)),
        Origin::Builder => guarded(|| run_twin_on(w.built_system(EngineFeedMode::Iterator).engine, evs)),
    };
    let Ok(plain) = twin_of(&events) else {
        if origin == Origin::Builder {
            res.push(("C10/stream/stepped-engine-panicked".into(), "process_with_audit panicked (engine made by SystemBuilder)".into(), json!({"layer": "builder"})));
        }
        return res; // (Origin::New: reported by the history layers)
    };
    // `System::shutdown*` insist on a live engine: only used when the history itself does not end the run
    let open_ended = matches!(plain.ticks.last().map(|t| &t.event), Some(EngineAudit::FeedEnded));
    let mut with_shutdown = events.clone();
    with_shutdown.push(Event::from(Shutdown));
    let twin_shutdown = if open_ended { twin_of(&with_shutdown).ok() } else { None };
    let mut hist_shutdown = hist.to_vec();
    hist_shutdown.push(Sym::Shutdown);
    for mode in [EngineFeedMode::Iterator, EngineFeedMode::Stream] {
        let name = feed_mode_name(origin, &mode);
        for end in [SysEnd::FeedClosed, SysEnd::Shutdown, SysEnd::ShutdownAfterBacktest] {
            if end != SysEnd::FeedClosed && twin_shutdown.is_none() {
                continue;
            }
            let wh = json!({"layer": if origin == Origin::New { "system" } else { "builder" }, "mode": name, "end": end});
            if origin == Origin::New { c.system_runs += 1 } else { c.builder_runs += 1 }
            let obs = match guarded(|| run_system(w, &events, mode.clone(), end, origin)) {
                Ok(Ok(o)) => o,
                Ok(Err(e)) if e.starts_with(NO_AUDIT) => {
                    res.push((format!("C10/stream/{name}/no-audit-stream-although-auditing-enabled"), format!("a system configured with auditing enabled emits no audit records at all: {e}"), wh));
                    continue;
                }
                Ok(Err(e)) => {
                    res.push((format!("C10/stream/{name}/engine-task-failed"), format!("the system did not hand back its engine / audit stream: {e}"), wh));
                    continue;
                }
                Err(()) => {
                    res.push((format!("C10/stream/{name}/system-panicked"), "SystemBuild::init / System::shutdown panicked".into(), wh));
                    continue;
                }
            };
            c.records_checked += obs.ticks.len() as u64;
            // The statement does not say HOW `System::shutdown*` end the run: a Shutdown event (=> shutdown
            // record) and closing the feed (=> feed-ended record) are both accepted; the observed final
            // record decides which input history the stream is compared with.
            let sent_shutdown = matches!(obs.ticks.last().map(|t| &t.event), Some(EngineAudit::Process(p)) if matches!(p.event, EngineEvent::Shutdown(_)));
            let (twin, fed, fed_hist) = match &twin_shutdown {
                Some(t) if end != SysEnd::FeedClosed && sent_shutdown => (t, &with_shutdown, &hist_shutdown[..]),
                _ => (&plain, &events, hist),
            };
            let mut v = Vec::new();
            let ok = check_stream(name, &obs, fed, fed_hist, twin, &mut v);
            for (s, d) in v.drain(..) {
                res.push((s, d, wh.clone()));
            }
            if !ok {
                continue;
            }
            // the replica a user builds from `System::take_audit()`
            let mut mgr: Replica = StateReplicaManager::new(obs.snapshot.clone(), obs.ticks.clone().into_iter());
            c.replica_steps += obs.ticks.len() as u64;
            match guarded(|| mgr.run::<u32, ExchangeId>()) {
                Ok(Ok(())) => {
                    if let Some((f, d)) = compare_states(&obs.final_state, mgr.replica_engine_state()).into_iter().next() {
                        res.push((if f == "orders/static-fields-differ" { replica_sig("", &f, "") } else { format!("C10/replica/{name}/whole-stream-run-differs-from-engine/{f}") }, d, wh));
                    }
                }
                Ok(Err(e)) => res.push((format!("C10/replica/{name}/in-order-stream-rejected"), format!("snapshot + updates of the system rejected: {e}"), wh)),
                Err(()) => res.push((format!("C10/replica/{name}/panicked"), "run() panicked".into(), wh)),
            }
        }
    }
    res
}

/// All histories of length <= max_len over `base` through the system layer, for every (world, origin) of
/// `jobs` (one flat parallel sweep: a system run mostly waits for thread hand-overs).
fn explore_system(sh: &Shared, jobs: &[(usize, &World, Origin)], base: &[Sym], max_len: usize) {
    let mut items: Vec<(usize, &World, Origin, Vec<Sym>)> = Vec::new();
    for (widx, w, origin) in jobs {
        let mut level: Vec<Vec<Sym>> = vec![vec![]];
        items.push((*widx, *w, *origin, vec![]));
        for _ in 0..max_len {
            let mut next = Vec::new();
            for h in &level {
                for s in alphabet(w, base, h) {
                    let mut n = h.clone();
                    n.push(s);
                    next.push(n);
                }
            }
            items.extend(next.iter().map(|h| (*widx, *w, *origin, h.clone())));
            level = next;
        }
    }
    items.into_par_iter().for_each(|(widx, w, origin, h)| {
        let mut c = Counters::default();
        let viols = check_system(w, &h, &mut c, origin);
        if !viols.is_empty() {
            report(sh, widx, w, &h, viols);
        }
        add(&mut sh.counters.lock().unwrap(), &c);
    });
}

// ------------------------------------------------------------------------------------------------
// Long-run layer: count-dependent behaviour (a record lost / repeated / renumbered only after many
// events, sequence numbers crossing 2^32) is out of reach of histories of length <= 5
// ------------------------------------------------------------------------------------------------

/// A long deterministic history: at position i the symbol number (a*i + b) mod |allowed| of the symbols
/// the alphabet allows there (a coprime to the alphabet sizes => every symbol keeps recurring); `Shutdown`
/// is left out so that the run goes on (a fatal error would end it early, which is a valid, shorter run).
fn long_history(w: &World, base: &[Sym], len: usize, a: usize, b: usize) -> Vec<Sym> {
    let mut h: Vec<Sym> = Vec::with_capacity(len);
    let mut bits = [false, false];
    while h.len() < len {
        let allowed: Vec<Sym> = alphabet_bits(w, base, bits).into_iter().filter(|s| *s != Sym::Shutdown).collect();
        let s = allowed[(a * h.len() + b) % allowed.len()];
        bits = [bits[0] || s.may_track(0), bits[1] || s.may_track(1)];
        h.push(s);
    }
    h
}

const LONG_PATTERNS: [(usize, usize); 4] = [(7, 3), (11, 5), (5, 0), (17, 9)];

/// Faults of a long stream: everywhere up to this length, beyond it only at the tail.
const LONG_ALL_FAULTS_UPTO: usize = 400;

/// For every pattern: the whole history through everything `check_history` does (both runners, canonical
/// async schedules, the replica after every record, fault streams) and through the system layer; and
/// EVERY shorter length n (the first n events) through both runners (S1-S4 against a stepped twin), so
/// that a final record lost or doubled at particular lengths is seen as well.
fn explore_long(sh: &Shared, widx: usize, w: &World, base: &[Sym], len: usize, patterns: usize) {
    for (a, b) in LONG_PATTERNS.iter().take(patterns) {
        let hist = long_history(w, base, len, *a, *b);
        let mut c = Counters::default();
        let mut oh = Some(0u64);
        let faults = if hist.len() <= LONG_ALL_FAULTS_UPTO { FaultMode::All } else { FaultMode::Tail };
        let mut viols = check_history(w, &hist, SchedMode::Canonical, faults, &mut c, &mut oh);
        viols.extend(check_system(w, &hist, &mut c, Origin::New));
        c.long_histories += 1;
        c.long_max_len = c.long_max_len.max(hist.len() as u64);
        let mut local = HashSet::new();
        local.insert(oh.unwrap());
        sh.distinct.merge_local(&local);
        report(sh, widx, w, &hist, viols);
        add(&mut sh.counters.lock().unwrap(), &c);
        (1..hist.len()).into_par_iter().for_each(|n| {
            let h = &hist[..n];
            let events: Vec<Event> = h.iter().map(|s| w.event(s)).collect();
            let mut c = Counters::default();
            let mut res: Vec<(String, String, Value)> = Vec::new();
            let Ok(twin) = guarded(|| run_twin(w, &events)) else { return }; // reported by the full-length run
            let mut v = Vec::new();
            match guarded(|| run_sync(w, &events)) {
                Ok(obs) => {
                    c.sync_runs += 1;
                    c.records_checked += obs.ticks.len() as u64;
                    check_stream("sync", &obs, &events, h, &twin, &mut v);
                    res.extend(v.drain(..).map(|(s, d)| (s, d, json!({"layer": "long-run/sync"}))));
                }
                Err(()) => res.push(("C10/stream/sync/runner-panicked".into(), "sync_run_with_audit panicked".into(), json!({"layer": "long-run/sync"}))),
            }
            for sch in canonical_schedules(n) {
                match guarded(|| run_async(w, &events, sch)) {
                    Ok(obs) => {
                        c.async_runs += 1;
                        c.records_checked += obs.ticks.len() as u64;
                        check_stream("async", &obs, &events, h, &twin, &mut v);
                        res.extend(v.drain(..).map(|(s, d)| (s, d, json!({"layer": "long-run/async", "schedule": sch}))));
                    }
                    Err(()) => res.push(("C10/stream/async/runner-panicked".into(), "async_run_with_audit panicked".into(), json!({"layer": "long-run/async", "schedule": sch}))),
                }
            }
            c.long_prefix_lengths += 1;
            if !res.is_empty() {
                report(sh, widx, w, h, res);
            }
            add(&mut sh.counters.lock().unwrap(), &c);
        });
    }
}

// ------------------------------------------------------------------------------------------------
// Secondary layer: joint-state BFS (engine state x replica state) with state de-duplication
// ------------------------------------------------------------------------------------------------

/// Joint state of the real engine and the real replica after the same records, plus the strategy's
/// memory and the alphabet monitor. Two histories are merged only if all of it agrees.
#[derive(Clone)]
struct Joint {
    engine: EState,
    replica: EState,
    issued: [bool; 2],
    close_n: u32,
    may_track: [bool; 2],
}

impl Joint {
    /// 128-bit key of the canonical (Debug) form; only the key is stored in the visited set.
    fn key(&self) -> (u64, u64) {
        use std::fmt::Write;
        thread_local! {
            static BUF: std::cell::RefCell<String> = const { std::cell::RefCell::new(String::new()) };
        }
        BUF.with(|b| {
            let mut b = b.borrow_mut();
            b.clear();
            let _ = write!(b, "{:?}|{:?}|{:?}|{}|{:?}", self.engine, self.replica, self.issued, self.close_n, self.may_track);
            let mut h1 = fnv::FnvHasher::default();
            let mut h2 = fnv::FnvHasher::with_key(0x9e37_79b9_7f4a_7c15);
            h1.write(b.as_bytes());
            h2.write(b.as_bytes());
            (h1.finish(), h2.finish())
        })
    }
}

const BFS_SEQ: u64 = 10;

/// One transition: the real engine (rebuilt around `j.engine`) processes the event with
/// `process_with_audit`; the real replica (rebuilt around `j.replica`) is handed, through `run()`,
/// (F1) the record as if one record before it were missing, (R1/R2) the record itself, (F1) the record again.
fn joint_step(w: &World, j: &Joint, sym: &Sym, out: &mut Vec<Viol>) -> Option<Joint> {
    let after = sym.kind();
    let mut e = w.engine_from(j.engine.clone(), j.issued, j.close_n, BFS_SEQ);
    // context of "the previous record" taken the real way, so that nothing is assumed about numbering
    let prev_ctx: EngineContext = <Eng as Auditor<Audit>>::audit(&mut e, FeedEnded).context;
    let ev = w.event(sym);
    let tick: Tick = match guarded(|| process_with_audit(&mut e, ev)) {
        Ok(t) => t,
        Err(()) => {
            out.push(("C10/stream/stepped-engine-panicked".into(), format!("process_with_audit panicked on {sym:?}")));
            return None;
        }
    };
    let snap: SnapTick = AuditTick { event: j.replica.clone(), context: prev_ctx };
    // F1: a record after a gap
    {
        let mut gap = tick.clone();
        gap.context.sequence = Sequence(tick.context.sequence.value() + 1);
        let mut m: Replica = StateReplicaManager::new(snap.clone(), Vec::new().into_iter());
        let r = replica_step(&mut m, &gap);
        if r.is_err() || *m.replica_engine_state() != j.replica {
            let how = match r { Err(()) => "panicked", Ok(Ok(())) => "applied-silently", Ok(Err(_)) => "applied-then-rejected" };
            out.push((format!("C10/replica/fault=drop/record-after-gap/{how}"), format!("record of {after} with sequence +2 changed the replica")));
        }
    }
    let mut m: Replica = StateReplicaManager::new(snap, Vec::new().into_iter());
    match replica_step(&mut m, &tick) {
        Err(()) => {
            out.push((format!("C10/replica/in-order/panicked/after={after}"), "StateReplicaManager::run panicked".into()));
            return None;
        }
        // (see `check_history`: an `Err` of a one-record call counts as a rejection only if the record was not applied)
        Ok(Err(err)) if m.state_replica.context != tick.context && !states_match(&e.state, m.replica_engine_state()) => {
            out.push((format!("C10/replica/in-order/rejected/after={after}"), format!("in-order record rejected and not applied: {err}")));
            return None;
        }
        Ok(Err(_)) | Ok(Ok(())) => {}
    }
    let diffs = compare_states(&e.state, m.replica_engine_state());
    let diverged = !diffs.is_empty();
    for (f, d) in diffs {
        out.push((replica_sig("in-order", &f, &after.to_string()), d));
    }
    // F1: the same record again (the successor state is the one before this delivery)
    let before = m.replica_engine_state().clone();
    {
        let r = replica_step(&mut m, &tick);
        if r.is_err() || *m.replica_engine_state() != before {
            let how = match r { Err(()) => "panicked", Ok(Ok(())) => "applied-silently", Ok(Err(_)) => "applied-then-rejected" };
            out.push((format!("C10/replica/fault=duplicate/already-applied-record/{how}"), format!("record of {after} delivered twice changed the replica again")));
        }
    }
    if is_final_kind(&tick) || diverged {
        // the run ends here / a diverged replica is not followed further (no cascades)
        return None;
    }
    Some(Joint {
        engine: e.state.clone(),
        replica: before,
        issued: [e.strategy.issued[0].get(), e.strategy.issued[1].get()],
        close_n: e.strategy.close_n.get(),
        may_track: [j.may_track[0] || sym.may_track(0), j.may_track[1] || sym.may_track(1)],
    })
}

#[derive(Default)]
struct JointStats {
    states: usize,
    transitions: u64,
    depth_completed: usize,
    capped: bool,
    frontier_sizes: Vec<usize>,
}

fn joint_init(w: &World) -> Joint {
    Joint { engine: w.state0.clone(), replica: w.state0.clone(), issued: [false, false], close_n: 0, may_track: [false, false] }
}

/// Level-synchronous BFS, parallel expansion, sequential (deterministic) merge.
fn joint_bfs(ctx: &Ctx, widx: usize, w: &World, base: &[Sym], max_depth: usize, max_states: usize) -> JointStats {
    let mut st = JointStats::default();
    let init = joint_init(w);
    let mut seen: HashSet<(u64, u64)> = HashSet::new();
    seen.insert(init.key());
    let mut nodes: Vec<(u32, Option<Sym>)> = vec![(0, None)];
    let mut frontier: Vec<(u32, Joint)> = vec![(0, init)];
    st.frontier_sizes.push(1);
    let mut first: HashSet<String> = HashSet::new();
    let path_of = |nodes: &Vec<(u32, Option<Sym>)>, mut id: u32| {
        let mut rev = Vec::new();
        while let (p, Some(s)) = nodes[id as usize] {
            rev.push(s);
            id = p;
        }
        rev.reverse();
        rev
    };
    for depth in 0..max_depth {
        if frontier.is_empty() || st.capped {
            break;
        }
        let last_level = depth + 1 == max_depth;
        let nodes_before = nodes.len();
        let mut next_frontier = Vec::new();
        // chunked so that only a bounded number of successor states is alive at once; successors whose
        // key is already known are dropped inside the parallel phase (`seen` is only read there)
        for chunk in frontier.chunks(512) {
            let seen_ro = &seen;
            let expanded: Vec<(u32, Vec<(Sym, Vec<Viol>, Option<((u64, u64), Option<Joint>)>)>)> = chunk
                .par_iter()
                .map(|(id, j)| {
                    let mut v = Vec::new();
                    for sym in alphabet_bits(w, base, j.may_track) {
                        let mut out = Vec::new();
                        let next = joint_step(w, j, &sym, &mut out).map(|n| {
                            let k = n.key();
                            let keep = !last_level && !seen_ro.contains(&k);
                            (k, keep.then_some(n))
                        });
                        v.push((sym, out, next));
                    }
                    (*id, v)
                })
                .collect();
            for (pid, succs) in expanded {
                for (sym, viols, next) in succs {
                    st.transitions += 1;
                    for (sig, detail) in viols {
                        if first.insert(sig.clone()) {
                            let mut path = path_of(&nodes, pid);
                            path.push(sym);
                            ctx.violate(sig, detail, json!({"world": widx, "world_name": w.spec.name, "path": path, "where": {"layer": "joint-bfs"}}));
                        } else {
                            ctx.violations.bump(&sig);
                        }
                    }
                    if let Some((k, n)) = next {
                        if seen.insert(k) {
                            if nodes.len() >= max_states {
                                st.capped = true;
                                continue;
                            }
                            nodes.push((pid, Some(sym)));
                            if let Some(n) = n {
                                next_frontier.push(((nodes.len() - 1) as u32, n));
                            }
                        }
                    }
                }
            }
            if st.capped {
                break;
            }
        }
        if st.capped {
            break;
        }
        st.depth_completed += 1;
        if nodes.len() > nodes_before {
            st.frontier_sizes.push(nodes.len() - nodes_before);
        }
        frontier = next_frontier;
    }
    st.states = nodes.len();
    st
}

fn joint_replay(ctx: &Ctx, widx: usize, w: &World, case: &Value) {
    let path: Vec<Sym> = serde_json::from_value(case["path"].clone()).expect("replay: path does not parse");
    let mut j = joint_init(w);
    for (i, sym) in path.iter().enumerate() {
        let mut out = Vec::new();
        let next = joint_step(w, &j, sym, &mut out);
        println!("replay step {i}: {sym:?} -> {} violation(s)", out.len());
        for (sig, detail) in out {
            println!("    {sig}: {detail}");
            ctx.violate(sig, detail, case.clone());
        }
        match next {
            Some(n) => j = n,
            None => break,
        }
    }
}

/// Negative control: the check must report the sabotaging strategy (machinery self-test, exit 2 if not).
fn negative_control() -> (u64, Vec<String>) {
    let w = World::new(sabotage_world());
    let base = base_alphabet(Level_::Full);
    let mut sigs = Vec::new();
    let mut n = 0;
    let mut c = Counters::default();
    for s1 in alphabet(&w, &base, &[]) {
        let mut oh = None;
        n += 1;
        for (sig, _, _) in check_history(&w, &[s1], SchedMode::Canonical, FaultMode::All, &mut c, &mut oh) {
            if !sigs.contains(&sig) {
                sigs.push(sig);
            }
        }
    }
    (n, sigs)
}

/// Same history twice => identical observations (machinery self-test).
fn determinism_selfcheck(ws: &[World]) -> u64 {
    let base = base_alphabet(Level_::Full);
    let mut n = 0;
    for w in ws {
        for s1 in alphabet(w, &base, &[]) {
            for s2 in alphabet(w, &base, &[s1]).into_iter().step_by(5) {
                let hist = [s1, s2];
                let events: Vec<Event> = hist.iter().map(|s| w.event(s)).collect();
                let sch = canonical_schedules(2)[1];
                let (Ok(a), Ok(b), Ok(x), Ok(y)) = (
                    guarded(|| run_sync(w, &events)),
                    guarded(|| run_sync(w, &events)),
                    guarded(|| run_async(w, &events, sch)),
                    guarded(|| run_async(w, &events, sch)),
                ) else {
                    continue; // a panic of the code under test is reported by the exploration itself
                };
                if a.ticks != b.ticks || a.final_state != b.final_state || a.snapshot != b.snapshot || x.ticks != y.ticks || x.final_state != y.final_state {
                    eprintln!("MACHINERY: C10 non-deterministic observation for {hist:?} in world {}", w.spec.name);
                    std::process::exit(2);
                }
                n += 1;
            }
        }
    }
    n
}

pub fn run(ctx: &Ctx) -> Outcome {
    let n_worlds = ctx.tier.pick(5, 7);
    let ws: Vec<World> = worlds().into_iter().take(n_worlds).map(World::new).collect();
    let selfcheck = determinism_selfcheck(&ws);
    let (nc_hist, nc_sigs) = negative_control();
    // (if the stream layer already fails on the code under test the replica layer is not reached: the
    // control is then inconclusive, not failed)
    if !nc_sigs.iter().any(|s| s.starts_with("C10/replica/in-order/trading-state/after=") || s.starts_with("C10/stream/") || s.starts_with("C10/snapshot/")) {
        eprintln!("MACHINERY: C10 negative control (strategy mutating state in on_disconnect) was NOT reported: {nc_sigs:?}");
        std::process::exit(2);
    }

    // bounds
    let full_len = ctx.tier.pick(3, 4);
    let core_len = ctx.tier.pick(4, 5);
    let all_sched_upto = ctx.tier.pick(2, 3);

    let sh = Shared {
        ctx,
        counters: std::sync::Mutex::new(Counters::default()),
        distinct: Distinct::default(),
        best: std::sync::Mutex::new(HashMap::new()),
        samples: Samples::new(6),
    };
    let full = base_alphabet(Level_::Full);
    let core = base_alphabet(Level_::Core);
    let mut per_world = Vec::new();
    for (i, w) in ws.iter().enumerate() {
        let before = sh.counters.lock().unwrap().histories;
        explore(&sh, i, w, &full, full_len, all_sched_upto, 0);
        let mid = sh.counters.lock().unwrap().histories;
        // deeper layer over the core alphabet (a subset of the full one: lengths <= full_len are covered)
        explore(&sh, i, w, &core, core_len, all_sched_upto, full_len);
        let after = sh.counters.lock().unwrap().histories;
        per_world.push(json!({"world": w.spec.name, "histories_full_alphabet": mid - before, "histories_core_alphabet_deeper": after - mid}));
        // deterministic sample of an explored maximal history: symbol (7*depth+3+world) mod |alphabet| at every depth
        let mut h: Vec<Sym> = Vec::new();
        while h.len() < full_len {
            let a = alphabet(w, &full, &h);
            if a.is_empty() {
                break;
            }
            h.push(a[(7 * h.len() + 3 + i) % a.len()]);
        }
        sh.samples.offer(|| json!({"world": i, "world_name": w.spec.name, "hist": h}));
    }
    // system layer: short histories through the real SystemBuild::init (both feed modes, three endings)
    let system_len = ctx.tier.pick(1, 2);
    // (diagnostic switch, used to show that a layer is what detects a given change: C10_DISABLE=builder,long)
    let disabled = std::env::var("C10_DISABLE").unwrap_or_default();
    if !disabled.is_empty() {
        eprintln!("C10: layers disabled for diagnosis: {disabled} - this run is not evidence");
    }
    let t_sys = std::time::Instant::now();
    let mut jobs: Vec<(usize, &World, Origin)> = ws.iter().enumerate().map(|(i, w)| (i, w, Origin::New)).collect();
    // builder layer: the same through the real SystemBuilder (which makes the engine itself: no links, sequence 0 -
    // only the strategy and the initial trading state of a world matter, so worlds 0 and 1 are all there is)
    if !disabled.contains("builder") {
        jobs.extend(ws.iter().enumerate().take(2).map(|(i, w)| (i, w, Origin::Builder)));
    }
    explore_system(&sh, &jobs, &full, system_len);
    let t_sys = t_sys.elapsed();
    let t_long = std::time::Instant::now();
    // long-run layer (healthy links: nothing ends the run early)
    let long_len = ctx.tier.pick(320, 1000);
    let long_patterns = ctx.tier.pick(2, 3);
    let long_world = World::new(worlds().into_iter().nth(LONG_WORLD).expect("long-run world"));
    for (i, w) in [(0usize, &ws[0]), (LONG_WORLD, &long_world)] {
        if disabled.contains("long") {
            break;
        }
        explore_long(&sh, i, w, &full, long_len, long_patterns);
    }
    let t_long = t_long.elapsed();
    // secondary layer: deeper, with state de-duplication, engine x replica only (no runners)
    let bfs_depth = ctx.tier.pick(4, 6);
    let bfs_cap = ctx.tier.pick(200_000, 2_000_000);
    let mut bfs_rows = Vec::new();
    let (mut bfs_states, mut bfs_transitions, mut bfs_capped) = (0usize, 0u64, false);
    for (i, w) in ws.iter().enumerate() {
        let st = joint_bfs(ctx, i, w, &full, bfs_depth, bfs_cap);
        bfs_states += st.states;
        bfs_transitions += st.transitions;
        bfs_capped |= st.capped;
        bfs_rows.push(json!({"world": w.spec.name, "states": st.states, "transitions": st.transitions, "depth_completed": st.depth_completed, "capped": st.capped, "frontier_sizes": st.frontier_sizes}));
    }
    let c = sh.counters.lock().unwrap().clone();
    if std::env::var("C10_PROFILE").is_ok() {
        eprintln!("C10 wall ms: system+builder layers {}, long-run layer {}", t_sys.as_millis(), t_long.as_millis());
        eprintln!("C10 cpu ms by phase [sync(+twin), async, bookkeeping+hash, replica in-order, faults]: {:?}", c.ns.iter().map(|n| n / 1_000_000).collect::<Vec<_>>());
    }
    let mut diagnostic: Vec<String> = Vec::new();
    if !disabled.is_empty() {
        diagnostic.push(format!("DIAGNOSTIC RUN - NOT EVIDENCE: layers disabled through C10_DISABLE={disabled}"));
    }
    Outcome {
        level: "exploration",
        coverage: json!({
            "evaluations": c.histories,
            "distinct_nontrivial": sh.distinct.len(),
            "exhaustive": true,
            "rule": "every engine-event history of length <= bound over the alphabet, in every world, run through sync_run_with_audit, async_run_with_audit (environment schedules) and a process_with_audit twin; recorded stream checked (S1-S4), real StateReplicaManager stepped tick by tick (R1, R2), every drop/duplicate/swap fault stream (F1)",
            "bounds": {
                "full_alphabet_symbols": full.len(), "full_alphabet_max_len": full_len,
                "core_alphabet_symbols": core.len(), "core_alphabet_max_len": core_len,
                "all_async_schedules_up_to_len": all_sched_upto, "worlds": ws.len(),
                "system_layer_max_len": system_len,
                "long_run_len": long_len, "long_run_patterns_per_world": long_patterns, "long_run_worlds": 2,
            },
            "per_world": per_world,
            "joint_state_bfs": {
                "rule": "BFS with de-duplication over (engine state, replica state, strategy memory): every transition = real process_with_audit + real StateReplicaManager::run on the record after a gap, the record, the record again",
                "max_depth": bfs_depth, "states": bfs_states, "transitions": bfs_transitions, "capped": bfs_capped, "per_world": bfs_rows,
            },
            "joint_bfs_states": bfs_states,
            "joint_bfs_transitions": bfs_transitions,
            "sync_runs": c.sync_runs,
            "async_runs": c.async_runs,
            "system_runs": c.system_runs,
            "system_layer": "every history of length <= system_layer_max_len (full alphabet, every world) through the real SystemBuild::new(engine, feed mode, AuditMode::Enabled, ..).init() in both feed modes, ended by closing the feed, System::shutdown() and System::shutdown_after_backtest(); the system's snapshot + updates checked by S1-S4 against the stepped engine and by a replica run() over the whole stream",
            "builder_runs": c.builder_runs,
            "builder_layer": "every history of length <= system_layer_max_len (full alphabet; quiet/trading-off and active/trading-on strategy) through SystemBuilder::new(SystemArgs{..}).engine_feed_mode(..).audit_mode(Enabled).trading_state(..).build().init() in both feed modes with the three endings; stepped twin = the engine of a second build(); same rules as the system layer",
            "long_run_layer": {
                "rule": "per world and pattern one deterministic history of long_run_len events cycling through the alphabet (no Shutdown): the whole history through both runners (canonical async schedules), the replica after every record, fault streams and the system layer; every shorter length 1..long_run_len through both runners (S1-S4); one world starts at sequence 2^32-40",
                "histories": c.long_histories, "max_len": c.long_max_len, "shorter_lengths_run": c.long_prefix_lengths,
            },
            "records_checked": c.records_checked,
            "replica_steps_in_order": c.replica_steps,
            "fault_streams": c.fault_streams,
            "fault_stream_steps": c.fault_steps,
            "fault_records_rejected": c.fault_rejected,
            "fault_records_skipped": c.fault_skipped,
            "histories_with_in_flight_markers_set_aside": c.with_in_flight_markers,
            "position_exit_outputs": c.with_position_exit,
            "algo_order_outputs": c.algo_orders,
            "runs_ending_feed_ended": c.end_feed,
            "runs_ending_shutdown": c.end_shutdown,
            "runs_ending_fatal_error": c.end_fatal,
            "determinism_selfcheck_histories": selfcheck,
            "negative_control": {"histories": nc_hist, "reported_signatures": nc_sigs},
            "samples": sh.samples.take(),
        }),
        assumptions: vec![
            "client order ids are used once: an open request for cid X is never issued after a report/request that may have made X tracked (engine contract, DESIGN §7)".into(),
            "exchange order reports echo the static fields (side, price, quantity, kind, time in force, key) of the request with the same client order id".into(),
            "order reports carry exchange states only (Open, FullyFilled, Cancelled, OpenFailed), never the engine-internal OpenInFlight/CancelInFlight markers".into(),
            "instrument data is DefaultInstrumentMarketData and global data DefaultGlobalData (no user state that records in-flight requests)".into(),
            "strategies: one that never issues orders and one deterministic state-driven strategy issuing/cancelling two orders; on_disconnect/on_trading_disabled hooks do not mutate engine state (the negative control does and is reported)".into(),
            "2 exchanges, 3 instruments, 2 order templates; histories bounded as stated under bounds".into(),
            "builder layer: SystemArgs without execution configuration (every exchange tracked without execution link: order requests end the run with a fatal-error record)".into(),
            "long-run layer: fixed cyclic histories (not all histories of that length); the order report of an order is never followed by a new request for the same client order id".into(),
            "after a Shutdown event only one further feed event is appended (it must stay unprocessed)".into(),
            "system layer: the system is built with SystemBuild::new around the scripted engine, without execution components (empty ExecutionBuildFutures), an empty market stream and an unused account channel; every event enters through System::feed_tx; System::shutdown*() may end the run with a shutdown or a feed-ended record (both accepted)".into(),
        ].into_iter().chain(diagnostic).collect(),
    }
}

pub fn replay(ctx: &Ctx, case: &Value) {
    let widx = case["world"].as_u64().unwrap_or(0) as usize;
    let mut specs = worlds();
    specs.push(sabotage_world());
    let spec = specs.into_iter().nth(widx).expect("replay: bad world index");
    let w = World::new(spec);
    if case.get("path").is_some() {
        return joint_replay(ctx, widx, &w, case);
    }
    let hist: Vec<Sym> = serde_json::from_value(case["hist"].clone()).expect("replay: hist does not parse");
    println!("replay world={} hist={hist:?}", w.spec.name);
    let mut c = Counters::default();
    let mut oh = None;
    // (a history of the long-run layer: canonical schedules only - there are 2^(n-1) schedules)
    let long = hist.len() > 8;
    let viols = check_history(
        &w, &hist,
        if long { SchedMode::Canonical } else { SchedMode::All },
        if long && hist.len() > LONG_ALL_FAULTS_UPTO { FaultMode::Tail } else { FaultMode::All },
        &mut c, &mut oh,
    );
    println!(
        "replay: {} sync run, {} async runs, {} records, {} replica steps, {} fault streams -> {} violation(s)",
        c.sync_runs, c.async_runs, c.records_checked, c.replica_steps, c.fault_streams, viols.len()
    );
    let mut sys = check_system(&w, &hist, &mut c, Origin::New);
    if case["where"]["layer"].as_str() == Some("builder") {
        sys.extend(check_system(&w, &hist, &mut c, Origin::Builder));
    }
    println!("replay: {} system runs, {} builder runs -> {} violation(s)", c.system_runs, c.builder_runs, sys.len());
    for (sig, detail, extra) in viols.into_iter().chain(sys) {
        println!("    {sig}: {detail}");
        ctx.violate(sig, detail, case_of(widx, &w, &hist, &extra));
    }
}
