//! C01 — Active-order tracking follows the documented order lifecycle.
//!
//! E-BFS to **fixpoint**, two layers:
//!  (a) the real `Orders` table with two client order ids,
//!  (b) a real 3-instrument / 2-exchange `EngineState` driven through `update_from_account`
//!      (OrderSnapshot, OrderCancelled, full AccountSnapshot) and the `InFlightRequestRecorder`
//!      (cids c0,c1 on instrument 1 / exchange 0, c2 on instrument 2 / exchange 1).
//!
//! A second engine model ("spread") puts c0 on instrument 0 and c1 on instrument 1 of exchange 0, so a full
//! account snapshot of that exchange carries TWO instrument entries (and lists an instrument without
//! orders as an empty entry).
//!
//! Value classes chosen so that coarse comparisons cannot hide: the three exchange instants are
//! +1 s, +1 s + 1 ns and +2.5 s (a guard that compares at second, milli- or microsecond resolution sees the
//! first two as equal), the order quantity is 1 with fill levels 0, 0.6 / 0.999999999999 and 1 (a remaining
//! quantity of 0.4 or 1e-12 is not "nothing left"). Failed cancels / failed opens come in two classes (rejected by the venue, and a
//! connectivity error such as a timeout); cancel requests with and without the exchange order id; the
//! batch forms `record_in_flight_opens / _cancels` (what the engine itself calls) with two requests in
//! both orders.
//!
//! The "engine-process" models drive the same alphabet through the engine's own entry point
//! `Engine::process`: reports as `EngineEvent::Account(Item)`, "request sent" as the user commands
//! `SendOpenRequests / SendCancelRequests` over healthy execution links (trading disabled / enabled).
//!
//! Alphabet per cid: OpenSent (only while untracked: unique cids are the engine contract), CancelSent,
//! Snap(OpenInFlight), Snap(Open t) for t in {1,2,3} with the fill level given by an *exchange
//! consistent timeline* (fill level non-decreasing in exchange time; all 10 timelines per cid are
//! enumerated as initial states), Snap(Cancelled t), Snap(FullyFilled), Snap(Expired),
//! Snap(OpenFailed), CancelOk, CancelErr; layer (b) adds full account snapshots carrying one or two
//! order reports. Every input is offered in every state, so duplicates, stale and out-of-order
//! deliveries are all explored.
//!
//! Second hardening round: the second exchange instant is +1 s + 1 ns (guards compared at micro- / millisecond
//! resolution); the partial fill of odd cids leaves 1e-12 to fill ("nothing left" is exact); cancel confirmations
//! stamped older than the held open data; failed opens / cancels with every `ConnectivityError` / `ApiError`
//! variant; in the engine-spread and engine-process models order c2 carries the SAME client order id string as c0
//! on another instrument (ids are unique per instrument table); odd cids are market / immediate-or-cancel orders;
//! a long-input layer (see `long_layer`) with up to
//! 1100 (thorough 4200) concurrent orders, batches and full snapshots of every size up to 130 and around powers
//! of two / ten.
//!
//! Oracle: allowed-successor sets per (tracked state, input) written from the statement (R1..R6 of
//! DESIGN.md §3 C01). The reference state is the projection of the implementation state, so a
//! divergence is reported on the step that causes it and the search continues.

//!
//! Soundness round: in the engine-process models "request sent" is OBSERVED on the execution links, not assumed from
//! the user command: a request the engine refuses to deliver (e.g. a defensive check on the command) was not sent, and
//! the order's entry must then stay as it was (`request-not-sent-changes-nothing`); see
//! `out/benign/C01_ok_refuse_live_cid_reuse.patch`.

use super::common::*;
use crate::core::{Ctx, Outcome, hash_of};
use crate::explore::bfs::{self, Model, Viol};
use barter::{
    EngineEvent,
    engine::{Processor, command::Command},
    execution::{AccountStreamEvent, request::ExecutionRequest},
};
use barter_integration::collection::one_or_many::OneOrMany;
use barter::engine::state::{
    instrument::data::DefaultInstrumentMarketData,
    global::DefaultGlobalData,
    order::{Orders, in_flight_recorder::InFlightRequestRecorder, manager::OrderManager},
    trading::TradingState,
};
use barter_execution::{
    AccountEvent, AccountEventKind, AccountSnapshot, InstrumentAccountSnapshot,
    error::{ApiError, ConnectivityError, OrderError},
    order::{
        Order, OrderKey, OrderKind, TimeInForce,
        id::{ClientOrderId, OrderId},
        request::{OrderRequestCancel, OrderRequestOpen, OrderResponseCancel, RequestCancel, RequestOpen},
        state::{ActiveOrderState, CancelInFlight, Cancelled, InactiveOrderState, Open, OpenInFlight, OrderState},
    },
};
use barter_instrument::{
    Side, asset::AssetIndex, exchange::ExchangeIndex, index::IndexedInstruments,
    instrument::InstrumentIndex,
};
use barter_integration::snapshot::Snapshot;
use rust_decimal::Decimal;
use serde::{Deserialize, Serialize};
use serde_json::{Value, json};

const QTY: u8 = 2; // fill LEVELS 0,1,2 (2 = nothing left to fill); see `fill_of`

/// exchange instant of time index t in {1,2,3}: +1 s, +1 s + 1 ns, +2.5 s
fn time_of(t: u8) -> chrono::DateTime<chrono::Utc> {
    match t {
        1 => t_plus(1),
        2 => t_plus(1) + chrono::TimeDelta::nanoseconds(1),
        3 => t_plus_ms(2500),
        _ => unreachable!("time index"),
    }
}
/// inverse of `time_of` (0 = not an instant of the alphabet)
fn time_index(d: chrono::DateTime<chrono::Utc>) -> u8 {
    (1..=3u8).find(|t| time_of(*t) == d).unwrap_or(0)
}
/// order quantity 1; filled quantity of fill level f: 0, a partial fill, 1. The partial fill is 0.6 for
/// even cids and 0.999999999999 for odd ones (a remaining quantity of 1e-12 is still something left to
/// fill: "nothing left" is an exact statement, not one up to rounding)
fn qty() -> Decimal {
    Decimal::ONE
}
fn fill_of(c: usize, f: u8) -> Decimal {
    match f {
        0 => Decimal::ZERO,
        1 if c % 2 == 0 => Decimal::new(6, 1),
        1 => Decimal::new(999_999_999_999, 12),
        _ => Decimal::ONE,
    }
}
/// inverse of `fill_of` (255 = not a fill level of the alphabet)
fn fill_index(c: usize, d: Decimal) -> u8 {
    (0..=QTY).find(|f| fill_of(c, *f) == d).unwrap_or(255)
}

#[derive(Debug, Clone, Copy, PartialEq, Eq, Hash, Serialize, Deserialize)]
pub enum Kind {
    InFlight,
    Open,
    Cancelling,
}

/// Projection of one tracked order: lifecycle kind + exchange-confirmed open data held (t, filled).
#[derive(Debug, Clone, Copy, PartialEq, Eq, Hash, Serialize, Deserialize)]
pub struct Proj {
    kind: Kind,
    meta: Option<(u8, u8)>,
}

#[derive(Debug, Clone, PartialEq, Eq, Hash)]
pub struct St {
    /// per cid: fill level reported at exchange time 1,2,3
    cfg: Vec<[u8; 3]>,
    orders: Vec<Option<Proj>>,
}

#[derive(Debug, Clone, Copy, PartialEq, Eq, Hash, Serialize, Deserialize)]
pub enum Rep {
    InFlight,
    /// a snapshot in state CancelInFlight carrying (or not) open data of time t
    CancelInFlight(Option<u8>),
    Open(u8),
    Cancelled(u8),
    FullyFilled,
    Expired,
    OpenFailed,
    /// open failed with a connectivity error (request timed out) instead of a venue rejection
    OpenFailedTimeout,
    /// open failed with an API error other than a rejection (rate limit)
    OpenFailedRateLimit,
    /// open failed with error class k of `err_class`
    OpenFailedClass(u8),
}

#[derive(Debug, Clone, PartialEq, Eq, Hash, Serialize, Deserialize)]
pub enum Act {
    OpenSent(usize),
    CancelSent(usize),
    Snap(usize, Rep),
    CancelOk(usize),
    CancelErr(usize),
    /// full account snapshot carrying these order reports (layer b only)
    Full(Vec<(usize, Rep)>),
    /// cancel request carrying the exchange order id
    CancelSentWithId(usize),
    /// cancel failed with a connectivity error (timeout)
    CancelErrTimeout(usize),
    /// cancel failed with an API error other than a rejection (rate limit)
    CancelErrRateLimit(usize),
    /// `record_in_flight_opens` with these requests, in this order (all untracked)
    OpenSentMany(Vec<usize>),
    /// `record_in_flight_cancels` with these requests, in this order
    CancelSentMany(Vec<usize>),
    /// cancel confirmed, the confirmation stamped with the EARLIEST exchange instant (older than any open
    /// data held from instants 2, 3: a late confirmation is still a confirmation)
    CancelOkOld(usize),
    /// cancel failed with error class k of `err_class`
    CancelErrClass(usize, u8),
}

#[derive(Clone, Copy, PartialEq, Eq)]
pub enum Layer {
    Orders,
    Engine,
}

pub struct M {
    layer: Layer,
    /// engine layer only: c0 on instrument 0, c1 on instrument 1 (both exchange 0), c2 on instrument 2
    spread: bool,
    /// engine layer only: Some(trading state) = inputs go through `Engine::process`
    process: Option<TradingState>,
    /// engine layer only: order c2 (instrument 2, exchange 1) carries the SAME client order id string as
    /// order c0 (client order ids are unique per instrument table, `Orders` docs; an order is identified by
    /// instrument + cid, and "reports about one order never change another")
    shared_cid: bool,
    n_cids: usize,
    timelines: Vec<Vec<[u8; 3]>>, // initial configurations (one timeline per cid)
    instruments: IndexedInstruments,
    /// client order id string -> orders carrying it (see `shared_cid`)
    by_cid: std::collections::HashMap<ClientOrderId, Vec<usize>>,
}

fn all_timelines() -> Vec<[u8; 3]> {
    let mut v = Vec::new();
    for a in 0..=QTY {
        for b in a..=QTY {
            for c in b..=QTY {
                v.push([a, b, c]);
            }
        }
    }
    v
}

fn cid_named(i: usize) -> ClientOrderId {
    ClientOrderId::new(format!("c{i}"))
}
fn oid(i: usize) -> OrderId {
    OrderId::new(format!("o{i}"))
}

impl M {
    pub fn new(layer: Layer, timelines_per_cid: &[Vec<[u8; 3]>]) -> Self {
        let n_cids = timelines_per_cid.len();
        // cartesian product of timelines
        let mut cfgs: Vec<Vec<[u8; 3]>> = vec![vec![]];
        for tl in timelines_per_cid {
            let mut next = Vec::new();
            for c in &cfgs {
                for t in tl {
                    let mut c2 = c.clone();
                    c2.push(*t);
                    next.push(c2);
                }
            }
            cfgs = next;
        }
        let instruments = IndexedInstruments::builder()
            .add_instrument(spot(EXCHANGES[0], "x0_btc_usdt", "BTCUSDT", "btc", "usdt"))
            .add_instrument(spot(EXCHANGES[0], "x0_eth_usdt", "ETHUSDT", "eth", "usdt"))
            .add_instrument(spot(EXCHANGES[1], "x1_btc_usdt", "XBT/USDT", "btc", "usdt"))
            .build();
        let mut m = Self { layer, spread: false, process: None, shared_cid: false, n_cids, timelines: cfgs, instruments, by_cid: Default::default() };
        m.index_cids();
        m
    }

    fn index_cids(&mut self) {
        self.by_cid.clear();
        for c in 0..self.n_cids {
            let id = self.cid(c);
            self.by_cid.entry(id).or_default().push(c);
        }
    }

    pub fn process(mut self, trading: TradingState) -> Self {
        self.process = Some(trading);
        self
    }

    pub fn spread(mut self) -> Self {
        self.spread = true;
        self
    }

    pub fn shared_cid(mut self) -> Self {
        assert!(self.layer == Layer::Engine);
        self.shared_cid = true;
        self.index_cids();
        self
    }

    /// client order id string of order c
    fn cid(&self, c: usize) -> ClientOrderId {
        if self.shared_cid && c == 2 { cid_named(0) } else { cid_named(c) }
    }

    /// (exchange, instrument) a cid lives on
    fn home(&self, c: usize) -> (ExchangeIndex, InstrumentIndex) {
        match self.layer {
            Layer::Orders => (ExchangeIndex(0), InstrumentIndex(1)),
            Layer::Engine if self.spread => (ExchangeIndex(if c < 2 { 0 } else { 1 }), InstrumentIndex(c)),
            Layer::Engine => {
                if c < 2 {
                    (ExchangeIndex(0), InstrumentIndex(1))
                } else {
                    (ExchangeIndex(1), InstrumentIndex(2))
                }
            }
        }
    }

    fn key(&self, c: usize) -> OrderKey {
        let (exchange, instrument) = self.home(c);
        OrderKey { exchange, instrument, strategy: strategy_id(), cid: self.cid(c) }
    }

    fn side(c: usize) -> Side {
        if c % 2 == 0 { Side::Buy } else { Side::Sell }
    }
    fn price(c: usize) -> Decimal {
        Decimal::from(100 + c as i64)
    }
    /// even cids are resting limit orders (good until cancelled), odd cids market orders that are immediate or
    /// cancel: the lifecycle of the statement does not depend on the order's terms (an IOC order the exchange
    /// reports open and partially filled is still tracked until one of the listed reports arrives)
    fn kind(c: usize) -> OrderKind {
        if c % 2 == 0 { OrderKind::Limit } else { OrderKind::Market }
    }
    fn tif(c: usize) -> TimeInForce {
        if c % 2 == 0 { TimeInForce::GoodUntilCancelled { post_only: false } } else { TimeInForce::ImmediateOrCancel }
    }

    fn open_meta(&self, c: usize, t: u8, f: u8) -> Open {
        Open { id: oid(c), time_exchange: time_of(t), filled_quantity: fill_of(c, f) }
    }

    fn active_order(&self, c: usize, p: &Proj) -> Order<ExchangeIndex, InstrumentIndex, ActiveOrderState> {
        let state = match (p.kind, p.meta) {
            (Kind::InFlight, _) => ActiveOrderState::OpenInFlight(OpenInFlight),
            (Kind::Open, Some((t, f))) => ActiveOrderState::Open(self.open_meta(c, t, f)),
            (Kind::Open, None) => unreachable!("Open without meta"),
            (Kind::Cancelling, m) => ActiveOrderState::CancelInFlight(CancelInFlight {
                order: m.map(|(t, f)| self.open_meta(c, t, f)),
            }),
        };
        Order {
            key: self.key(c),
            side: Self::side(c),
            price: Self::price(c),
            quantity: qty(),
            kind: Self::kind(c),
            time_in_force: Self::tif(c),
            state,
        }
    }

    fn snapshot_order(&self, c: usize, rep: Rep, cfg: &[[u8; 3]]) -> Order<ExchangeIndex, InstrumentIndex, OrderState<AssetIndex, InstrumentIndex>> {
        let state = match rep {
            Rep::InFlight => OrderState::active(OpenInFlight),
            Rep::CancelInFlight(mt) => OrderState::active(CancelInFlight {
                order: mt.map(|t| self.open_meta(c, t, cfg[c][(t - 1) as usize])),
            }),
            Rep::Open(t) => OrderState::active(self.open_meta(c, t, cfg[c][(t - 1) as usize])),
            Rep::Cancelled(t) => OrderState::inactive(Cancelled { id: oid(c), time_exchange: time_of(t) }),
            Rep::FullyFilled => OrderState::fully_filled(),
            Rep::Expired => OrderState::expired(),
            Rep::OpenFailed => OrderState::inactive(OrderError::Rejected(ApiError::OrderRejected("script".into()))),
            Rep::OpenFailedTimeout => OrderState::inactive(OrderError::Connectivity(ConnectivityError::Timeout)),
            Rep::OpenFailedRateLimit => OrderState::inactive(OrderError::Rejected(ApiError::RateLimit)),
            Rep::OpenFailedClass(k) => OrderState::inactive(err_class(k).0),
        };
        Order {
            key: self.key(c),
            side: Self::side(c),
            price: Self::price(c),
            quantity: qty(),
            kind: Self::kind(c),
            time_in_force: Self::tif(c),
            state,
        }
    }

    fn request_open(&self, c: usize) -> OrderRequestOpen {
        OrderRequestOpen {
            key: self.key(c),
            state: RequestOpen {
                side: Self::side(c),
                price: Self::price(c),
                quantity: qty(),
                kind: Self::kind(c),
                time_in_force: Self::tif(c),
            },
        }
    }
    fn request_cancel(&self, c: usize) -> OrderRequestCancel {
        OrderRequestCancel { key: self.key(c), state: RequestCancel { id: None } }
    }
    fn request_cancel_with_id(&self, c: usize) -> OrderRequestCancel {
        OrderRequestCancel { key: self.key(c), state: RequestCancel { id: Some(oid(c)) } }
    }
    fn cancel_response(&self, c: usize, ok: bool) -> OrderResponseCancel {
        self.cancel_response_with(c, if ok { None } else { Some(OrderError::Rejected(ApiError::OrderRejected("script".into()))) })
    }
    fn cancel_response_with(&self, c: usize, err: Option<OrderError>) -> OrderResponseCancel {
        OrderResponseCancel {
            key: self.key(c),
            state: match err {
                None => Ok(Cancelled { id: oid(c), time_exchange: time_of(3) }),
                Some(e) => Err(e),
            },
        }
    }
    fn cancel_response_old(&self, c: usize) -> OrderResponseCancel {
        OrderResponseCancel { key: self.key(c), state: Ok(Cancelled { id: oid(c), time_exchange: time_of(1) }) }
    }

    /// project one real tracked order; also says whether its static fields are intact
    fn project(&self, c: usize, o: &Order<ExchangeIndex, InstrumentIndex, ActiveOrderState>) -> (Proj, bool) {
        let meta_of = |open: &Open| -> (u8, u8) {
            (time_index(open.time_exchange), fill_index(c, open.filled_quantity))
        };
        let (proj, id_ok) = match &o.state {
            ActiveOrderState::OpenInFlight(_) => (Proj { kind: Kind::InFlight, meta: None }, true),
            ActiveOrderState::Open(open) => (Proj { kind: Kind::Open, meta: Some(meta_of(open)) }, open.id == oid(c)),
            ActiveOrderState::CancelInFlight(ci) => (
                Proj { kind: Kind::Cancelling, meta: ci.order.as_ref().map(meta_of) },
                ci.order.as_ref().is_none_or(|o| o.id == oid(c)),
            ),
        };
        let intact = id_ok
            && o.key == self.key(c)
            && o.side == Self::side(c)
            && o.price == Self::price(c)
            && o.quantity == qty()
            && o.kind == Self::kind(c)
            && o.time_in_force == Self::tif(c);
        (proj, intact)
    }

    /// the order with this client order id living on instrument `inst`; Err(true) = the id is known but on
    /// another instrument, Err(false) = unknown id
    fn cid_index(&self, id: &ClientOrderId, inst: InstrumentIndex) -> Result<usize, bool> {
        match self.by_cid.get(id) {
            None => Err(false),
            Some(cs) => cs.iter().copied().find(|c| self.home(*c).1 == inst).ok_or(true),
        }
    }

    /// Execute `a` on the real implementation rebuilt from `s`; return the per-cid projection after,
    /// plus structural complaints (order under wrong instrument, unknown cid, damaged static fields).
    /// Third value (engine-process models only): per cid, whether an open / a cancel request for it was
    /// DELIVERED to an execution link while the action was processed. There "request sent" is an observation,
    /// not an assumption: an engine may refuse to send what a user command asks for.
    fn execute(&self, s: &St, a: &Act) -> (Vec<Option<Proj>>, Vec<String>, Option<Vec<(bool, bool)>>) {
        let mut complaints = Vec::new();
        let mut after: Vec<Option<Proj>> = vec![None; self.n_cids];
        let mut sent: Option<Vec<(bool, bool)>> = None;
        match self.layer {
            Layer::Orders => {
                let mut orders: Orders = Orders::default();
                for (c, p) in s.orders.iter().enumerate() {
                    if let Some(p) = p {
                        orders.0.insert(self.cid(c), self.active_order(c, p));
                    }
                }
                match a {
                    Act::OpenSent(c) => orders.record_in_flight_open(&self.request_open(*c)),
                    Act::CancelSent(c) => orders.record_in_flight_cancel(&self.request_cancel(*c)),
                    Act::Snap(c, rep) => {
                        let o = self.snapshot_order(*c, *rep, &s.cfg);
                        orders.update_from_order_snapshot(Snapshot(&o))
                    }
                    Act::CancelOk(c) => orders.update_from_cancel_response::<AssetIndex>(&self.cancel_response(*c, true)),
                    Act::CancelErr(c) => orders.update_from_cancel_response::<AssetIndex>(&self.cancel_response(*c, false)),
                    Act::Full(_) => unreachable!(),
                    Act::CancelSentWithId(c) => orders.record_in_flight_cancel(&self.request_cancel_with_id(*c)),
                    Act::CancelErrTimeout(c) => orders.update_from_cancel_response::<AssetIndex>(&self.cancel_response_with(*c, Some(err_timeout()))),
                    Act::CancelErrRateLimit(c) => orders.update_from_cancel_response::<AssetIndex>(&self.cancel_response_with(*c, Some(err_rate_limit()))),
                    Act::CancelOkOld(c) => orders.update_from_cancel_response::<AssetIndex>(&self.cancel_response_old(*c)),
                    Act::CancelErrClass(c, k) => orders.update_from_cancel_response::<AssetIndex>(&self.cancel_response_with(*c, Some(err_class(*k).0))),
                    Act::OpenSentMany(cs) => {
                        let reqs: Vec<_> = cs.iter().map(|c| self.request_open(*c)).collect();
                        orders.record_in_flight_opens(&reqs)
                    }
                    Act::CancelSentMany(cs) => {
                        let reqs: Vec<_> = cs.iter().map(|c| self.request_cancel(*c)).collect();
                        orders.record_in_flight_cancels(&reqs)
                    }
                }
                for (k, o) in orders.0.iter() {
                    match self.cid_index(k, InstrumentIndex(1)) {
                        Ok(c) if o.key.cid == *k => {
                            let (p, intact) = self.project(c, o);
                            if !intact {
                                complaints.push("static-fields-changed".into());
                            }
                            after[c] = Some(p);
                        }
                        _ => complaints.push("unknown-or-mismatched-cid-entry".into()),
                    }
                }
            }
            Layer::Engine => {
                let mut state: EState = barter::engine::state::EngineState::builder(
                    &self.instruments,
                    DefaultGlobalData,
                    DefaultInstrumentMarketData::default,
                )
                .time_engine_start(t0())
                .trading_state(TradingState::Disabled)
                .build();
                for (c, p) in s.orders.iter().enumerate() {
                    if let Some(p) = p {
                        let (_, inst) = self.home(c);
                        state.instruments.instrument_index_mut(&inst).orders.0.insert(self.cid(c), self.active_order(c, p));
                    }
                }
                // entry point: the engine state's own methods, or the engine's (`Engine::process`)
                let mut ep = match self.process {
                    None => Ep::State(Box::new(state)),
                    Some(trading) => {
                        let (mut engine, links) = build_engine(&self.instruments, trading, &[]);
                        engine.state = EState { trading, ..state };
                        Ep::Engine(Box::new(engine), links)
                    }
                };
                let ev = |c: usize, kind: AccountEventKind<ExchangeIndex, AssetIndex, InstrumentIndex>| AccountEvent {
                    exchange: self.home(c).0,
                    kind,
                };
                match a {
                    Act::OpenSent(c) => ep.open(vec![self.request_open(*c)], false),
                    Act::CancelSent(c) => ep.cancel(vec![self.request_cancel(*c)], false),
                    Act::Snap(c, rep) => {
                        let o = self.snapshot_order(*c, *rep, &s.cfg);
                        ep.account(ev(*c, AccountEventKind::OrderSnapshot(Snapshot(o))));
                    }
                    Act::CancelOk(c) => {
                        ep.account(ev(*c, AccountEventKind::OrderCancelled(self.cancel_response(*c, true))));
                    }
                    Act::CancelErr(c) => {
                        ep.account(ev(*c, AccountEventKind::OrderCancelled(self.cancel_response(*c, false))));
                    }
                    Act::CancelSentWithId(c) => ep.cancel(vec![self.request_cancel_with_id(*c)], false),
                    Act::CancelErrTimeout(c) => {
                        ep.account(ev(*c, AccountEventKind::OrderCancelled(self.cancel_response_with(*c, Some(err_timeout())))));
                    }
                    Act::CancelErrRateLimit(c) => {
                        ep.account(ev(*c, AccountEventKind::OrderCancelled(self.cancel_response_with(*c, Some(err_rate_limit())))));
                    }
                    Act::CancelOkOld(c) => {
                        ep.account(ev(*c, AccountEventKind::OrderCancelled(self.cancel_response_old(*c))));
                    }
                    Act::CancelErrClass(c, k) => {
                        ep.account(ev(*c, AccountEventKind::OrderCancelled(self.cancel_response_with(*c, Some(err_class(*k).0)))));
                    }
                    Act::OpenSentMany(cs) => {
                        ep.open(cs.iter().map(|c| self.request_open(*c)).collect(), true)
                    }
                    Act::CancelSentMany(cs) => {
                        ep.cancel(cs.iter().map(|c| self.request_cancel(*c)).collect(), true)
                    }
                    Act::Full(items) => {
                        // one AccountSnapshot per exchange present in `items` would be the realistic
                        // shape; an exchange's snapshot only lists its own instruments.
                        let mut by_exchange: std::collections::BTreeMap<usize, Vec<(usize, Rep)>> = Default::default();
                        for (c, r) in items {
                            by_exchange.entry(self.home(*c).0.0).or_default().push((*c, *r));
                        }
                        for (x, its) in by_exchange {
                            let mut by_inst: std::collections::BTreeMap<usize, Vec<_>> = Default::default();
                            for (c, r) in its {
                                by_inst.entry(self.home(c).1.0).or_default().push(self.snapshot_order(c, r, &s.cfg));
                            }
                            if self.spread {
                                // the snapshot lists every instrument of the exchange, those without a
                                // report as an entry with no orders
                                for (i, (_, inst_state)) in ep.state().instruments.0.iter().enumerate() {
                                    if inst_state.instrument.exchange == ExchangeIndex(x) {
                                        by_inst.entry(i).or_default();
                                    }
                                }
                            }
                            let snap = AccountSnapshot {
                                exchange: ExchangeIndex(x),
                                balances: vec![],
                                instruments: by_inst
                                    .into_iter()
                                    .map(|(i, orders)| InstrumentAccountSnapshot { instrument: InstrumentIndex(i), orders })
                                    .collect(),
                            };
                            ep.account(AccountEvent { exchange: ExchangeIndex(x), kind: AccountEventKind::Snapshot(snap) });
                        }
                    }
                }
                // what reached the execution links (engine-process models)
                if let Ep::Engine(_, links) = &ep {
                    let mut v = vec![(false, false); self.n_cids];
                    for (_, tx) in &links.txs {
                        for r in tx.as_ref().map(|t| t.take()).unwrap_or_default() {
                            match r {
                                ExecutionRequest::Open(o) => {
                                    if let Ok(c) = self.cid_index(&o.key.cid, o.key.instrument) {
                                        v[c].0 = true;
                                    }
                                }
                                ExecutionRequest::Cancel(o) => {
                                    if let Ok(c) = self.cid_index(&o.key.cid, o.key.instrument) {
                                        v[c].1 = true;
                                    }
                                }
                                ExecutionRequest::Shutdown => {}
                            }
                        }
                    }
                    sent = Some(v);
                }
                for (i, (_, inst_state)) in ep.state().instruments.0.iter().enumerate() {
                    for (k, o) in inst_state.orders.0.iter() {
                        match self.cid_index(k, InstrumentIndex(i)) {
                            Err(true) => complaints.push("order-tracked-under-wrong-instrument".into()),
                            Ok(c) if o.key.cid == *k => {
                                let (p, intact) = self.project(c, o);
                                if !intact {
                                    complaints.push("static-fields-changed".into());
                                }
                                after[c] = Some(p);
                            }
                            _ => complaints.push("unknown-or-mismatched-cid-entry".into()),
                        }
                    }
                }
            }
        }
        (after, complaints, sent)
    }
}

/// Where the engine layer delivers its inputs.
enum Ep {
    /// `EngineState::update_from_account` + its `InFlightRequestRecorder`
    State(Box<EState>),
    /// `Engine::process`: account items as `EngineEvent::Account(Item)`, requests as user commands
    /// (`Command::SendOpenRequests / SendCancelRequests`, execution links healthy)
    Engine(Box<SEngine>, Links),
}
impl Ep {
    fn account(&mut self, ev: AccountEvent) {
        match self {
            Ep::State(s) => {
                let _ = s.update_from_account(&ev);
            }
            Ep::Engine(e, _) => {
                let _ = e.process(EngineEvent::Account(AccountStreamEvent::Item(ev)));
            }
        }
    }
    fn open(&mut self, reqs: Vec<OrderRequestOpen>, batch: bool) {
        match self {
            Ep::State(s) if batch => s.record_in_flight_opens(&reqs),
            Ep::State(s) => s.record_in_flight_open(&reqs[0]),
            Ep::Engine(e, _) => {
                let _ = e.process(EngineEvent::Command(Command::SendOpenRequests(OneOrMany::from_iter(reqs))));
            }
        }
    }
    fn cancel(&mut self, reqs: Vec<OrderRequestCancel>, batch: bool) {
        match self {
            Ep::State(s) if batch => s.record_in_flight_cancels(&reqs),
            Ep::State(s) => s.record_in_flight_cancel(&reqs[0]),
            Ep::Engine(e, _) => {
                let _ = e.process(EngineEvent::Command(Command::SendCancelRequests(OneOrMany::from_iter(reqs))));
            }
        }
    }
    fn state(&self) -> &EState {
        match self {
            Ep::State(s) => s,
            Ep::Engine(e, _) => &e.state,
        }
    }
}

fn err_timeout() -> OrderError {
    OrderError::Connectivity(ConnectivityError::Timeout)
}
fn err_rate_limit() -> OrderError {
    OrderError::Rejected(ApiError::RateLimit)
}
/// further error classes a failed open / failed cancel may carry (every variant of `ConnectivityError` and
/// `ApiError` except 'already cancelled' / 'already fully filled', see `assumptions`)
const ERR_CLASSES: u8 = 5;
fn err_class(k: u8) -> (OrderError, &'static str) {
    match k {
        0 => (OrderError::Connectivity(ConnectivityError::ExchangeOffline(EXCHANGES[0])), "exchange-offline"),
        1 => (OrderError::Connectivity(ConnectivityError::Socket("script".into())), "socket"),
        2 => (OrderError::Rejected(ApiError::BalanceInsufficient(AssetIndex(0), "script".into())), "balance-insufficient"),
        3 => (OrderError::Rejected(ApiError::InstrumentInvalid(InstrumentIndex(0), "script".into())), "instrument-invalid"),
        _ => (OrderError::Rejected(ApiError::AssetInvalid(AssetIndex(0), "script".into())), "asset-invalid"),
    }
}

fn kind_name(p: &Option<Proj>) -> &'static str {
    match p {
        None => "Untracked",
        Some(Proj { kind: Kind::InFlight, .. }) => "OpenInFlight",
        Some(Proj { kind: Kind::Open, .. }) => "Open",
        Some(Proj { kind: Kind::Cancelling, meta: None }) => "CancelInFlight(None)",
        Some(Proj { kind: Kind::Cancelling, meta: Some(_) }) => "CancelInFlight(Some)",
    }
}

/// Abstract name of one per-cid input, for signatures.
fn input_name(i: &In, cfg_c: &[u8; 3], prev: &Option<Proj>) -> String {
    match i {
        In::OpenSent => "OpenSent".into(),
        In::CancelSent => "CancelSent".into(),
        In::CancelOk => "CancelOk".into(),
        In::CancelOkOld => "CancelOk(stamped-earliest)".into(),
        In::CancelErr => "CancelErr".into(),
        In::CancelSentWithId => "CancelSent(with-order-id)".into(),
        In::CancelErrOther(class) => format!("CancelErr({class})"),
        In::Rep(Rep::InFlight) => "Snap(OpenInFlight)".into(),
        In::Rep(Rep::CancelInFlight(None)) => "Snap(CancelInFlight(None))".into(),
        In::Rep(Rep::CancelInFlight(Some(t))) => {
            let rel = match prev.and_then(|p| p.meta) {
                None => "no-held-data",
                Some((t0, _)) if *t < t0 => "older",
                Some((t0, _)) if *t == t0 => "same-time",
                Some(_) => "newer",
            };
            format!("Snap(CancelInFlight(Some),{rel})")
        }
        In::Rep(Rep::Open(t)) => {
            let f = cfg_c[(*t - 1) as usize];
            if f >= QTY {
                return "Snap(Open,remaining=0)".into();
            }
            let rem = "remaining>0";
            let rel = match prev.and_then(|p| p.meta) {
                None => "no-held-data",
                Some((t0, _)) if *t < t0 => "older",
                Some((t0, _)) if *t == t0 => "same-time",
                Some(_) => "newer",
            };
            format!("Snap(Open,{rem},{rel})")
        }
        In::Rep(Rep::Cancelled(_)) => "Snap(Cancelled)".into(),
        In::Rep(Rep::FullyFilled) => "Snap(FullyFilled)".into(),
        In::Rep(Rep::Expired) => "Snap(Expired)".into(),
        In::Rep(Rep::OpenFailed) => "Snap(OpenFailed)".into(),
        In::Rep(Rep::OpenFailedTimeout) => "Snap(OpenFailed,connectivity)".into(),
        In::Rep(Rep::OpenFailedRateLimit) => "Snap(OpenFailed,rate-limit)".into(),
        In::Rep(Rep::OpenFailedClass(k)) => format!("Snap(OpenFailed,{})", err_class(*k).1),
    }
}

#[derive(Debug, Clone, Copy)]
enum In {
    OpenSent,
    CancelSent,
    Rep(Rep),
    CancelOk,
    /// a cancel confirmation stamped older than the held data (same rule R2 as `CancelOk`)
    CancelOkOld,
    CancelErr,
    CancelSentWithId,
    /// a failed cancel of another error class (same rule R3 as `CancelErr`)
    CancelErrOther(&'static str),
}

/// The statement as allowed-successor sets. Returns (rule name, allowed next projections).
fn allowed(prev: &Option<Proj>, input: &In, cfg_c: &[u8; 3]) -> (&'static str, Vec<Option<Proj>>) {
    let some = |kind, meta| Some(Proj { kind, meta });
    match input {
        // R1: tracked when a request for it is sent
        In::OpenSent => ("R1-open-request-sent-tracks", vec![some(Kind::InFlight, None)]),
        // R6: the in-flight recorder never resurrects or drops an id; keeps the confirmed open data
        In::CancelSent | In::CancelSentWithId => match prev {
            None => ("R6-cancel-sent-on-untracked-is-noop", vec![None]),
            Some(p) => ("R6-cancel-sent-marks-cancelling-keeps-open-data", vec![some(Kind::Cancelling, p.meta)]),
        },
        In::Rep(Rep::InFlight) => match prev {
            // statement silent on whether an in-flight *report* starts tracking: both accepted
            None => ("in-flight-report-on-untracked", vec![None, some(Kind::InFlight, None)]),
            Some(p) => ("in-flight-report-changes-nothing", vec![Some(*p)]),
        },
        // A cancel-in-flight *report*: the statement does not say it must change anything, but the
        // order must stay tracked, held data must never move back (R4) and must be delivered data.
        In::Rep(Rep::CancelInFlight(mt)) => {
            let m = mt.map(|t| (t, cfg_c[(t - 1) as usize]));
            match prev {
                None => ("cancel-in-flight-report-on-untracked", vec![None, some(Kind::Cancelling, None), some(Kind::Cancelling, m)]),
                Some(p) => {
                    let mut allow = vec![Some(*p), some(Kind::Cancelling, p.meta)];
                    if let Some((t, _)) = m {
                        if p.meta.is_none_or(|(t0, _)| t >= t0) {
                            allow.push(some(Kind::Cancelling, m));
                        }
                    }
                    ("R4-cancel-in-flight-report-keeps-order-and-never-older-data", allow)
                }
            }
        }
        In::Rep(Rep::Open(t)) => {
            let f = cfg_c[(*t - 1) as usize];
            let m = Some((*t, f));
            if f >= QTY {
                // R2: an 'open' report with nothing left to fill untracks, whatever the state
                return ("R2-open-report-with-nothing-left-untracks", vec![None]);
            }
            match prev {
                None => ("R1-open-report-tracks", vec![some(Kind::Open, m)]),
                Some(Proj { kind: Kind::InFlight, .. }) => ("R1-open-report-confirms-in-flight", vec![some(Kind::Open, m)]),
                Some(Proj { kind: Kind::Open, meta: Some((t0, f0)) }) => {
                    if *t < *t0 {
                        ("R4-held-data-never-moves-back", vec![some(Kind::Open, Some((*t0, *f0)))])
                    } else {
                        ("R4-open-report-keeps-or-replaces", vec![some(Kind::Open, Some((*t0, *f0))), some(Kind::Open, m)])
                    }
                }
                Some(Proj { kind: Kind::Open, meta: None }) => ("R1-open-report-tracks", vec![some(Kind::Open, m)]),
                Some(Proj { kind: Kind::Cancelling, meta: None }) => {
                    ("R3-open-report-while-cancelling-becomes-confirmed-data", vec![some(Kind::Cancelling, m)])
                }
                Some(Proj { kind: Kind::Cancelling, meta: Some((t0, f0)) }) => {
                    if *t < *t0 {
                        ("R4-held-data-never-moves-back", vec![some(Kind::Cancelling, Some((*t0, *f0)))])
                    } else {
                        ("R4-open-report-keeps-or-replaces", vec![some(Kind::Cancelling, Some((*t0, *f0))), some(Kind::Cancelling, m)])
                    }
                }
            }
        }
        // R2: cancelled / fully filled / expired / failed report untracks
        In::Rep(Rep::Cancelled(_)) | In::Rep(Rep::FullyFilled) | In::Rep(Rep::Expired) | In::Rep(Rep::OpenFailed) | In::Rep(Rep::OpenFailedTimeout) | In::Rep(Rep::OpenFailedRateLimit) | In::Rep(Rep::OpenFailedClass(_)) => {
            ("R2-terminal-report-untracks", vec![None])
        }
        // R2: a confirmed cancel untracks
        In::CancelOk | In::CancelOkOld => ("R2-cancel-confirmation-untracks", vec![None]),
        // R3: a failed cancel restores the last exchange-confirmed open state
        In::CancelErr | In::CancelErrOther(_) => match prev {
            Some(Proj { kind: Kind::Cancelling, meta: Some(m) }) => ("R3-failed-cancel-restores-confirmed-open", vec![some(Kind::Open, Some(*m))]),
            // nothing confirmed yet: untrack (what the unit tests document) or back to in flight
            Some(Proj { kind: Kind::Cancelling, meta: None }) => ("R3-failed-cancel-without-confirmed-data", vec![None, some(Kind::InFlight, None)]),
            other => ("R3-failed-cancel-changes-nothing-otherwise", vec![*other]),
        },
    }
}

impl Model for M {
    type State = St;
    type Action = Act;

    fn init(&self) -> Vec<St> {
        self.timelines.iter().map(|cfg| St { cfg: cfg.clone(), orders: vec![None; self.n_cids] }).collect()
    }

    fn actions(&self, s: &St) -> Vec<Act> {
        let mut v = Vec::new();
        for c in 0..self.n_cids {
            if s.orders[c].is_none() {
                v.push(Act::OpenSent(c));
            }
            v.push(Act::CancelSent(c));
            v.push(Act::Snap(c, Rep::InFlight));
            v.push(Act::Snap(c, Rep::CancelInFlight(None)));
            for t in [1u8, 3u8] {
                if s.cfg[c][(t - 1) as usize] < QTY {
                    v.push(Act::Snap(c, Rep::CancelInFlight(Some(t))));
                }
            }
            for t in 1..=3u8 {
                v.push(Act::Snap(c, Rep::Open(t)));
            }
            v.push(Act::Snap(c, Rep::Cancelled(1)));
            v.push(Act::Snap(c, Rep::Cancelled(3)));
            v.push(Act::Snap(c, Rep::FullyFilled));
            v.push(Act::Snap(c, Rep::Expired));
            v.push(Act::Snap(c, Rep::OpenFailed));
            v.push(Act::CancelOk(c));
            v.push(Act::CancelErr(c));
            v.push(Act::CancelSentWithId(c));
            v.push(Act::Snap(c, Rep::OpenFailedTimeout));
            v.push(Act::Snap(c, Rep::OpenFailedRateLimit));
            v.push(Act::CancelErrTimeout(c));
            v.push(Act::CancelErrRateLimit(c));
            v.push(Act::CancelOkOld(c));
            for k in 0..ERR_CLASSES {
                v.push(Act::Snap(c, Rep::OpenFailedClass(k)));
                v.push(Act::CancelErrClass(c, k));
            }
        }
        // the batch recorders, two requests in both orders
        for c1 in 0..self.n_cids {
            for c2 in 0..self.n_cids {
                if c1 != c2 {
                    v.push(Act::CancelSentMany(vec![c1, c2]));
                    if s.orders[c1].is_none() && s.orders[c2].is_none() {
                        v.push(Act::OpenSentMany(vec![c1, c2]));
                    }
                }
            }
        }
        if self.layer == Layer::Engine {
            let mini = [Rep::Open(1), Rep::Open(3), Rep::FullyFilled];
            for c in 0..self.n_cids {
                for r in mini {
                    v.push(Act::Full(vec![(c, r)]));
                }
            }
            for c1 in 0..self.n_cids {
                for c2 in (c1 + 1)..self.n_cids {
                    for r1 in mini {
                        for r2 in mini {
                            v.push(Act::Full(vec![(c1, r1), (c2, r2)]));
                        }
                    }
                }
            }
        }
        v
    }

    fn step(&self, s: &St, a: &Act, out: &mut Vec<Viol>) -> Option<St> {
        let layer = match self.layer {
            Layer::Orders => "orders",
            Layer::Engine if self.process.is_some() => "engine-process",
            Layer::Engine => "engine",
        };
        // a panic of the code under test on an input of the quantifier is a violation (reported once
        // per kind of input), not a machinery failure
        let Ok((after, complaints, sent)) = crate::core::guarded(|| self.execute(s, a)) else {
            let kind = match a {
                Act::OpenSent(_) | Act::OpenSentMany(_) => "open-sent",
                Act::CancelSent(_) | Act::CancelSentWithId(_) | Act::CancelSentMany(_) => "cancel-sent",
                Act::Snap(..) => "order-snapshot",
                Act::CancelOk(_) | Act::CancelErr(_) | Act::CancelErrTimeout(_) | Act::CancelErrRateLimit(_) | Act::CancelOkOld(_) | Act::CancelErrClass(..) => "cancel-response",
                Act::Full(_) => "full-snapshot",
            };
            out.push((format!("C01/{layer}/panic/{kind}"), format!("state={:?} action={a:?}: the code under test panicked", s.orders)));
            return None;
        };
        for c in complaints {
            out.push((format!("C01/{layer}/structure/{c}"), format!("state={:?} action={a:?}", s.orders)));
        }
        // per-cid inputs carried by this action
        let inputs: Vec<(usize, In)> = match a {
            Act::OpenSent(c) => vec![(*c, In::OpenSent)],
            Act::CancelSent(c) => vec![(*c, In::CancelSent)],
            Act::Snap(c, r) => vec![(*c, In::Rep(*r))],
            Act::CancelOk(c) => vec![(*c, In::CancelOk)],
            Act::CancelErr(c) => vec![(*c, In::CancelErr)],
            Act::Full(items) => items.iter().map(|(c, r)| (*c, In::Rep(*r))).collect(),
            Act::CancelSentWithId(c) => vec![(*c, In::CancelSentWithId)],
            Act::CancelErrTimeout(c) => vec![(*c, In::CancelErrOther("connectivity"))],
            Act::CancelErrRateLimit(c) => vec![(*c, In::CancelErrOther("rate-limit"))],
            Act::CancelOkOld(c) => vec![(*c, In::CancelOkOld)],
            Act::CancelErrClass(c, k) => vec![(*c, In::CancelErrOther(err_class(*k).1))],
            Act::OpenSentMany(cs) => cs.iter().map(|c| (*c, In::OpenSent)).collect(),
            Act::CancelSentMany(cs) => cs.iter().map(|c| (*c, In::CancelSent)).collect(),
        };
        let via = match a {
            Act::Full(_) => "full-snapshot",
            Act::OpenSentMany(_) | Act::CancelSentMany(_) => "batch",
            _ => "single",
        };
        let mut input_of: Vec<Option<&In>> = vec![None; self.n_cids];
        for (ic, input) in inputs.iter().rev() {
            input_of[*ic] = Some(input); // the first entry for a cid wins, as before
        }
        for c in 0..self.n_cids {
            match input_of[c] {
                Some(input) => {
                    let (mut rule, mut allow) = allowed(&s.orders[c], input, &s.cfg[c]);
                    // engine-process models: the input was a user COMMAND to send a request. The statement speaks
                    // about requests that are SENT ("becomes tracked when a request for it is sent"): if the engine
                    // did not deliver the request to any execution link (it refused the command's request), no
                    // request was sent for this order and its entry has to stay as it was.
                    if let Some(sent) = &sent {
                        let delivered = match input {
                            In::OpenSent => sent[c].0,
                            In::CancelSent | In::CancelSentWithId => sent[c].1,
                            _ => true,
                        };
                        if !delivered {
                            rule = "request-not-sent-changes-nothing";
                            allow = vec![s.orders[c]];
                        }
                    }
                    if !allow.contains(&after[c]) {
                        let how = match (&after[c], allow.first()) {
                            (Some(g), Some(Some(w))) if g.kind == w.kind => "wrong-held-data".to_string(),
                            _ => format!("got={}", kind_name(&after[c])),
                        };
                        out.push((
                            format!(
                                "C01/{layer}/{rule}/{via}/({},{})/{how}",
                                kind_name(&s.orders[c]),
                                input_name(input, &s.cfg[c], &s.orders[c])
                            ),
                            format!(
                                "cid=c{c} timeline={:?} before={:?} action={a:?} after={:?} allowed={:?}",
                                s.cfg[c], s.orders[c], after[c], allow
                            ),
                        ));
                    }
                }
                None => {
                    // R5: reports about one order never change another (nor another instrument)
                    if after[c] != s.orders[c] {
                        out.push((
                            format!("C01/{layer}/R5-other-order-untouched/{via}/{}->{}", kind_name(&s.orders[c]), kind_name(&after[c])),
                            format!("cid=c{c} not addressed by action={a:?} but changed: before={:?} after={:?}", s.orders[c], after[c]),
                        ));
                    }
                }
            }
        }
        // continue from the implementation's state; an `Open` without data cannot be rebuilt -> prune
        if after.iter().any(|p| matches!(p, Some(Proj { kind: Kind::Open, meta: None }))) {
            return None;
        }
        // held data with a fill level outside the alphabet cannot be rebuilt faithfully -> report+prune
        if after.iter().any(|p| matches!(p, Some(Proj { meta: Some((t, f)), .. }) if *t == 0 || *t > 3 || *f > QTY)) {
            out.push((format!("C01/{layer}/structure/held-data-not-a-delivered-report"), format!("after={after:?} action={a:?}")));
            return None;
        }
        Some(St { cfg: s.cfg.clone(), orders: after })
    }

    fn impl_hash(&self, s: &St) -> Option<u64> {
        Some(hash_of(&s.orders))
    }
}

fn models(ctx: &Ctx) -> Vec<(String, M, Option<usize>)> {
    let all = all_timelines();
    let few: Vec<[u8; 3]> = vec![[0, 0, 0], [0, 1, 2], [1, 1, 2], [0, 2, 2]];
    let two: Vec<[u8; 3]> = vec![[0, 1, 1], [1, 2, 2]];
    let mut v = Vec::new();
    v.push(("orders/2cids/all-timelines".to_string(), M::new(Layer::Orders, &[all.clone(), all.clone()]), None));
    match ctx.tier {
        crate::core::Tier::Quick => {
            v.push(("engine/3cids/rep-timelines".to_string(), M::new(Layer::Engine, &[all.clone(), few.clone(), two.clone()]), None));
            v.push(("engine-spread/3cids/few-timelines".to_string(), M::new(Layer::Engine, &[few.clone(), few.clone(), two.clone()]).spread().shared_cid(), None));
            v.push(("engine-process/trading=disabled/3cids/two-timelines".to_string(), M::new(Layer::Engine, &[few.clone(), two.clone(), two.clone()]).process(TradingState::Disabled).shared_cid(), None));
        }
        crate::core::Tier::Thorough => {
            v.push(("orders/3cids/rep-timelines".to_string(), M::new(Layer::Orders, &[all.clone(), few.clone(), few.clone()]), None));
            v.push(("engine/3cids/all-timelines".to_string(), M::new(Layer::Engine, &[all.clone(), all.clone(), all.clone()]), None));
            v.push(("engine-spread/3cids/rep-timelines".to_string(), M::new(Layer::Engine, &[all.clone(), few.clone(), few.clone()]).spread().shared_cid(), None));
            v.push(("engine-process/trading=disabled/3cids/rep-timelines".to_string(), M::new(Layer::Engine, &[all.clone(), few.clone(), two.clone()]).process(TradingState::Disabled).shared_cid(), None));
            v.push(("engine-process/trading=enabled/spread/3cids/few-timelines".to_string(), M::new(Layer::Engine, &[few.clone(), few.clone(), two.clone()]).spread().process(TradingState::Enabled).shared_cid(), None));
        }
    }
    v
}

// ------------------------------------------------------------------------------------------------
// long-input layer: MANY concurrent orders in one table
// ------------------------------------------------------------------------------------------------
//
// The statement quantifies over "several concurrent order ids" without a bound; the BFS models hold at most
// three. This layer walks the SAME model (same `step`, same oracle) with hundreds / thousands of orders along
// scripted paths, so that a table size, a batch length or a snapshot length at which tracking silently
// stops (a cap, a page size, a fixed-size buffer) is reached:
//  * grow-and-shrink: OpenSent(c) for c = 0..n (every table size 1..=n is passed; each new order is then left in
//    flight / confirmed open / confirmed + cancel requested / cancel requested, by c mod 4), a failed cancel
//    for every order of the third kind (all restored to their open data), then one terminal input per order
//    (cancelled / fully filled / expired / failed / cancel confirmed / open with nothing left, by c mod 6)
//    until the table is empty - after every step ALL n entries are compared (R5);
//  * batches: for every k of `batch_sizes` from the empty table: `record_in_flight_opens` of k requests, a full
//    account snapshot reporting all k open (engine layers), `record_in_flight_cancels` of k requests, a full
//    snapshot reporting all k fully filled (engine layers; single reports on the `Orders` layer).
// In the engine layers orders 0,1 live on instrument 1 and all others on instrument 2.

fn long_n(tier: crate::core::Tier) -> usize {
    tier.pick(1100, 4200)
}

fn long_models(tier: crate::core::Tier) -> Vec<(String, M)> {
    let n = long_n(tier);
    let tl = vec![vec![[0u8, 1, 2]]; n];
    vec![
        (format!("long/orders/{n}cids"), M::new(Layer::Orders, &tl)),
        (format!("long/engine/{n}cids"), M::new(Layer::Engine, &tl)),
        (format!("long/engine-process/trading=disabled/{n}cids"), M::new(Layer::Engine, &tl).process(TradingState::Disabled)),
    ]
}

/// every k <= 130, then k around every power of two and of ten up to n, and n itself
fn batch_sizes(n: usize) -> Vec<usize> {
    let mut v: Vec<usize> = (1..=130.min(n)).collect();
    let mut p = 256usize;
    while p <= n + 1 {
        v.extend([p - 1, p, p + 1]);
        p *= 2;
    }
    let mut p = 1000usize;
    while p <= n + 1 {
        v.extend([p - 1, p, p + 1]);
        p *= 10;
    }
    v.push(n);
    v.retain(|k| *k >= 1 && *k <= n);
    v.sort();
    v.dedup();
    v
}

fn long_paths(m: &M) -> Vec<Vec<Act>> {
    let n = m.n_cids;
    let mut paths = Vec::new();
    // grow and shrink
    let mut p = Vec::new();
    for c in 0..n {
        p.push(Act::OpenSent(c));
        match c % 4 {
            1 => p.push(Act::Snap(c, Rep::Open(1))),
            2 => {
                p.push(Act::Snap(c, Rep::Open(1)));
                p.push(Act::CancelSent(c));
            }
            3 => p.push(Act::CancelSent(c)),
            _ => {}
        }
    }
    for c in (0..n).filter(|c| c % 4 == 2) {
        p.push(Act::CancelErr(c));
    }
    for c in 0..n {
        p.push(match c % 6 {
            0 => Act::Snap(c, Rep::Cancelled(3)),
            1 => Act::Snap(c, Rep::FullyFilled),
            2 => Act::Snap(c, Rep::Expired),
            3 => Act::Snap(c, Rep::OpenFailed),
            4 => Act::CancelOk(c),
            _ => Act::Snap(c, Rep::Open(3)), // timeline [0,1,2]: nothing left to fill at instant 3
        });
    }
    paths.push(p);
    // batches
    for k in batch_sizes(n) {
        let all: Vec<usize> = (0..k).collect();
        let mut p = vec![Act::OpenSentMany(all.clone())];
        if m.layer == Layer::Engine {
            p.push(Act::Full(all.iter().map(|c| (*c, Rep::Open(1))).collect()));
        }
        p.push(Act::CancelSentMany(all.clone()));
        if m.layer == Layer::Engine {
            p.push(Act::Full(all.iter().map(|c| (*c, Rep::FullyFilled)).collect()));
        }
        paths.push(p);
    }
    paths
}

/// Walk every path of every long model; returns (per-model evidence, total steps).
fn long_layer(ctx: &Ctx) -> (Vec<Value>, u64) {
    use rayon::prelude::*;
    let mut parts = Vec::new();
    let mut total = 0u64;
    let models = long_models(ctx.tier);
    let all_paths: Vec<Vec<Vec<Act>>> = models.iter().map(|(_, m)| long_paths(m)).collect();
    // every path of every model on its own (deterministic: results are merged in model / path order);
    // the long grow-and-shrink paths are scheduled first
    let mut jobs: Vec<(usize, usize)> = Vec::new();
    for (mi, ps) in all_paths.iter().enumerate() {
        for pi in 0..ps.len() {
            jobs.push((mi, pi));
        }
    }
    jobs.sort_by_key(|(mi, pi)| (std::cmp::Reverse(all_paths[*mi][*pi].len()), *mi, *pi));
    let mut done: std::collections::HashMap<(usize, usize), (u64, usize, Vec<(String, String, usize)>)> = jobs
        .par_iter()
        .map(|(mi, pi)| {
            let m = &models[*mi].1;
            let path = &all_paths[*mi][*pi];
            ((*mi, *pi), {
                let mut s = m.init().remove(0);
                let (mut steps, mut peak, mut viols) = (0u64, 0usize, Vec::new());
                for (i, a) in path.iter().enumerate() {
                    let mut out = Vec::new();
                    let next = m.step(&s, a, &mut out);
                    steps += 1;
                    for (sig, detail) in out {
                        viols.push((sig, detail, i));
                    }
                    match next {
                        Some(ns) => s = ns,
                        None => break,
                    }
                    peak = peak.max(s.orders.iter().filter(|o| o.is_some()).count());
                }
                (steps, peak, viols)
            })
        })
        .collect();
    for (mi, (label, m)) in models.iter().enumerate() {
        let paths = &all_paths[mi];
        let results: Vec<_> = (0..paths.len()).map(|pi| done.remove(&(mi, pi)).unwrap()).collect();
        let mut seen = std::collections::HashSet::new();
        let (mut steps, mut peak) = (0u64, 0usize);
        for (path, (st, pk, viols)) in paths.iter().zip(results) {
            steps += st;
            peak = peak.max(pk);
            for (sig, detail, i) in viols {
                if seen.insert(sig.clone()) {
                    ctx.violate(sig, detail, json!({"engine": "bfs", "label": label, "init": 0, "path": &path[..=i]}));
                } else {
                    ctx.violations.bump(&sig);
                }
            }
        }
        if peak != m.n_cids {
            // on a tree where the property holds the table reaches n entries; fewer on a clean run = harness defect
            if seen.is_empty() {
                eprintln!("MACHINERY: C01 {label}: peak table size {peak} != {}", m.n_cids);
                std::process::exit(2);
            }
        }
        total += steps;
        parts.push(json!({"model": label, "orders": m.n_cids, "paths": paths.len(), "steps": steps, "peak_tracked_orders": peak,
            "batch_sizes": batch_sizes(m.n_cids).len(), "largest_batch": m.n_cids}));
    }
    (parts, total)
}

pub fn run(ctx: &Ctx) -> Outcome {
    let mut parts = Vec::new();
    let (mut states, mut transitions, mut max_depth, mut impl_states) = (0usize, 0u64, 0usize, 0usize);
    let mut samples = Vec::new();
    // the long-input layer (dominated by one sequential path per model) runs beside the BFS models; the
    // collector keeps the smallest case per signature, so the outcome does not depend on the interleaving
    let (bfs_stats, (long_parts, long_steps)) = rayon::join(
        || models(ctx).into_iter().map(|(label, m, depth)| { let st = bfs::run(ctx, &m, &label, depth, 20_000_000); (label, m, st) }).collect::<Vec<_>>(),
        || long_layer(ctx),
    );
    for (label, m, st) in bfs_stats {
        if !st.fixpoint {
            eprintln!("MACHINERY: C01 BFS {label} did not reach its fixpoint (capped={})", st.capped);
            std::process::exit(2);
        }
        states += st.states;
        transitions += st.transitions;
        max_depth = max_depth.max(st.max_depth);
        impl_states += st.distinct_impl_states;
        parts.push(json!({"model": label, "spread_over_instruments": m.spread, "entry_point": match (m.layer, m.process) { (Layer::Orders, _) => "Orders", (_, None) => "EngineState::update_from_account + InFlightRequestRecorder", (_, Some(_)) => "Engine::process (account items, SendOpenRequests / SendCancelRequests commands)" }, "initial_configurations": m.timelines.len(), "states": st.states, "transitions": st.transitions,
            "max_depth": st.max_depth, "fixpoint": st.fixpoint, "distinct_impl_states": st.distinct_impl_states,
            "steps_with_oracle_violation": st.oracle_violation_steps}));
        samples.extend(st.samples);
    }
    Outcome {
        level: "model_checking",
        coverage: json!({
            "states": states,
            "transitions": transitions,
            "traces_validated_against_impl": transitions,
            "max_depth": max_depth,
            "fixpoint_reached": true,
            "exhaustive": true,
            "distinct_impl_states": impl_states,
            "models": parts,
            "long_input_layer": {"steps_validated_against_impl": long_steps, "models": long_parts,
                "rule": "the same model / oracle walked along scripted paths with n concurrent orders: grow one order at a time to n (every table size), mixed lifecycle states, failed cancels, one terminal input per order; batch recorders and full snapshots of every size k <= 130 and around powers of two / ten up to n; all n entries compared after every step"},
            "samples": samples,
            "rule": "BFS to fixpoint; every transition rebuilds the real Orders / EngineState from the canonical snapshot, applies one input through the public API and compares the per-cid projection with the allowed-successor set of the statement; all inputs offered in every state",
        }),
        assumptions: vec![
            "client order ids are unique per order (OpenSent only offered while the id is untracked)".into(),
            "engine-process models: 'request sent' is observed on the execution links; a request named by a SendOpenRequests / SendCancelRequests command that the engine does not deliver to a link was not sent, and the order's entry must then stay unchanged".into(),
            "exchange reports of one order follow a consistent timeline: fill level non-decreasing in exchange time (all 10 timelines over three instants +1 s, +1 s + 1 ns, +2.5 s; filled quantity in {0, 0.6 (even ids) / 0.999999999999 (odd ids), 1} of quantity 1); any report may be delivered late, repeatedly, out of order".into(),
            "failed cancels / failed opens are offered with every ConnectivityError and ApiError variant (timeout, exchange offline, socket; order rejected, rate limit, balance insufficient, instrument / asset invalid) except 'order already cancelled / already fully filled', which are not offered (the statement does not distinguish them, an implementation might reasonably)".into(),
            "cancel confirmations are offered stamped with the latest and with the earliest exchange instant (a late confirmation is a confirmation)".into(),
            "even ids are limit / good-until-cancelled orders, odd ids market / immediate-or-cancel orders: the lifecycle does not depend on an order's terms".into(),
            "long-input layer: up to 1100 (thorough 4200) concurrent orders on scripted paths (not a BFS): every table size, batches / full snapshots of every size <= 130 and around powers of two / ten".into(),
            "client order ids are unique per instrument: in the engine-spread and engine-process models order c2 (instrument 2, exchange 1) carries the same id string as order c0; an order is identified by instrument + client order id".into(),
            "CancelInFlight order snapshots are in the alphabet with a permissive oracle (order stays tracked, held data never older, nothing else required)".into(),
        ],
    }
}

pub fn replay(ctx: &Ctx, case: &Value) {
    let label = case["label"].as_str().unwrap_or("");
    if label.starts_with("long/") {
        for tier in [crate::core::Tier::Quick, crate::core::Tier::Thorough] {
            for (l, m) in long_models(tier) {
                if l == label {
                    for (sig, detail) in bfs::replay(&m, case) {
                        ctx.violate(sig, detail, case.clone());
                    }
                    return;
                }
            }
        }
    }
    // rebuild the model with the same initial configurations (both tiers' models are tried)
    for tier in [crate::core::Tier::Quick, crate::core::Tier::Thorough] {
        let c2 = Ctx::new(&ctx.prop, tier, ctx.seed);
        for (l, m, _) in models(&c2) {
            if l == label {
                for (sig, detail) in bfs::replay(&m, case) {
                    ctx.violate(sig, detail, case.clone());
                }
                return;
            }
        }
    }
    eprintln!("MACHINERY: unknown model label {label}");
    std::process::exit(2);
}
