//! C13 — Market-data messages are attributed to the subscribed instrument, or rejected.
//!
//! Engine: E-SEQ over *configurations*. For each of the 21 (connector, subscription kind) arms of
//! `DynamicStreams::init` and for four instrument flavours
//!   * `keyed`  = `Keyed<u32, MarketDataInstrument>`   (market derived from base/quote/kind),
//!   * `named`  = `MarketInstrumentData<u32>`           (exchange name verbatim – the engine's path),
//!   * `plain`  = `MarketDataInstrument`                (key = the instrument itself),
//!   * `indexed`= `MarketInstrumentData<InstrumentIndex>` produced by the real
//!                `generate_indexed_market_data_subscription_batches` from real `IndexedInstruments`,
//! and for every ordered instrument set drawn from a per-connector menu (mixed-case names, digits,
//! similar prefixes, same-concatenation pairs, several expiries / strikes) the REAL code is run:
//! `WebSocketSubMapper::map::<Exchange,_,_>` -> (Bitfinex only: real
//! `BitfinexWebSocketSubValidator::validate` against a scripted Bitfinex on loopback TCP) ->
//! `ExchangeTransformer::init` of the transformer type the connector's `StreamSelector` names ->
//! for every market of the venue universe (subscribed or not) synthesised payloads ->
//! `serde_json::from_str::<Transformer::Input>` -> `Transformer::transform`.
//!
//! Message side: payload templates and the venue's way of writing a market are taken from the raw
//! payload examples in the connectors' doc comments / unit-test fixtures (`venue_symbol`, `make_msgs`),
//! never from the mapper.
//!
//! Oracle (from the statement):
//!   R1 a message for a market with >=1 subscribed instrument yields exactly the payload's n events, all Ok;
//!   R2 every event carries the key of an instrument subscribed under that market (if two subscribed
//!      instruments share the market either is accepted – the statement cannot separate them);
//!   R3 `exchange == Connector::ID`;
//!   R4 price / amount / side / exchange time equal the payload's (a signed or an absolute amount is
//!      accepted where the venue encodes the side in the sign; any time stamp the message carries);
//!   R5 a message for a market nobody subscribed yields only `Err`s that denote an unidentifiable
//!      subscription – never an event, never silence.
//! Soundness round: the ORDER in which the events of one batch payload come out is free on every way; an error is the
//! unidentifiable-subscription error if it IS the library's `SocketError::Unidentifiable` (as `DataError`) for some
//! id - whatever its wording - or says so in words (`denotes_unidentifiable`); the `indexed-keyed` flavour pairs the
//! helper's output with the menu by the instrument named, not by position / count; the venue model of the request
//! side reads both spellings Coinbase documents (product ids at the top level or per channel object).
//! Added by the hardening rounds: a fifth flavour `indexed-keyed` (`Keyed<InstrumentIndex, MarketDataInstrument>`
//! from the real `index_market_data_subscription_batches`; R2 also demands that the index it assigns is the index of
//! the instrument the user named); the `dynamic` way in (real `validate_batches` before the mapper); R4 also judges
//! the L1 `last_update_time` and the event after the real conversion into `MarketEvent<_, DataKind>`; values that are
//! not exactly representable in binary.
//! Second hardening round:
//!   * three WAYS a payload reaches the transformer (`PATHS`): `direct` (`serde_json::from_str::<Input>` + `transform`),
//!     `exchange-stream` (a text frame through the real `ExchangeStream<WebSocketParser, _, Transformer>` - the stream the
//!     consumer polls) and `buffered` (the real `process_buffered_events`, the way of a message that arrived while the
//!     subscriptions were still being validated). R1-R5 hold for every way; the two further ways are judged where the
//!     direct way is clean for the configuration, under their own signatures (`C13/via-<way>/<rule>/<cause>`).
//!   * R1 also looks at the SUBSCRIBE REQUESTS the mapper produced (until now only Bitfinex's scripted venue read
//!     them): a venue streams the markets it was asked for, so every subscribed instrument's venue market must be named
//!     in a request, in the spelling the venue's request format uses (`requested_markets`).
//!   * one-sided top of book (`"0.00000000"` price and quantity on one side) as an L1 value class.

use crate::core::{Ctx, Distinct, Outcome, Samples, hash_of};
use barter_data::{
    Identifier,
    books::OrderBook,
    event::{DataKind, MarketEvent},
    exchange::{
        Connector, StreamSelector,
        binance::{book::l2::BinanceOrderBookL2Snapshot, futures::BinanceFuturesUsd, spot::BinanceSpot},
        bitfinex::{Bitfinex, validator::BitfinexWebSocketSubValidator},
        bitmex::Bitmex,
        bybit::{futures::BybitPerpetualsUsd, spot::BybitSpot},
        coinbase::Coinbase,
        gateio::{
            future::{GateioFuturesBtc, GateioFuturesUsd},
            option::GateioOptions,
            perpetual::{GateioPerpetualsBtc, GateioPerpetualsUsd},
            spot::GateioSpot,
        },
        kraken::Kraken,
        okx::Okx,
    },
    instrument::{InstrumentData, MarketInstrumentData},
    subscriber::{
        mapper::{SubscriptionMapper, WebSocketSubMapper},
        validator::SubscriptionValidator,
    },
    streams::builder::dynamic::{
        indexed::{generate_indexed_market_data_subscription_batches, index_market_data_subscription_batches},
        validate_batches,
    },
    subscription::{
        Map, SubKind, Subscription, SubscriptionKind, SubscriptionMeta,
        book::{OrderBookEvent, OrderBookL1, OrderBooksL1, OrderBooksL2},
        exchange_supports_instrument_kind_sub_kind,
        liquidation::{Liquidation, Liquidations},
        trade::{PublicTrade, PublicTrades},
    },
    transformer::ExchangeTransformer,
};
use barter_instrument::{
    Keyed, Side, Underlying,
    asset::Asset,
    exchange::ExchangeId,
    index::IndexedInstruments,
    instrument::{
        Instrument, InstrumentIndex,
        kind::{
            InstrumentKind,
            future::FutureContract,
            option::{OptionContract, OptionExercise, OptionKind},
            perpetual::PerpetualContract,
        },
        market_data::{
            MarketDataInstrument,
            kind::{MarketDataFutureContract, MarketDataInstrumentKind, MarketDataOptionContract},
        },
        name::{InstrumentNameExchange, InstrumentNameInternal},
        quote::InstrumentQuoteAsset,
    },
};
use barter_integration::{
    Transformer,
    protocol::{
        StreamParser,
        websocket::{WebSocketParser, WsError, WsMessage},
    },
    stream::ExchangeStream,
};
use chrono::{DateTime, SecondsFormat, TimeZone, Utc};
use futures::{SinkExt, Stream, StreamExt};
use rayon::prelude::*;
use rust_decimal::{Decimal, prelude::ToPrimitive};
use serde_json::{Value, json};
use std::{
    collections::{BTreeMap, BTreeSet, VecDeque},
    fmt::Debug,
    panic::{AssertUnwindSafe, catch_unwind},
    sync::{
        Mutex,
        atomic::{AtomicU64, Ordering::Relaxed},
    },
};

// ------------------------------------------------------------------------------------------------
// Alphabet: connectors, kinds, instrument menus
// ------------------------------------------------------------------------------------------------

/// Connector families (one message format / one `*_market` function each).
#[derive(Clone, Copy, Debug, PartialEq, Eq, PartialOrd, Ord)]
enum Fam {
    Binance,
    Bitfinex,
    Bitmex,
    Bybit,
    Coinbase,
    Gateio,
    Kraken,
    Okx,
}

#[derive(Clone, Copy, Debug, PartialEq, Eq)]
enum SK {
    Trades,
    L1,
    L2,
    Liq,
}
impl SK {
    fn sub_kind(self) -> SubKind {
        match self {
            SK::Trades => SubKind::PublicTrades,
            SK::L1 => SubKind::OrderBooksL1,
            SK::L2 => SubKind::OrderBooksL2,
            SK::Liq => SubKind::Liquidations,
        }
    }
}

/// Instrument kind of a menu entry. Dates are yyyymmdd.
#[derive(Clone, Copy, Debug, PartialEq, Eq)]
enum IK {
    Spot,
    Perp,
    Fut(u32),
    /// (expiry, strike, is_call)
    Opt(u32, u32, bool),
}
impl IK {
    fn tag(&self) -> &'static str {
        match self {
            IK::Spot => "spot",
            IK::Perp => "perpetual",
            IK::Fut(_) => "future",
            IK::Opt(..) => "option",
        }
    }
    fn real(&self) -> MarketDataInstrumentKind {
        match *self {
            IK::Spot => MarketDataInstrumentKind::Spot,
            IK::Perp => MarketDataInstrumentKind::Perpetual,
            IK::Fut(d) => MarketDataInstrumentKind::Future(MarketDataFutureContract { expiry: ymd(d) }),
            IK::Opt(d, strike, call) => MarketDataInstrumentKind::Option(MarketDataOptionContract {
                kind: if call { OptionKind::Call } else { OptionKind::Put },
                exercise: OptionExercise::European,
                expiry: ymd(d),
                // the strike 6500 is written as `6500.0` (a Decimal of scale 1, numerically equal to 6500): the
                // venue names the contract by the number, not by how the user happened to write it
                strike: if strike == 6500 || (strike == 35000 && !call) { Decimal::new(strike as i64 * 10, 1) } else { Decimal::from(strike) },
            }),
        }
    }
}
/// The expiry instant a user writes for contract date `d`: the venue names a dated contract by its UTC
/// calendar date whatever the time of day, so the menu uses late-evening times for odd days and
/// just-after-midnight times for even days (a connector that derives the date in another time zone, or
/// rounds, then names the wrong contract).
fn ymd(d: u32) -> DateTime<Utc> {
    let (h, m) = if (d % 100) % 2 == 1 { (22, 30) } else { (1, 15) };
    Utc.with_ymd_and_hms((d / 10000) as i32, (d / 100) % 100, d % 100, h, m, 0).unwrap()
}

/// One menu instrument as the *user* writes it (base / quote may be mixed case).
#[derive(Clone, Copy, Debug)]
struct MI {
    base: &'static str,
    quote: &'static str,
    kind: IK,
}
const fn mi(base: &'static str, quote: &'static str, kind: IK) -> MI {
    MI { base, quote, kind }
}

/// The pairs every single-kind connector is exercised with: plain, mixed case, shared prefix, digits in the
/// middle / at the start, two pairs with the same concatenation (eth/btc vs ethb/tc), xbt naming, a reversed pair.
const PAIRS: [(&str, &str); 9] = [
    ("btc", "usdt"),
    ("BTC", "usdt"),
    ("btc", "usd"),
    ("btc2", "usdt"),
    ("1inch", "usdt"),
    ("eth", "btc"),
    ("ethb", "tc"),
    ("xbt", "usd"),
    ("usdt", "btc"),
];
fn pairs_menu(kind: IK) -> Vec<MI> {
    PAIRS.iter().map(|(b, q)| mi(b, q, kind)).collect()
}
/// 2020-12-25 is the expiry used in the Gate.io doc comment; 2027-01-01 is a Friday whose ISO week-year (2026)
/// differs from its calendar year; 2024-12-30 is a Monday whose ISO week-year is 2025.
fn gateio_future_menu() -> Vec<MI> {
    vec![
        mi("btc", "usdt", IK::Fut(20201225)),
        mi("BTC", "usdt", IK::Fut(20201225)),
        mi("btc", "usdt", IK::Fut(20270101)),
        mi("btc", "usd", IK::Fut(20201225)),
        mi("eth", "usdt", IK::Fut(20201225)),
        mi("eth", "usdt", IK::Fut(20270101)),
        mi("1inch", "usdt", IK::Fut(20270101)),
        mi("btc2", "usdt", IK::Fut(20201225)),
    ]
}
fn gateio_option_menu() -> Vec<MI> {
    vec![
        mi("btc", "usdt", IK::Opt(20211130, 65000, true)),
        mi("BTC", "usdt", IK::Opt(20211130, 65000, true)),
        mi("btc", "usdt", IK::Opt(20211130, 65000, false)),
        mi("btc", "usdt", IK::Opt(20241230, 65000, true)),
        mi("btc", "usdt", IK::Opt(20211130, 6500, true)),
        mi("eth", "usdt", IK::Opt(20211130, 65000, true)),
        mi("btc", "usd", IK::Opt(20211130, 65000, true)),
    ]
}
fn okx_menu() -> Vec<MI> {
    vec![
        mi("btc", "usdt", IK::Spot),
        mi("BTC", "usdt", IK::Spot),
        mi("btc", "usdt", IK::Perp),
        mi("btc", "usd", IK::Perp),
        mi("btc", "usd", IK::Fut(20231229)),
        mi("btc", "usd", IK::Fut(20270101)),
        mi("btc", "usd", IK::Opt(20231229, 35000, true)),
        mi("btc", "usd", IK::Opt(20231229, 35000, false)),
        mi("btc", "usd", IK::Opt(20241230, 35000, true)),
        mi("1inch", "usdt", IK::Spot),
        mi("eth", "btc", IK::Spot),
    ]
}

/// How the VENUE writes the market of an instrument in its messages (from the doc-comment payloads:
/// Binance `"s":"ETHUSDT"`, Bitfinex `symbol: "tBTCUSD"`, BitMEX `"symbol":"XBTUSD"`, Bybit
/// `"topic":"publicTrade.BTCUSDT"`, Coinbase `"product_id":"BTC-USD"`, Gate.io `"currency_pair":"GT_USDT"` /
/// `"contract":"BTC_USD"` / `"ETH_USDT_QUARTERLY_20201225"` / options `BTC_USDT-20211130-65000-C`
/// (gate.io options doc linked from market.rs), Kraken `"XBT/USD"`, OKX `"instId":"BTC-USDT"` /
/// `"BTC-USD-231229-35000-C"`, swaps `BTC-USDT-SWAP`, expiry "230526" = 26th of May 2023).
fn venue_symbol(fam: Fam, m: &MI) -> String {
    let b = m.base.to_uppercase();
    let q = m.quote.to_uppercase();
    let cp = |call: bool| if call { "C" } else { "P" };
    match fam {
        Fam::Binance | Fam::Bybit | Fam::Bitmex => format!("{b}{q}"),
        Fam::Bitfinex => format!("t{b}{q}"),
        Fam::Coinbase => format!("{b}-{q}"),
        Fam::Kraken => format!("{b}/{q}"),
        Fam::Gateio => match m.kind {
            IK::Spot | IK::Perp => format!("{b}_{q}"),
            IK::Fut(d) => format!("{b}_{q}_QUARTERLY_{d:08}"),
            IK::Opt(d, k, c) => format!("{b}_{q}-{d:08}-{k}-{}", cp(c)),
        },
        Fam::Okx => match m.kind {
            IK::Spot => format!("{b}-{q}"),
            IK::Perp => format!("{b}-{q}-SWAP"),
            IK::Fut(d) => format!("{b}-{q}-{:06}", d % 1_000_000),
            IK::Opt(d, k, c) => format!("{b}-{q}-{:06}-{k}-{}", d % 1_000_000, cp(c)),
        },
    }
}

/// One (connector, subscription kind) arm of `DynamicStreams::init`.
struct PairSpec {
    name: &'static str,
    id: ExchangeId,
    fam: Fam,
    sk: SK,
    menu: Vec<MI>,
}

fn pair_specs() -> Vec<PairSpec> {
    use ExchangeId::*;
    let p = |name, id, fam, sk, menu| PairSpec { name, id, fam, sk, menu };
    vec![
        p("BinanceSpot/PublicTrades", BinanceSpot, Fam::Binance, SK::Trades, pairs_menu(IK::Spot)),
        p("BinanceSpot/OrderBooksL1", BinanceSpot, Fam::Binance, SK::L1, pairs_menu(IK::Spot)),
        p("BinanceSpot/OrderBooksL2", BinanceSpot, Fam::Binance, SK::L2, pairs_menu(IK::Spot)),
        p("BinanceFuturesUsd/PublicTrades", BinanceFuturesUsd, Fam::Binance, SK::Trades, pairs_menu(IK::Perp)),
        p("BinanceFuturesUsd/OrderBooksL1", BinanceFuturesUsd, Fam::Binance, SK::L1, pairs_menu(IK::Perp)),
        p("BinanceFuturesUsd/OrderBooksL2", BinanceFuturesUsd, Fam::Binance, SK::L2, pairs_menu(IK::Perp)),
        p("BinanceFuturesUsd/Liquidations", BinanceFuturesUsd, Fam::Binance, SK::Liq, pairs_menu(IK::Perp)),
        p("Bitfinex/PublicTrades", Bitfinex, Fam::Bitfinex, SK::Trades, pairs_menu(IK::Spot)),
        p("Bitmex/PublicTrades", Bitmex, Fam::Bitmex, SK::Trades, pairs_menu(IK::Perp)),
        p("BybitSpot/PublicTrades", BybitSpot, Fam::Bybit, SK::Trades, pairs_menu(IK::Spot)),
        p("BybitPerpetualsUsd/PublicTrades", BybitPerpetualsUsd, Fam::Bybit, SK::Trades, pairs_menu(IK::Perp)),
        p("Coinbase/PublicTrades", Coinbase, Fam::Coinbase, SK::Trades, pairs_menu(IK::Spot)),
        p("GateioSpot/PublicTrades", GateioSpot, Fam::Gateio, SK::Trades, pairs_menu(IK::Spot)),
        p("GateioFuturesUsd/PublicTrades", GateioFuturesUsd, Fam::Gateio, SK::Trades, gateio_future_menu()),
        p("GateioFuturesBtc/PublicTrades", GateioFuturesBtc, Fam::Gateio, SK::Trades, gateio_future_menu()),
        p("GateioPerpetualsUsd/PublicTrades", GateioPerpetualsUsd, Fam::Gateio, SK::Trades, pairs_menu(IK::Perp)),
        p("GateioPerpetualsBtc/PublicTrades", GateioPerpetualsBtc, Fam::Gateio, SK::Trades, pairs_menu(IK::Perp)),
        p("GateioOptions/PublicTrades", GateioOptions, Fam::Gateio, SK::Trades, gateio_option_menu()),
        p("Kraken/PublicTrades", Kraken, Fam::Kraken, SK::Trades, pairs_menu(IK::Spot)),
        p("Kraken/OrderBooksL1", Kraken, Fam::Kraken, SK::L1, pairs_menu(IK::Spot)),
        p("Okx/PublicTrades", Okx, Fam::Okx, SK::Trades, okx_menu()),
    ]
}

impl PairSpec {
    /// Venue universe: every distinct market of the menu plus one market that is never in any menu.
    fn universe(&self) -> Vec<String> {
        let mut v: Vec<String> = Vec::new();
        for m in &self.menu {
            let s = venue_symbol(self.fam, m);
            if !v.contains(&s) {
                v.push(s);
            }
        }
        let alien = venue_symbol(self.fam, &mi("doge", "eur", self.menu[0].kind));
        v.push(alien);
        v
    }
}

const FLAVOURS: [&str; 5] = ["keyed", "named", "plain", "indexed", "indexed-keyed"];
/// How the subscriptions reach the mapper: `direct` = typed `Subscription<Exchange, Inst, Kind>` built by the caller
/// in the caller's order (the `Streams::builder().subscribe(..)` path); `dynamic` = the `DynamicStreams::init` path:
/// `Subscription<ExchangeId, Inst, SubKind>` -> real `validate_batches` (validate, sort, dedup) -> re-wrapped with the
/// connector type per (exchange, kind) exactly as the arms of `DynamicStreams::init` do.
const VIAS: [&str; 2] = ["direct", "dynamic"];
/// How a payload reaches the transformer (see module doc). Index 0 is the way every configuration is judged on.
const PATHS: [&str; 3] = ["direct", "exchange-stream", "buffered"];

// ------------------------------------------------------------------------------------------------
// Instrument flavours
// ------------------------------------------------------------------------------------------------

/// (instruments in menu order, per menu entry: why its key is not the key of the instrument the user named - only
/// for flavours whose key is computed by code under test)
type Menu<I> = (Vec<I>, Vec<Option<String>>);
trait Flav: InstrumentData + Ord {
    fn build(idx: usize, venue_name: &str, m: &MI) -> Self;
    /// The instrument for every menu entry, in menu order.
    fn build_menu(spec: &PairSpec) -> Result<Menu<Self>, String> {
        let v: Vec<Self> = spec.menu.iter().enumerate().map(|(i, m)| Self::build(i, &venue_symbol(spec.fam, m), m)).collect();
        let n = v.len();
        Ok((v, vec![None; n]))
    }
}
/// The menu as real `IndexedInstruments` (together with two instruments of another exchange, internal names permuted
/// so that the `InstrumentIndex` differs from the menu position) + the internal name of menu entry i.
fn indexed_menu(spec: &PairSpec) -> (IndexedInstruments, Vec<InstrumentNameInternal>) {
    let n = spec.menu.len();
    let mult = if n % 3 == 0 { 5 } else { 3 };
    let internal = |i: usize| InstrumentNameInternal::new(format!("m{:02}", (i * mult + 1) % n));
    let mut b = IndexedInstruments::builder()
        .add_instrument(Instrument::spot(ExchangeId::Mock, "mock_a", "A_B", Underlying::new("a", "b"), None))
        .add_instrument(Instrument::spot(ExchangeId::Mock, "mock_c", "C_B", Underlying::new("c", "b"), None));
    for (i, m) in spec.menu.iter().enumerate() {
        let (base, quote) = (m.base.to_lowercase(), m.quote.to_lowercase());
        let settle = || Asset::from(quote.as_str());
        let kind = match m.kind {
            IK::Spot => InstrumentKind::Spot,
            IK::Perp => InstrumentKind::Perpetual(PerpetualContract { contract_size: Decimal::ONE, settlement_asset: settle() }),
            IK::Fut(d) => InstrumentKind::Future(FutureContract { contract_size: Decimal::ONE, settlement_asset: settle(), expiry: ymd(d) }),
            IK::Opt(d, k, call) => InstrumentKind::Option(OptionContract {
                contract_size: Decimal::ONE,
                settlement_asset: settle(),
                kind: if call { OptionKind::Call } else { OptionKind::Put },
                exercise: OptionExercise::European,
                expiry: ymd(d),
                strike: Decimal::from(k),
            }),
        };
        b = b.add_instrument(Instrument::new(
            spec.id,
            internal(i),
            venue_symbol(spec.fam, m),
            Underlying::new(base.as_str(), quote.as_str()),
            InstrumentQuoteAsset::UnderlyingQuote,
            kind,
            None,
        ));
    }
    (b.build(), (0..n).map(internal).collect())
}
/// `indexed-keyed` flavour - the path of a user who writes `MarketDataInstrument` subscriptions and has them indexed:
/// the real `index_market_data_subscription_batches` looks every (exchange, kind, base, quote) up in the real
/// `IndexedInstruments` and produces `Keyed<InstrumentIndex, MarketDataInstrument>`. The key it must produce is the
/// index of the instrument the user named (independently: `find_instrument_index` by internal name); menu entries
/// that name the same instrument (btc/usdt vs BTC/usdt) may get either index.
impl Flav for Keyed<InstrumentIndex, MarketDataInstrument> {
    fn build(_: usize, _: &str, _: &MI) -> Self {
        unreachable!("built per menu")
    }
    fn build_menu(spec: &PairSpec) -> Result<Menu<Self>, String> {
        let (indexed, internal) = indexed_menu(spec);
        let subs: Vec<Subscription<ExchangeId, MarketDataInstrument, SubKind>> =
            spec.menu.iter().map(|m| Subscription::new(spec.id, MarketDataInstrument::new(m.base, m.quote, m.kind.real()), spec.sk.sub_kind())).collect();
        let out = index_market_data_subscription_batches(&indexed, vec![subs]).map_err(|e| format!("index_market_data_subscription_batches failed: {e}"))?;
        // the subscription of menu entry i is the returned one that names the same instrument (in which order the
        // helper returns them, and whether it returns two identical subscriptions twice, is not prescribed)
        let returned: Vec<Self> = out.into_iter().flatten().map(|s| s.instrument).collect();
        let mut insts: Vec<Self> = Vec::with_capacity(spec.menu.len());
        for (i, m) in spec.menu.iter().enumerate() {
            let named = MarketDataInstrument::new(m.base, m.quote, m.kind.real());
            match returned.get(i).filter(|r| r.value == named).or_else(|| returned.iter().find(|r| r.value == named)) {
                Some(r) => insts.push(r.clone()),
                None => return Err(format!("index_market_data_subscription_batches returned no subscription for {m:?} ({} returned for {} asked)", returned.len(), spec.menu.len())),
            }
        }
        let same = |a: &MI, b: &MI| a.base.eq_ignore_ascii_case(b.base) && a.quote.eq_ignore_ascii_case(b.quote) && a.kind == b.kind;
        let problems = (0..insts.len())
            .map(|i| {
                let allowed: Vec<InstrumentIndex> = (0..insts.len())
                    .filter(|j| same(&spec.menu[i], &spec.menu[*j]))
                    .map(|j| indexed.find_instrument_index(spec.id, &internal[j]).expect("menu instrument indexed"))
                    .collect();
                (!allowed.contains(&insts[i].key)).then(|| format!("subscription for {:?} was given {:?}, the instrument's index is {allowed:?}", spec.menu[i], insts[i].key))
            })
            .collect();
        Ok((insts, problems))
    }
}
/// `indexed` flavour – the engine's path: the menu becomes real `IndexedInstruments` (together with two instruments
/// of another exchange, internal names permuted so that the `InstrumentIndex` differs from the menu position),
/// the real `generate_indexed_market_data_subscription_batches` produces the `MarketInstrumentData<InstrumentIndex>`
/// that `DynamicStreams::init` re-wraps per (exchange, kind).
impl Flav for MarketInstrumentData<InstrumentIndex> {
    fn build(_: usize, _: &str, _: &MI) -> Self {
        unreachable!("built per menu")
    }
    fn build_menu(spec: &PairSpec) -> Result<Menu<Self>, String> {
        let n = spec.menu.len();
        let (indexed, internal) = indexed_menu(spec);
        let batches = generate_indexed_market_data_subscription_batches(&indexed, &[spec.sk.sub_kind()]);
        let v: Vec<Self> = (0..n)
            .map(|i| {
                let key = indexed.find_instrument_index(spec.id, &internal[i]).expect("menu instrument indexed");
                batches
                    .iter()
                    .flatten()
                    .find(|s| s.exchange == spec.id && s.instrument.key == key)
                    .expect("generated subscription for menu instrument")
                    .instrument
                    .clone()
            })
            .collect();
        Ok((v, vec![None; n]))
    }
}
impl Flav for Keyed<u32, MarketDataInstrument> {
    fn build(idx: usize, _: &str, m: &MI) -> Self {
        Keyed { key: idx as u32, value: MarketDataInstrument::new(m.base, m.quote, m.kind.real()) }
    }
}
impl Flav for MarketInstrumentData<u32> {
    fn build(idx: usize, venue_name: &str, m: &MI) -> Self {
        MarketInstrumentData {
            key: idx as u32,
            name_exchange: InstrumentNameExchange::new(venue_name),
            kind: m.kind.real(),
        }
    }
}
impl Flav for MarketDataInstrument {
    fn build(_: usize, _: &str, m: &MI) -> Self {
        MarketDataInstrument::new(m.base, m.quote, m.kind.real())
    }
}

// ------------------------------------------------------------------------------------------------
// Messages (venue side) and expectations
// ------------------------------------------------------------------------------------------------

/// What the payload states for one event.
#[derive(Clone, Debug)]
struct Exp {
    /// acceptable exchange times (every time stamp the message carries); empty = message carries none
    times: Vec<DateTime<Utc>>,
    /// per position the acceptable values
    nums: Vec<Vec<f64>>,
    side: Option<Side>,
}

#[derive(Clone, Debug)]
struct Msg {
    market: String,
    variant: &'static str,
    json: String,
    expect: Vec<Exp>,
}

fn f(s: &str) -> f64 {
    s.parse().unwrap()
}
fn ms(t: i64) -> DateTime<Utc> {
    Utc.timestamp_millis_opt(t).unwrap()
}
fn us(t: i64) -> DateTime<Utc> {
    Utc.timestamp_micros(t).unwrap()
}
/// Prices / quantities as the venues write them: decimal strings, most of them NOT exactly representable in binary
/// (so that a narrower or rounded intermediate representation shows), with 2 and with 8 decimals, one integer.
fn price(midx: usize, v: usize) -> String {
    format!("{}.{}", 100 + 10 * midx + v, if v % 2 == 0 { "57" } else { "12345678" })
}
const QTY: [&str; 4] = ["0.1", "1.53", "0.00012345", "3"];
fn t_ms(midx: usize, v: usize) -> i64 {
    1_700_000_000_123 + 10_000 * midx as i64 + 7 * v as i64
}
fn trade_exp(times: Vec<DateTime<Utc>>, p: &str, q: Vec<f64>, side: Side) -> Exp {
    Exp { times, nums: vec![vec![f(p)], q], side: Some(side) }
}

/// Payloads the venue sends for `market` (index `midx` in the venue universe). Bitfinex is handled separately
/// (its data messages carry the channel id allocated during the handshake instead of the market).
fn make_msgs(spec: &PairSpec, market: &str, midx: usize) -> Vec<Msg> {
    let m = |variant: &'static str, json: String, expect: Vec<Exp>| Msg { market: market.to_string(), variant, json, expect };
    let mut out = Vec::new();
    let sides = [Side::Buy, Side::Sell];
    match (spec.fam, spec.sk) {
        (Fam::Binance, SK::Trades) => {
            // binance/trade.rs doc comment: spot trade (buyer is maker = false => Buy) and futures trade
            for (v, side) in sides.iter().enumerate() {
                let (p, q, t) = (price(midx, v), QTY[v], t_ms(midx, v));
                let maker = *side == Side::Sell;
                let json = if spec.id == ExchangeId::BinanceSpot {
                    format!(r#"{{"e":"trade","E":{},"s":"{market}","t":{},"p":"{p}","q":"{q}","b":10108767791,"a":10108764858,"T":{t},"m":{maker},"M":true}}"#, t + 3, 1000 + v)
                } else {
                    format!(r#"{{"e":"trade","E":{},"T":{t},"s":"{market}","t":{},"p":"{p}","q":"{q}","X":"MARKET","m":{maker}}}"#, t + 3, 1000 + v)
                };
                out.push(m(if v == 0 { "buy" } else { "sell" }, json, vec![trade_exp(vec![ms(t), ms(t + 3)], &p, vec![f(q)], *side)]));
            }
        }
        (Fam::Binance, SK::L1) => {
            for v in 0..2 {
                let (bp, ap, t) = (price(midx, v), price(midx, v + 2), t_ms(midx, v));
                let (bq, aq) = (QTY[v], QTY[v + 1]);
                let (json, times) = if spec.id == ExchangeId::BinanceSpot {
                    (format!(r#"{{"u":22606535573,"s":"{market}","b":"{bp}","B":"{bq}","a":"{ap}","A":"{aq}"}}"#), vec![])
                } else {
                    (
                        format!(r#"{{"e":"bookTicker","u":2286618712950,"s":"{market}","b":"{bp}","B":"{bq}","a":"{ap}","A":"{aq}","T":{t},"E":{}}}"#, t + 3),
                        vec![ms(t), ms(t + 3)],
                    )
                };
                let nums = vec![vec![f(&bp)], vec![f(bq)], vec![f(&ap)], vec![f(aq)]];
                out.push(m(if v == 0 { "ticker-0" } else { "ticker-1" }, json, vec![Exp { times, nums, side: None }]));
            }
            // one-sided top of book: the venue writes an empty side as zero price and zero quantity. The event may
            // show that side as absent or as a zero level; the OTHER side is as stated.
            for (v, bid_empty) in [(2usize, true), (3, false)] {
                let (p, q, t) = (price(midx, v), QTY[v], t_ms(midx, v));
                let z = "0.00000000";
                let (bp, bq, ap, aq) = if bid_empty { (z, z, p.as_str(), q) } else { (p.as_str(), q, z, z) };
                let (json, times) = if spec.id == ExchangeId::BinanceSpot {
                    (format!(r#"{{"u":22606535574,"s":"{market}","b":"{bp}","B":"{bq}","a":"{ap}","A":"{aq}"}}"#), vec![])
                } else {
                    (
                        format!(r#"{{"e":"bookTicker","u":2286618712951,"s":"{market}","b":"{bp}","B":"{bq}","a":"{ap}","A":"{aq}","T":{t},"E":{}}}"#, t + 3),
                        vec![ms(t), ms(t + 3)],
                    )
                };
                let (empty, full) = (vec![vec![0.0, f64::NAN], vec![0.0, f64::NAN]], vec![vec![f(&p)], vec![f(q)]]);
                let nums = if bid_empty { [empty, full].concat() } else { [full, empty].concat() };
                out.push(m(if bid_empty { "bid-side-empty" } else { "ask-side-empty" }, json, vec![Exp { times, nums, side: None }]));
            }
        }
        (Fam::Binance, SK::L2) => {
            // first update brackets the snapshot's lastUpdateId (100) for both the spot and the futures
            // sequencing rule, the second follows on (U = u_prev + 1, pu = u_prev).
            for (v, (first, last, prev)) in [(100u64, 105u64, 99u64), (106, 110, 105)].into_iter().enumerate() {
                let t = t_ms(midx, v);
                let (b1, b2, a1) = (price(midx, v), price(midx, v + 1), price(midx, v + 3));
                let levels = format!(r#""b":[["{b1}","{}"],["{b2}","{}"]],"a":[["{a1}","{}"]]"#, QTY[0], QTY[1], QTY[2]);
                let (json, times) = if spec.id == ExchangeId::BinanceSpot {
                    (format!(r#"{{"e":"depthUpdate","E":{t},"s":"{market}","U":{first},"u":{last},{levels}}}"#), vec![ms(t)])
                } else {
                    (
                        format!(r#"{{"e":"depthUpdate","E":{},"T":{t},"s":"{market}","U":{first},"u":{last},"pu":{prev},{levels}}}"#, t + 3),
                        vec![ms(t), ms(t + 3)],
                    )
                };
                // bids sorted best (highest) first, then asks
                let nums = vec![vec![f(&b2)], vec![f(QTY[1])], vec![f(&b1)], vec![f(QTY[0])], vec![f(&a1)], vec![f(QTY[2])]];
                out.push(m(if v == 0 { "update-1" } else { "update-2" }, json, vec![Exp { times, nums, side: None }]));
            }
        }
        (Fam::Binance, SK::Liq) => {
            for (v, side) in sides.iter().enumerate() {
                let (p, q, t) = (price(midx, v), QTY[v], t_ms(midx, v));
                let s = if *side == Side::Buy { "BUY" } else { "SELL" };
                let json = format!(
                    r#"{{"e":"forceOrder","E":{},"o":{{"s":"{market}","S":"{s}","o":"LIMIT","f":"IOC","q":"{q}","p":"{p}","ap":"18990.00","X":"FILLED","l":"{q}","z":"{q}","T":{t}}}}}"#,
                    t + 5
                );
                out.push(m(if v == 0 { "buy" } else { "sell" }, json, vec![trade_exp(vec![ms(t), ms(t + 5)], &p, vec![f(q)], *side)]));
            }
        }
        (Fam::Bitmex, _) => {
            let row = |v: usize, side: Side| {
                let t = ms(t_ms(midx, v)).to_rfc3339_opts(SecondsFormat::Millis, true);
                let size = 100 * (v + 1);
                let s = if side == Side::Buy { "Buy" } else { "Sell" };
                // `size` is the traded quantity. Only for XBTUSD (the doc-comment example: an inverse contract worth one
                // USD) does the quote notional equal it; for every other contract the notionals are other numbers.
                let foreign_notional = if market == "XBTUSD" { size as f64 } else { size as f64 * 2.5 + 1.0 };
                (
                    format!(
                        r#"{{"timestamp":"{t}","symbol":"{market}","side":"{s}","size":{size},"price":{},"tickDirection":"MinusTick","trdMatchID":"31e50cb7-e005-a44e-f354-86e88dff52e{v}","grossValue":814184,"homeNotional":0.00814184,"foreignNotional":{foreign_notional},"trdType":"Regular"}}"#,
                        price(midx, v)
                    ),
                    trade_exp(vec![ms(t_ms(midx, v))], &price(midx, v), vec![size as f64], side),
                )
            };
            let wrap = |rows: Vec<String>| format!(r#"{{"table":"trade","action":"insert","data":[{}]}}"#, rows.join(","));
            let (r0, e0) = row(0, Side::Buy);
            let (r1, e1) = row(1, Side::Sell);
            out.push(m("buy", wrap(vec![r0.clone()]), vec![e0.clone()]));
            out.push(m("sell", wrap(vec![r1.clone()]), vec![e1.clone()]));
            out.push(m("batch-2", wrap(vec![r1, r0]), vec![e1, e0]));
        }
        (Fam::Bybit, _) => {
            let row = |v: usize, side: Side| {
                let s = if side == Side::Buy { "Buy" } else { "Sell" };
                (
                    format!(
                        r#"{{"T":{},"s":"{market}","S":"{s}","v":"{}","p":"{}","L":"PlusTick","i":"20f43950-d8dd-5b31-9112-a178eb6023a{v}","BT":false}}"#,
                        t_ms(midx, v),
                        QTY[v],
                        price(midx, v)
                    ),
                    (v, side),
                )
            };
            let wrap = |rows: Vec<(String, (usize, Side))>| {
                let ts = t_ms(midx, 3);
                let json = format!(
                    r#"{{"topic":"publicTrade.{market}","type":"snapshot","ts":{ts},"data":[{}]}}"#,
                    rows.iter().map(|r| r.0.clone()).collect::<Vec<_>>().join(",")
                );
                let exp = rows
                    .iter()
                    .map(|(_, (v, side))| trade_exp(vec![ms(t_ms(midx, *v)), ms(ts)], &price(midx, *v), vec![f(QTY[*v])], *side))
                    .collect();
                (json, exp)
            };
            let (j, e) = wrap(vec![row(0, Side::Buy)]);
            out.push(m("buy", j, e));
            let (j, e) = wrap(vec![row(1, Side::Sell)]);
            out.push(m("sell", j, e));
            let (j, e) = wrap(vec![row(1, Side::Sell), row(0, Side::Buy)]);
            out.push(m("batch-2", j, e));
        }
        (Fam::Coinbase, _) => {
            for (v, side) in sides.iter().enumerate() {
                let t = us(t_ms(midx, v) * 1000 + 459);
                let s = if *side == Side::Buy { "buy" } else { "sell" };
                let json = format!(
                    r#"{{"type":"match","trade_id":{},"sequence":50,"maker_order_id":"ac928c66-ca53-498f-9c13-a110027a60e8","taker_order_id":"132fb6ae-456b-4654-b4e0-d681ac05cea1","time":"{}","product_id":"{market}","size":"{}","price":"{}","side":"{s}"}}"#,
                    10 + v,
                    t.to_rfc3339_opts(SecondsFormat::Micros, true),
                    QTY[v],
                    price(midx, v)
                );
                out.push(m(if v == 0 { "buy" } else { "sell" }, json, vec![trade_exp(vec![t], &price(midx, v), vec![f(QTY[v])], *side)]));
            }
        }
        (Fam::Gateio, _) if spec.id == ExchangeId::GateioSpot => {
            for (v, side) in sides.iter().enumerate() {
                let t = t_ms(midx, v);
                let s = if *side == Side::Buy { "buy" } else { "sell" };
                let json = format!(
                    r#"{{"time":{},"time_ms":{},"channel":"spot.trades","event":"update","result":{{"id":{},"create_time":{},"create_time_ms":"{t}.4578","side":"{s}","currency_pair":"{market}","amount":"{}","price":"{}"}}}}"#,
                    t / 1000,
                    t + 18,
                    309143071 + v,
                    t / 1000,
                    QTY[v],
                    price(midx, v)
                );
                let times = vec![us(t * 1000 + 458), ms(t / 1000 * 1000), ms(t + 18)];
                out.push(m(if v == 0 { "buy" } else { "sell" }, json, vec![trade_exp(times, &price(midx, v), vec![f(QTY[v])], *side)]));
            }
        }
        (Fam::Gateio, _) => {
            // delivery / perpetual / options trades: the side is the sign of `size`
            // (perpetual/trade.rs doc comment + futures fixture; futures ws doc names the channel `futures.trades`,
            // options ws doc `options.trades`).
            let channel = if spec.id == ExchangeId::GateioOptions { "options.trades" } else { "futures.trades" };
            let row = |v: usize, side: Side| {
                let t = t_ms(midx, v);
                let size: i64 = if side == Side::Buy { 3 + v as i64 } else { -(108 + v as i64) };
                (
                    format!(
                        r#"{{"size":{size},"id":{},"create_time":{},"create_time_ms":{t},"price":"{}","contract":"{market}"}}"#,
                        27753479 + v,
                        t / 1000,
                        price(midx, v)
                    ),
                    trade_exp(vec![ms(t), ms(t / 1000 * 1000)], &price(midx, v), vec![size.abs() as f64, size as f64], side),
                )
            };
            let wrap = |rows: Vec<String>| {
                format!(r#"{{"time":{},"time_ms":{},"channel":"{channel}","event":"update","result":[{}]}}"#, t_ms(midx, 0) / 1000, t_ms(midx, 0), rows.join(","))
            };
            let (r0, e0) = row(0, Side::Buy);
            let (r1, e1) = row(1, Side::Sell);
            out.push(m("buy", wrap(vec![r0.clone()]), vec![e0.clone()]));
            out.push(m("sell", wrap(vec![r1.clone()]), vec![e1.clone()]));
            out.push(m("batch-2", wrap(vec![r1, r0]), vec![e1, e0]));
        }
        (Fam::Kraken, SK::Trades) => {
            // kraken/message.rs doc comment: [channelID, [[price, volume, time, side, orderType, misc]..], "trade", pair]
            let row = |v: usize, side: Side| {
                let t_us = t_ms(midx, v) * 1000 + 500;
                let s = if side == Side::Buy { "b" } else { "s" };
                (
                    format!(r#"["{}","{}","{}.{:06}","{s}","l",""]"#, price(midx, v), QTY[v], t_us / 1_000_000, t_us % 1_000_000),
                    trade_exp(vec![us(t_us)], &price(midx, v), vec![f(QTY[v])], side),
                )
            };
            let wrap = |rows: Vec<String>| format!(r#"[0,[{}],"trade","{market}"]"#, rows.join(","));
            let (r0, e0) = row(0, Side::Buy);
            let (r1, e1) = row(1, Side::Sell);
            out.push(m("buy", wrap(vec![r0.clone()]), vec![e0.clone()]));
            out.push(m("sell", wrap(vec![r1.clone()]), vec![e1.clone()]));
            out.push(m("batch-2", wrap(vec![r1, r0]), vec![e1, e0]));
        }
        (Fam::Kraken, _) => {
            // [channelID, [bid, ask, timestamp, bidVolume, askVolume], "spread", pair]
            for v in 0..2 {
                let t_us = t_ms(midx, v) * 1000 + 500;
                let (bp, ap) = (price(midx, v), price(midx, v + 2));
                let json = format!(r#"[0,["{bp}","{ap}","{}.{:06}","{}","{}"],"spread","{market}"]"#, t_us / 1_000_000, t_us % 1_000_000, QTY[v], QTY[v + 1]);
                let nums = vec![vec![f(&bp)], vec![f(QTY[v])], vec![f(&ap)], vec![f(QTY[v + 1])]];
                out.push(m(if v == 0 { "spread-0" } else { "spread-1" }, json, vec![Exp { times: vec![us(t_us)], nums, side: None }]));
            }
            // one-sided top of book (see Binance L1)
            for (v, bid_empty) in [(2usize, true), (3, false)] {
                let t_us = t_ms(midx, v) * 1000 + 500;
                let (p, q) = (price(midx, v), QTY[v]);
                let z = "0.00000000";
                let (bp, bq, ap, aq) = if bid_empty { (z, z, p.as_str(), q) } else { (p.as_str(), q, z, z) };
                let json = format!(r#"[0,["{bp}","{ap}","{}.{:06}","{bq}","{aq}"],"spread","{market}"]"#, t_us / 1_000_000, t_us % 1_000_000);
                let (empty, full) = (vec![vec![0.0, f64::NAN], vec![0.0, f64::NAN]], vec![vec![f(&p)], vec![f(q)]]);
                let nums = if bid_empty { [empty, full].concat() } else { [full, empty].concat() };
                out.push(m(if bid_empty { "bid-side-empty" } else { "ask-side-empty" }, json, vec![Exp { times: vec![us(t_us)], nums, side: None }]));
            }
        }
        (Fam::Okx, _) => {
            let row = |v: usize, side: Side| {
                let s = if side == Side::Buy { "buy" } else { "sell" };
                (
                    format!(
                        r#"{{"instId":"{market}","tradeId":"{}","px":"{}","sz":"{}","side":"{s}","ts":"{}"}}"#,
                        130639474 + v,
                        price(midx, v),
                        QTY[v],
                        t_ms(midx, v)
                    ),
                    trade_exp(vec![ms(t_ms(midx, v))], &price(midx, v), vec![f(QTY[v])], side),
                )
            };
            let wrap = |rows: Vec<String>| format!(r#"{{"arg":{{"channel":"trades","instId":"{market}"}},"data":[{}]}}"#, rows.join(","));
            let (r0, e0) = row(0, Side::Buy);
            let (r1, e1) = row(1, Side::Sell);
            out.push(m("buy", wrap(vec![r0.clone()]), vec![e0.clone()]));
            out.push(m("sell", wrap(vec![r1.clone()]), vec![e1.clone()]));
            out.push(m("batch-2", wrap(vec![r1, r0]), vec![e1, e0]));
        }
        (Fam::Bitfinex, _) => unreachable!("bitfinex messages need the handshake's channel ids"),
    }
    out
}

/// Bitfinex data messages: `[CHANNEL_ID,"te",[ID,MTS,±AMOUNT,PRICE]]` (bitfinex/message.rs doc comment). The venue
/// only sends data on channels it allocated; for a market nobody subscribed the harness uses a channel id that
/// was never allocated.
fn bitfinex_msgs(universe: &[String], table: &BTreeMap<String, u32>) -> Vec<Msg> {
    let mut out = Vec::new();
    for (midx, market) in universe.iter().enumerate() {
        let chan = table.get(market).copied().unwrap_or(900_000 + midx as u32);
        for (v, side) in [Side::Buy, Side::Sell].into_iter().enumerate() {
            let amount = if side == Side::Buy { f(QTY[v]) } else { -f(QTY[v]) };
            let json = format!(r#"[{chan},"te",[{},{},{amount},{}]]"#, 1225484398u64 + v as u64, t_ms(midx, v), price(midx, v));
            out.push(Msg {
                market: market.clone(),
                variant: if v == 0 { "buy" } else { "sell" },
                json,
                expect: vec![trade_exp(vec![ms(t_ms(midx, v))], &price(midx, v), vec![amount.abs(), amount], side)],
            });
        }
    }
    out
}

// ------------------------------------------------------------------------------------------------
// Observation side: event facts
// ------------------------------------------------------------------------------------------------

trait Ev: Sized + Debug {
    fn nums(&self) -> Vec<f64>;
    fn side(&self) -> Option<Side> {
        None
    }
    /// A second place in which the event kind itself carries an exchange time of the message (L1 `last_update_time`,
    /// `Liquidation::time`, the L2 book's `time_engine` where the connector sets one), with the name used in signatures.
    fn kind_time(&self) -> Option<(&'static str, DateTime<Utc>)> {
        None
    }
    /// Initial snapshot the (L2) transformer needs for a subscribed key; built with the real conversion
    /// the snapshot fetcher uses (`MarketEvent::from((ExchangeId, key, BinanceOrderBookL2Snapshot))`).
    fn snapshot<K>(_: ExchangeId, _: K) -> Option<MarketEvent<K, Self>> {
        None
    }
}
fn d(x: Decimal) -> f64 {
    x.to_f64().unwrap_or(f64::NAN)
}
impl Ev for PublicTrade {
    fn nums(&self) -> Vec<f64> {
        vec![self.price, self.amount]
    }
    fn side(&self) -> Option<Side> {
        Some(self.side)
    }
}
impl Ev for Liquidation {
    fn nums(&self) -> Vec<f64> {
        vec![self.price, self.quantity]
    }
    fn side(&self) -> Option<Side> {
        Some(self.side)
    }
    fn kind_time(&self) -> Option<(&'static str, DateTime<Utc>)> {
        Some(("liquidation-time", self.time))
    }
}
impl Ev for OrderBookL1 {
    fn nums(&self) -> Vec<f64> {
        let lvl = |l: &Option<barter_data::books::Level>| l.map(|l| (d(l.price), d(l.amount))).unwrap_or((f64::NAN, f64::NAN));
        let (b, a) = (lvl(&self.best_bid), lvl(&self.best_ask));
        vec![b.0, b.1, a.0, a.1]
    }
    fn kind_time(&self) -> Option<(&'static str, DateTime<Utc>)> {
        Some(("last-update-time", self.last_update_time))
    }
}
impl Ev for OrderBookEvent {
    fn nums(&self) -> Vec<f64> {
        let book: &OrderBook = match self {
            OrderBookEvent::Snapshot(b) | OrderBookEvent::Update(b) => b,
        };
        book.bids().levels().iter().chain(book.asks().levels()).flat_map(|l| [d(l.price), d(l.amount)]).collect()
    }
    fn kind_time(&self) -> Option<(&'static str, DateTime<Utc>)> {
        let book: &OrderBook = match self {
            OrderBookEvent::Snapshot(b) | OrderBookEvent::Update(b) => b,
        };
        book.time_engine.map(|t| ("book-time-engine", t))
    }
    fn snapshot<K>(ex: ExchangeId, key: K) -> Option<MarketEvent<K, Self>> {
        let snap: BinanceOrderBookL2Snapshot =
            serde_json::from_str(r#"{"lastUpdateId":100,"bids":[["4.00000000","431.00000000"]],"asks":[["4.00000200","12.00000000"]]}"#).unwrap();
        Some(MarketEvent::from((ex, key, snap)))
    }
}

/// The combined event kind of the engine's path (`DynamicStreams::select_all::<MarketStreamResult<_, DataKind>>`).
impl Ev for DataKind {
    fn nums(&self) -> Vec<f64> {
        match self {
            DataKind::Trade(x) => x.nums(),
            DataKind::OrderBookL1(x) => x.nums(),
            DataKind::OrderBook(x) => x.nums(),
            DataKind::Liquidation(x) => x.nums(),
            DataKind::Candle(_) => vec![],
        }
    }
    fn side(&self) -> Option<Side> {
        match self {
            DataKind::Trade(x) => x.side(),
            DataKind::Liquidation(x) => x.side(),
            _ => None,
        }
    }
    fn kind_time(&self) -> Option<(&'static str, DateTime<Utc>)> {
        match self {
            DataKind::OrderBookL1(x) => x.kind_time(),
            DataKind::OrderBook(x) => x.kind_time(),
            DataKind::Liquidation(x) => x.kind_time(),
            _ => None,
        }
    }
}

#[derive(Clone, Debug)]
struct ObsEv {
    /// what the real conversion into `MarketEvent<_, DataKind>` (the form in which the event reaches the engine)
    /// changed in key / exchange / time / values, if anything
    conv_diff: Option<String>,
    /// canonical menu index of the key the event carries (None = a key that is not in the menu at all)
    key: Option<usize>,
    exchange: ExchangeId,
    time: DateTime<Utc>,
    kind_time: Option<(&'static str, DateTime<Utc>)>,
    nums: Vec<f64>,
    side: Option<Side>,
}
#[derive(Clone, Debug)]
enum MsgObs {
    DeErr(String),
    Panic,
    Out(Vec<Result<ObsEv, String>>),
}

struct Driven {
    /// canonical menu index per menu position (first menu entry with an equal key)
    canon: Vec<usize>,
    /// (subscription id, canonical key index) of the table the transformer was initialised with
    map_ids: Vec<(String, Option<usize>)>,
    /// handshake / init failure, if any
    setup_err: Option<String>,
    /// the Bitfinex handshake failed twice without the scripted venue having rejected anything (time-out / IO):
    /// not a verdict yet – re-run sequentially with environment health checks at the end of the exploration
    unsettled: bool,
    msgs: Vec<Msg>,
    /// per way of `PATHS`: one observation per message (ways 1.. are empty if their transformer could not be built)
    obs: [Vec<MsgObs>; 3],
    /// the venue markets named in the subscribe requests the mapper produced (None: Bitfinex - its scripted venue reads
    /// the requests during the handshake); Err: a request the venue's request format does not describe
    requested: Option<Result<Vec<String>, String>>,
}

/// The venue side of a SUBSCRIBE REQUEST: which markets does the venue start streaming? Request formats from the
/// connectors' `Connector::requests` / subscription doc comments: Binance `{"method":"SUBSCRIBE","params":
/// ["btcusdt@trade"],"id":1}` (stream names are LOWER case - the connector's own note: "Market must be lowercase when
/// subscribing"), Bybit `{"op":"subscribe","args":["publicTrade.BTCUSDT"]}`, BitMEX `{"op":"subscribe","args":
/// ["trade:XBTUSD"]}`, Coinbase `{"type":"subscribe","product_ids":["BTC-USD"],"channels":["matches"]}`, Gate.io
/// `{"time":..,"channel":"spot.trades","event":"subscribe","payload":["BTC_USDT"]}`, Kraken `{"event":"subscribe",
/// "pair":["XBT/USD"],"subscription":{"name":"trade"}}`, OKX `{"op":"subscribe","args":[{"channel":"trades","instId":
/// "BTC-USDT"}]}`. Returned in the spelling the venue uses in its data messages (`venue_symbol`); a venue's market
/// names are case sensitive.
fn requested_markets(fam: Fam, requests: &[WsMessage]) -> Result<Vec<String>, String> {
    let mut out = Vec::new();
    for r in requests {
        let WsMessage::Text(text) = r else { return Err(format!("subscribe request is not a text frame: {r:?}")) };
        let v: Value = serde_json::from_str(text.as_str()).map_err(|e| format!("subscribe request is not JSON ({e}): {text}"))?;
        let strings = |field: &Value| -> Result<Vec<String>, String> {
            field
                .as_array()
                .ok_or_else(|| format!("subscribe request lists no markets where the venue reads them: {text}"))?
                .iter()
                .map(|x| x.as_str().map(str::to_string).ok_or_else(|| format!("non-string market entry in {text}")))
                .collect()
        };
        match fam {
            Fam::Binance => {
                for stream in strings(&v["params"])? {
                    let sym = stream.split('@').next().unwrap_or("").to_string();
                    // an upper / mixed case stream name is not a stream the venue knows
                    if sym == sym.to_lowercase() {
                        out.push(sym.to_uppercase());
                    }
                }
            }
            Fam::Bybit => out.extend(strings(&v["args"])?.iter().filter_map(|a| a.split_once('.').map(|x| x.1.to_string()))),
            Fam::Bitmex => out.extend(strings(&v["args"])?.iter().filter_map(|a| a.split_once(':').map(|x| x.1.to_string()))),
            // Coinbase documents two equivalent spellings: `product_ids` at the top level (applies to every listed
            // channel) and per channel `{"name":"matches","product_ids":[..]}` objects inside `channels`
            Fam::Coinbase => {
                let per_channel: Vec<&Value> = v["channels"].as_array().map(|c| c.iter().filter(|x| x.is_object()).map(|x| &x["product_ids"]).collect()).unwrap_or_default();
                if !v["product_ids"].is_null() || per_channel.is_empty() {
                    out.extend(strings(&v["product_ids"])?);
                }
                for field in per_channel {
                    out.extend(strings(field)?);
                }
            }
            Fam::Gateio => out.extend(strings(&v["payload"])?),
            Fam::Kraken => out.extend(strings(&v["pair"])?),
            Fam::Okx => {
                for a in v["args"].as_array().ok_or_else(|| format!("subscribe request without args: {text}"))? {
                    out.push(a["instId"].as_str().ok_or_else(|| format!("subscribe arg without instId: {text}"))?.to_string());
                }
            }
            Fam::Bitfinex => unreachable!("bitfinex requests are read by the scripted venue"),
        }
    }
    Ok(out)
}

// ------------------------------------------------------------------------------------------------
// Generic driver over the real types
// ------------------------------------------------------------------------------------------------

/// Names the transformer type inside the `ExchangeWsStream<T>` a connector's `StreamSelector` selects.
trait HasTransformer {
    type T;
}
impl<P, S, T> HasTransformer for ExchangeStream<P, S, T>
where
    P: StreamParser,
    S: Stream,
    T: Transformer,
{
    type T = T;
}
type TOf<Ex, Inst, Kind> = <<Ex as StreamSelector<Inst, Kind>>::Stream as HasTransformer>::T;

struct Args<'a> {
    spec: &'a PairSpec,
    /// ordered menu indices of the subscribed instruments
    subset: &'a [usize],
    /// through the `DynamicStreams::init` front end (`validate_batches`) or directly (see `VIAS`)
    dynamic: bool,
    /// only these (market, variant) messages (replay); None = all
    only: Option<(&'a str, Option<&'a str>)>,
}

fn drive<Ex, Inst, Kind>(kind: Kind, a: &Args) -> Driven
where
    Ex: Connector + StreamSelector<Inst, Kind> + Send,
    Inst: Flav,
    Inst::Key: PartialEq + 'static,
    Kind: SubscriptionKind + Send,
    Kind::Event: Ev,
    MarketEvent<Inst::Key, Kind::Event>: Into<MarketEvent<Inst::Key, DataKind>>,
    Subscription<Ex, Inst, Kind>: Identifier<Ex::Channel> + Identifier<Ex::Market>,
    <Ex as StreamSelector<Inst, Kind>>::Stream: HasTransformer,
    TOf<Ex, Inst, Kind>: ExchangeTransformer<Ex, Inst::Key, Kind>,
{
    let spec = a.spec;
    assert_eq!(Ex::ID, spec.id, "pair table and connector type disagree");
    let (menu_insts, key_problems): Menu<Inst> = match Inst::build_menu(spec) {
        Ok(m) => m,
        Err(e) => {
            return Driven { canon: (0..spec.menu.len()).collect(), map_ids: vec![], setup_err: Some(format!("indexing: {e}")), unsettled: false, msgs: vec![], obs: Default::default(), requested: None };
        }
    };
    let canon: Vec<usize> = (0..menu_insts.len())
        .map(|i| (0..=i).find(|j| menu_insts[*j].key() == menu_insts[i].key()).unwrap())
        .collect();
    let key_idx = |k: &Inst::Key| menu_insts.iter().position(|m| m.key() == k);

    let universe = spec.universe();
    let mut driven = Driven { canon, map_ids: vec![], setup_err: None, unsettled: false, msgs: vec![], obs: Default::default(), requested: None };
    // a subscribed instrument whose key (computed by code under test) is not the key of the instrument the user named
    if let Some(p) = a.subset.iter().find_map(|i| key_problems[*i].as_ref()) {
        driven.setup_err = Some(format!("indexing: wrong-instrument: {p}"));
        return driven;
    }

    // front end of `DynamicStreams::init`: the real `validate_batches`, then the re-wrapping of its arms
    let insts: Vec<Inst> = if a.dynamic {
        let dyn_subs: Vec<Subscription<ExchangeId, Inst, SubKind>> =
            a.subset.iter().map(|i| Subscription::new(spec.id, menu_insts[*i].clone(), spec.sk.sub_kind())).collect();
        match validate_batches(vec![dyn_subs]) {
            Ok(batches) => batches.into_iter().flatten().map(|s| s.instrument).collect(),
            Err(e) => {
                driven.setup_err = Some(format!("dynamic validation: {e}"));
                return driven;
            }
        }
    } else {
        a.subset.iter().map(|i| menu_insts[*i].clone()).collect()
    };

    // subscription side: the real mapper
    let subs: Vec<Subscription<Ex, Inst, Kind>> = insts.into_iter().map(|inst| Subscription::new(Ex::default(), inst, kind.clone())).collect();
    let meta: SubscriptionMeta<Inst::Key> = WebSocketSubMapper::map::<Ex, Inst, Kind>(&subs);
    if spec.fam != Fam::Bitfinex {
        driven.requested = Some(requested_markets(spec.fam, &meta.ws_subscriptions));
    }

    // Bitfinex: the real validator re-keys the table with the venue's channel ids
    let (map, mut msgs): (Map<Inst::Key>, Vec<Msg>) = if spec.fam == Fam::Bitfinex {
        // an attempt that fails although the scripted venue rejected nothing (time-out, IO) is repeated once
        let mut attempt = bitfinex_handshake::<Inst::Key>(meta, &universe);
        if matches!(&attempt, Err((_, false))) {
            attempt = bitfinex_handshake::<Inst::Key>(WebSocketSubMapper::map::<Ex, Inst, Kind>(&subs), &universe);
        }
        match attempt {
            Ok((map, table)) => (map, bitfinex_msgs(&universe, &table)),
            Err((e, venue_rejected)) => {
                driven.setup_err = Some(format!("bitfinex subscription handshake failed: {e}"));
                driven.unsettled = !venue_rejected;
                return driven;
            }
        }
    } else {
        (meta.instrument_map, universe.iter().enumerate().flat_map(|(midx, mkt)| make_msgs(spec, mkt, midx)).collect())
    };
    if let Some((mkt, var)) = a.only {
        // stateful (L2) transformers need the earlier messages of the same market, so only filter by variant
        // when the kind is stateless
        msgs.retain(|m| m.market == mkt && (spec.sk == SK::L2 || var.is_none_or(|v| v == m.variant)));
    }
    driven.map_ids = {
        let mut v: Vec<_> = map.0.iter().map(|(id, k)| (id.0.to_string(), key_idx(k).map(|i| driven.canon[i]))).collect();
        v.sort();
        v
    };

    // snapshots for the subscribed keys (L2 only), then the real transformer constructor
    let snapshots: Vec<MarketEvent<Inst::Key, Kind::Event>> =
        subs.iter().filter_map(|s| <Kind::Event as Ev>::snapshot(Ex::ID, s.instrument.key().clone())).collect();
    let (tx, _rx) = tokio::sync::mpsc::unbounded_channel::<WsMessage>();
    let mk = |map: Map<Inst::Key>| futures::executor::block_on(<TOf<Ex, Inst, Kind> as ExchangeTransformer<Ex, Inst::Key, Kind>>::init(map, &snapshots, tx.clone()));
    let mut transformer = match mk(map.clone()) {
        Ok(t) => t,
        Err(e) => {
            driven.setup_err = Some(format!("transformer init failed: {e}"));
            return driven;
        }
    };
    // what the consumer gets to see of one output item
    let obs_of = |r: Result<MarketEvent<Inst::Key, Kind::Event>, barter_data::error::DataError>| -> Result<ObsEv, String> {
        match r {
            Ok(ev) => {
                let mut pre = ObsEv {
                    conv_diff: None,
                    key: key_idx(&ev.instrument).map(|i| driven.canon[i]),
                    exchange: ev.exchange,
                    time: ev.time_exchange,
                    kind_time: ev.kind.kind_time(),
                    nums: ev.kind.nums(),
                    side: ev.kind.side(),
                };
                let conv: MarketEvent<Inst::Key, DataKind> = ev.into();
                let post = ObsEv {
                    conv_diff: None,
                    key: key_idx(&conv.instrument).map(|i| driven.canon[i]),
                    exchange: conv.exchange,
                    time: conv.time_exchange,
                    kind_time: conv.kind.kind_time(),
                    nums: conv.kind.nums(),
                    side: conv.kind.side(),
                };
                let (a, b) = (format!("{pre:?}"), format!("{post:?}"));
                if a != b {
                    pre.conv_diff = Some(format!("transformer output {a}, as MarketEvent<_, DataKind> {b}"));
                }
                Ok(pre)
            }
            Err(e) => Err(format!("{e} / {e:?}")),
        }
    };

    // way 0 - message side: real deserialisation + real transform
    let mut direct = Vec::with_capacity(msgs.len());
    for msg in &msgs {
        let input = match serde_json::from_str::<<TOf<Ex, Inst, Kind> as Transformer>::Input>(&msg.json) {
            Ok(i) => i,
            Err(e) => {
                direct.push(MsgObs::DeErr(e.to_string()));
                continue;
            }
        };
        let res = catch_unwind(AssertUnwindSafe(|| transformer.transform(input).into_iter().collect::<Vec<_>>()));
        direct.push(match res {
            Err(_) => MsgObs::Panic,
            Ok(items) => MsgObs::Out(items.into_iter().map(&obs_of).collect()),
        });
    }

    // way 1 - the same payloads as text frames through the real `ExchangeStream<WebSocketParser, _, Transformer>` (what
    // `MarketStream::init` returns, here over an in-memory frame source instead of a socket): one stream per frame so
    // that outputs can be attributed; the transformer (stateful for L2) is carried from stream to stream.
    // way 2 - the same payloads through the real `process_buffered_events` (frames that arrived during validation).
    // A payload the message type does not deserialise (way 0 says so) is not offered again: the stream reports it as
    // a socket error and the buffer drops it by design.
    let mut stream_obs = Vec::new();
    let mut buffered_obs = Vec::new();
    if let (Ok(t1), Ok(mut t2)) = (mk(map.clone()), mk(map)) {
        let mut t1 = Some(t1);
        for (msg, d0) in msgs.iter().zip(&direct) {
            if let MsgObs::DeErr(e) = d0 {
                stream_obs.push(MsgObs::DeErr(e.clone()));
                buffered_obs.push(MsgObs::DeErr(e.clone()));
                continue;
            }
            let Some(t) = t1.take() else { break };
            let res = catch_unwind(AssertUnwindSafe(move || {
                let frames = futures::stream::iter(vec![Ok::<WsMessage, WsError>(WsMessage::text(msg.json.clone()))]);
                let mut s = ExchangeStream::<WebSocketParser, _, TOf<Ex, Inst, Kind>>::new(frames, t, VecDeque::new());
                let mut out = Vec::new();
                futures::executor::block_on(async {
                    while let Some(item) = s.next().await {
                        out.push(item);
                    }
                });
                (s.transformer, out)
            }));
            stream_obs.push(match res {
                Err(_) => MsgObs::Panic, // the transformer is gone with the stream: this way ends here
                Ok((t, items)) => {
                    t1 = Some(t);
                    MsgObs::Out(items.into_iter().map(&obs_of).collect())
                }
            });
            let res = catch_unwind(AssertUnwindSafe(|| {
                barter_data::process_buffered_events::<WebSocketParser, TOf<Ex, Inst, Kind>>(&mut t2, vec![WsMessage::text(msg.json.clone())])
            }));
            buffered_obs.push(match res {
                Err(_) => MsgObs::Panic,
                Ok(items) => MsgObs::Out(items.into_iter().map(&obs_of).collect()),
            });
        }
    }
    driven.obs = [direct, stream_obs, buffered_obs];
    driven.msgs = msgs;
    driven
}

/// Scripted Bitfinex on loopback TCP (bitfinex/subscription.rs doc comments): `info` event on connect; every
/// `{"event":"subscribe","channel":"trades","symbol":S}` is answered with `subscribed` (fresh chanId, symbol echoed)
/// followed by the channel's initial snapshot `[chanId,[[ID,MTS,AMOUNT,PRICE],..]]` if `S` is a symbol the venue lists,
/// with error 10300 otherwise and error 10301 for a duplicate subscribe. The client side is the real
/// `BitfinexWebSocketSubValidator::validate` on a real `WebSocket`. Returns the re-keyed table and the venue's
/// symbol -> chanId allocation; on failure the error text and whether the scripted venue had rejected a request.
fn bitfinex_handshake<K: Send + 'static>(meta: SubscriptionMeta<K>, venue_symbols: &[String]) -> Result<(Map<K>, BTreeMap<String, u32>), (String, bool)> {
    use tokio_tungstenite::tungstenite::Message;
    let rejected = std::cell::Cell::new(false);
    let rejected = &rejected;
    let rt = tokio::runtime::Builder::new_current_thread().enable_all().build().map_err(|e| (e.to_string(), false))?;
    let res: Result<_, String> = rt.block_on(async move {
        let listener = tokio::net::TcpListener::bind("127.0.0.1:0").await.map_err(|e| format!("bind: {e}"))?;
        let port = listener.local_addr().map_err(|e| e.to_string())?.port();
        let n_requests = meta.ws_subscriptions.len();

        let server = async {
            let (stream, _) = listener.accept().await.map_err(|e| format!("accept: {e}"))?;
            let mut ws = tokio_tungstenite::accept_async(stream).await.map_err(|e| format!("ws accept: {e}"))?;
            let send = |v: Value| Message::text(v.to_string());
            ws.send(send(json!({"event":"info","version":2,"serverId":"vcheck","platform":{"status":1}}))).await.map_err(|e| e.to_string())?;
            let mut table: BTreeMap<String, u32> = BTreeMap::new();
            let mut seen = 0usize;
            while seen < n_requests {
                let Some(Ok(msg)) = ws.next().await else { break };
                let Message::Text(text) = msg else { continue };
                let Ok(req) = serde_json::from_str::<Value>(&text) else { continue };
                if req["event"] != "subscribe" {
                    continue;
                }
                seen += 1;
                let symbol = req["symbol"].as_str().unwrap_or("").to_string();
                if req["channel"] != "trades" || !venue_symbols.contains(&symbol) {
                    rejected.set(true);
                    ws.send(send(json!({"event":"error","msg":"symbol: invalid","code":10300}))).await.map_err(|e| e.to_string())?;
                } else if table.contains_key(&symbol) {
                    rejected.set(true);
                    ws.send(send(json!({"event":"error","msg":"subscribe: dup","code":10301}))).await.map_err(|e| e.to_string())?;
                } else {
                    let chan = 17 + 3 * table.len() as u32;
                    table.insert(symbol.clone(), chan);
                    ws.send(send(json!({"event":"subscribed","channel":"trades","chanId":chan,"symbol":symbol,"pair":symbol.trim_start_matches('t')})))
                        .await
                        .map_err(|e| e.to_string())?;
                    ws.send(Message::text(format!("[{chan},[[1,1665452200022,0.5,19027.5],[2,1665452200023,-0.25,19027.0]]]"))).await.map_err(|e| e.to_string())?;
                }
            }
            Ok::<_, String>((table, ws))
        };

        let client = async {
            let mut ws = barter_integration::protocol::websocket::connect(format!("ws://127.0.0.1:{port}")).await.map_err(|e| format!("connect: {e}"))?;
            for m in meta.ws_subscriptions {
                ws.send(m).await.map_err(|e| format!("send: {e}"))?;
            }
            let (map, _buffered) = BitfinexWebSocketSubValidator::validate::<Bitfinex, K, PublicTrades>(meta.instrument_map, &mut ws)
                .await
                .map_err(|e| format!("validate: {e}"))?;
            Ok::<_, String>((map, ws))
        };

        let (s, c) = tokio::join!(server, client);
        let (table, _sws) = s?;
        let (map, _cws) = c?;
        Ok((map, table))
    });
    res.map_err(|e| (e, rejected.get()))
}

/// Machinery health probe (no code under test involved): a one-byte round trip over loopback TCP must complete
/// within half a second of wall-clock time. Used only to decide whether an unexplained handshake failure may be
/// turned into a verdict or is a machinery failure.
fn loopback_healthy() -> bool {
    use tokio::io::{AsyncReadExt, AsyncWriteExt};
    let start = std::time::Instant::now();
    let Ok(rt) = tokio::runtime::Builder::new_current_thread().enable_all().build() else { return false };
    let ok = rt.block_on(async {
        let Ok(l) = tokio::net::TcpListener::bind("127.0.0.1:0").await else { return false };
        let Ok(addr) = l.local_addr() else { return false };
        let srv = async {
            let Ok((mut s, _)) = l.accept().await else { return false };
            let mut b = [0u8; 1];
            s.read_exact(&mut b).await.is_ok() && s.write_all(&b).await.is_ok()
        };
        let cli = async {
            let Ok(mut c) = tokio::net::TcpStream::connect(addr).await else { return false };
            let mut b = [7u8; 1];
            c.write_all(&b).await.is_ok() && c.read_exact(&mut b).await.is_ok()
        };
        let (a, b) = tokio::join!(srv, cli);
        a && b
    });
    ok && start.elapsed() < std::time::Duration::from_millis(500)
}

/// Dispatch (pair, flavour) to the monomorphic driver.
fn run_config(pair: usize, flavour: usize, a: &Args) -> Driven {
    macro_rules! arms {
        ($( $i:literal => $ex:ty, $kind:expr ;)*) => {
            match (pair, flavour) {
                $(
                    ($i, 0) => drive::<$ex, Keyed<u32, MarketDataInstrument>, _>($kind, a),
                    ($i, 1) => drive::<$ex, MarketInstrumentData<u32>, _>($kind, a),
                    ($i, 2) => drive::<$ex, MarketDataInstrument, _>($kind, a),
                    ($i, 3) => drive::<$ex, MarketInstrumentData<InstrumentIndex>, _>($kind, a),
                    ($i, 4) => drive::<$ex, Keyed<InstrumentIndex, MarketDataInstrument>, _>($kind, a),
                )*
                _ => unreachable!("unknown pair/flavour"),
            }
        };
    }
    arms! {
        0 => BinanceSpot, PublicTrades;
        1 => BinanceSpot, OrderBooksL1;
        2 => BinanceSpot, OrderBooksL2;
        3 => BinanceFuturesUsd, PublicTrades;
        4 => BinanceFuturesUsd, OrderBooksL1;
        5 => BinanceFuturesUsd, OrderBooksL2;
        6 => BinanceFuturesUsd, Liquidations;
        7 => Bitfinex, PublicTrades;
        8 => Bitmex, PublicTrades;
        9 => BybitSpot, PublicTrades;
        10 => BybitPerpetualsUsd, PublicTrades;
        11 => Coinbase, PublicTrades;
        12 => GateioSpot, PublicTrades;
        13 => GateioFuturesUsd, PublicTrades;
        14 => GateioFuturesBtc, PublicTrades;
        15 => GateioPerpetualsUsd, PublicTrades;
        16 => GateioPerpetualsBtc, PublicTrades;
        17 => GateioOptions, PublicTrades;
        18 => Kraken, PublicTrades;
        19 => Kraken, OrderBooksL1;
        20 => Okx, PublicTrades;
    }
}

// ------------------------------------------------------------------------------------------------
// Oracle
// ------------------------------------------------------------------------------------------------

#[derive(Default)]
struct Stats {
    configs: AtomicU64,
    evaluations: AtomicU64,
    events_checked: AtomicU64,
    subscribed_msgs: AtomicU64,
    unsubscribed_msgs: AtomicU64,
    collision_msgs: AtomicU64,
    collision_configs: AtomicU64,
    collision_handshake_rejected: AtomicU64,
    /// messages judged on the ways 1.. of `PATHS`
    other_way_msgs: AtomicU64,
    /// configurations whose further ways were not judged because the direct way already reported for them
    other_ways_gated: AtomicU64,
    request_checks: AtomicU64,
}

/// The library's own unidentifiable-subscription error (`SocketError::Unidentifiable` as a `DataError`) for a probe id,
/// rendered like the observed errors and cut at the id: the error KIND the statement names, whatever its wording.
fn unidentifiable_template() -> &'static Vec<String> {
    static T: std::sync::OnceLock<Vec<String>> = std::sync::OnceLock::new();
    T.get_or_init(|| {
        const PROBE: &str = "vcheck-probe-id-7f3a";
        let e = barter_data::error::DataError::from(barter_integration::error::SocketError::Unidentifiable(barter_integration::subscription::SubscriptionId::from(PROBE)));
        format!("{e} / {e:?}").split(PROBE).map(str::to_string).collect()
    })
}

fn denotes_unidentifiable(err: &str, market: &str) -> bool {
    // (a) the observed error is the library's unidentifiable-subscription error for some id
    let parts = unidentifiable_template();
    let is_kind = parts.len() >= 2 && err.starts_with(parts[0].as_str()) && err.ends_with(parts[parts.len() - 1].as_str()) && {
        let mut at = parts[0].len();
        parts[1..].iter().all(|p| err[at..].find(p.as_str()).map(|k| at += k + p.len()).is_some())
    };
    // (b) or says so in words / names the market it could not identify
    let l = err.to_lowercase();
    is_kind || l.contains("unidentifiable") || l.contains("unidentified") || l.contains("unknown subscription") || err.contains(market)
}

fn near(a: f64, b: f64) -> bool {
    (a - b).abs() <= 1e-9 * b.abs().max(1.0)
}

/// Why does the table not know the id the message produces? Compares the market part of the table's id for an
/// owner with the venue's way of writing the market.
fn cause_of_miss(d: &Driven, owners: &BTreeSet<usize>, market: &str) -> &'static str {
    let strip = |s: &str| s.chars().filter(|c| !c.is_ascii_digit()).collect::<String>();
    for (id, k) in &d.map_ids {
        if k.is_some_and(|k| owners.contains(&k)) {
            let mkt = id.rsplit_once('|').map(|x| x.1).unwrap_or(id);
            return if mkt == market {
                "channel-part-differs"
            } else if mkt.eq_ignore_ascii_case(market) {
                "market-case-differs"
            } else if strip(mkt) == strip(market) {
                "market-digits-differ"
            } else {
                "market-differs"
            };
        }
    }
    "owner-not-in-table"
}

/// Evaluate the oracle over every message of one configuration on every way of `PATHS`: the direct way first; the
/// further ways only where the direct way is clean (so that a connector defect is reported once, where it lives).
fn judge(spec: &PairSpec, flavour: usize, via: usize, subset: &[usize], d: &Driven, stats: &Stats, outcomes: &mut BTreeSet<String>, report: &mut dyn FnMut(String, String, &str, &str)) {
    let mut n = 0usize;
    judge_way(spec, flavour, via, subset, d, 0, stats, outcomes, &mut |sig, detail, market, variant| {
        n += 1;
        report(sig, detail, market, variant)
    });
    if n > 0 {
        stats.other_ways_gated.fetch_add(1, Relaxed);
        return;
    }
    for way in 1..PATHS.len() {
        judge_way(spec, flavour, via, subset, d, way, stats, outcomes, &mut |sig, detail, market, variant| {
            // one signature per (way, rule, cause): the ways are connector independent code
            let parts: Vec<&str> = sig.split('/').collect();
            let sig = format!("C13/via-{}/{}/{}", PATHS[way], parts.get(1).copied().unwrap_or("?"), parts.last().copied().unwrap_or("?"));
            report(sig, format!("way={} {detail}", PATHS[way]), market, variant)
        });
    }
}

/// The oracle over every message of one configuration as observed on one way. `report(signature, detail, market, variant)`.
fn judge_way(spec: &PairSpec, flavour: usize, via: usize, subset: &[usize], d: &Driven, way: usize, stats: &Stats, outcomes: &mut BTreeSet<String>, report: &mut dyn FnMut(String, String, &str, &str)) {
    let fam = format!("{:?}", spec.fam);
    let flav = FLAVOURS[flavour];
    // signature component: how the market was obtained (keyed and plain share the connector's `*_market` function)
    let how = if flavour == 1 || flavour == 3 { "exchange-name" } else { "derived-from-base-quote" };
    let via_s = VIAS[via];
    // owners per venue market (canonical key indices)
    let owners_of = |market: &str| -> BTreeSet<usize> {
        subset.iter().filter(|i| venue_symbol(spec.fam, &spec.menu[**i]) == market).map(|i| d.canon[*i]).collect()
    };
    let kinds_of = |market: &str| -> &'static str {
        subset.iter().find(|i| venue_symbol(spec.fam, &spec.menu[**i]) == market).map(|i| spec.menu[*i].kind.tag()).unwrap_or("-")
    };
    // two subscriptions (even for an identical instrument) under one venue market
    let colliding = spec.universe().iter().any(|m| subset.iter().filter(|i| venue_symbol(spec.fam, &spec.menu[**i]) == *m).count() > 1);
    if colliding && way == 0 {
        stats.collision_configs.fetch_add(1, Relaxed);
    }

    if way > 0 && d.setup_err.is_some() {
        return;
    }
    if let Some(e) = &d.setup_err {
        // The connection could not even be set up: every subscribed market is lost. A venue refusing a duplicate
        // subscribe of two instruments sharing one market is a configuration the statement cannot separate.
        if colliding && spec.fam == Fam::Bitfinex {
            stats.collision_handshake_rejected.fetch_add(1, Relaxed);
            return;
        }
        // (the market named in the report: of the mis-indexed instrument if that is the problem, else of the first)
        let culprit = subset.iter().find(|i| e.contains(&format!("{:?}", spec.menu[**i]))).unwrap_or(&subset[0]);
        let m = venue_symbol(spec.fam, &spec.menu[*culprit]);
        let what = if e.starts_with("indexing: wrong-instrument") {
            "subscription-indexed-under-other-instrument"
        } else if e.starts_with("indexing:") {
            "subscription-indexing-failed"
        } else if e.starts_with("dynamic validation:") {
            "dynamic-validation-rejected"
        } else if !e.contains("handshake") {
            "transformer-init-failed"
        } else if d.unsettled {
            "subscription-validation-does-not-complete"
        } else {
            "venue-rejects-subscription"
        };
        report(format!("C13/R1-subscribed-market-lost/{fam}/{}/{how}/{what}", kinds_of(&m)), format!("pair={} flavour={flav} via={via_s} subset={subset:?}: {e}", spec.name), &m, "");
        return;
    }

    // ---- R1, request side: the venue streams what it was asked for, so every subscribed instrument's market must be
    // named in a subscribe request (spelling: `requested_markets`)
    if let (0, Some(req)) = (way, &d.requested) {
        stats.request_checks.fetch_add(1, Relaxed);
        match req {
            Err(e) => {
                let m = venue_symbol(spec.fam, &spec.menu[subset[0]]);
                report(format!("C13/R1-subscribed-market-lost/{fam}/{}/{how}/subscribe-request-not-in-the-venue-format", kinds_of(&m)), format!("pair={} flavour={flav} via={via_s} subset={subset:?}: {e}", spec.name), &m, "");
            }
            Ok(markets) => {
                for i in subset {
                    let m = venue_symbol(spec.fam, &spec.menu[*i]);
                    if !markets.contains(&m) {
                        report(
                            format!("C13/R1-subscribed-market-lost/{fam}/{}/{how}/subscribe-request-does-not-name-the-market", spec.menu[*i].kind.tag()),
                            format!("pair={} flavour={flav} via={via_s} subset={subset:?}: the venue writes the market of {:?} as {m}; the subscribe requests ask for {markets:?} (venue spelling), table={:?}", spec.name, spec.menu[*i], d.map_ids),
                            &m,
                            "",
                        );
                    }
                }
            }
        }
    }

    for (msg, obs) in d.msgs.iter().zip(&d.obs[way]) {
        stats.evaluations.fetch_add(1, Relaxed);
        if way > 0 {
            stats.other_way_msgs.fetch_add(1, Relaxed);
        }
        let owners = owners_of(&msg.market);
        let mut rep = |sig: String, detail: String| report(sig, format!("pair={} flavour={flav} via={via_s} subset={subset:?} market={} variant={} table={:?}: {detail}", spec.name, msg.market, msg.variant, d.map_ids), &msg.market, msg.variant);
        let class: String;
        if owners.is_empty() {
            // ---- R5: nobody subscribed this market
            stats.unsubscribed_msgs.fetch_add((way == 0) as u64, Relaxed);
            class = match obs {
                MsgObs::DeErr(e) => {
                    rep(format!("C13/R5-unsubscribed/{fam}/payload-not-deserialisable"), format!("deserialise error {e}"));
                    "unsub:de-err".into()
                }
                MsgObs::Panic => {
                    rep(format!("C13/R5-unsubscribed/{fam}/panic"), "transform panicked".into());
                    "unsub:panic".into()
                }
                MsgObs::Out(items) if items.is_empty() => {
                    rep(format!("C13/R5-unsubscribed/{fam}/silently-dropped"), "no output at all, expected an unidentifiable-subscription error".into());
                    "unsub:empty".into()
                }
                MsgObs::Out(items) => {
                    let mut c = "unsub:unidentifiable-error";
                    for it in items {
                        match it {
                            Ok(ev) => {
                                rep(
                                    format!("C13/R5-unsubscribed/{fam}/event-for-other-instrument"),
                                    format!("message for a market nobody subscribed produced an event carrying key {:?}", ev.key),
                                );
                                c = "unsub:event";
                            }
                            Err(e) if !denotes_unidentifiable(e, &msg.market) => {
                                rep(format!("C13/R5-unsubscribed/{fam}/other-error"), format!("error does not denote an unidentifiable subscription: {e}"));
                                c = "unsub:other-error";
                            }
                            Err(_) => {}
                        }
                    }
                    c.into()
                }
            };
        } else {
            // ---- R1..R4: at least one subscribed instrument under this market
            stats.subscribed_msgs.fetch_add((way == 0) as u64, Relaxed);
            if owners.len() > 1 {
                stats.collision_msgs.fetch_add((way == 0) as u64, Relaxed);
            }
            let ik = kinds_of(&msg.market);
            class = match obs {
                MsgObs::DeErr(e) => {
                    rep(format!("C13/R1-subscribed-no-event/{fam}/{how}/{ik}/payload-not-deserialisable"), format!("deserialise error {e}"));
                    "sub:de-err".into()
                }
                MsgObs::Panic => {
                    rep(format!("C13/R1-subscribed-no-event/{fam}/{how}/{ik}/panic"), "transform panicked".into());
                    "sub:panic".into()
                }
                MsgObs::Out(items) => {
                    let mut c = String::from("sub:ok");
                    if let Some(e) = items.iter().find_map(|i| i.as_ref().err()) {
                        if denotes_unidentifiable(e, &msg.market) {
                            let cause = cause_of_miss(d, &owners, &msg.market);
                            rep(
                                if via == 1 && cause == "owner-not-in-table" {
                                    // only the `DynamicStreams` front end can lose a subscription before the mapper
                                    "C13/R1-subscribed-market-unidentifiable/dynamic-front-end-dropped-subscription".to_string()
                                } else if cause == "market-differs" || cause == "channel-part-differs" {
                                    format!("C13/R1-subscribed-market-unidentifiable/{fam}/{how}/{cause}/{ik}")
                                } else {
                                    format!("C13/R1-subscribed-market-unidentifiable/{fam}/{how}/{cause}")
                                },
                                format!("message for a subscribed market was rejected: {e}"),
                            );
                            c = format!("sub:unidentifiable:{cause}");
                        } else {
                            rep(format!("C13/R1-subscribed-no-event/{fam}/{how}/{ik}/other-error"), format!("error instead of event: {e}"));
                            c = "sub:other-error".into();
                        }
                    } else if items.len() != msg.expect.len() {
                        rep(
                            format!("C13/R1-event-count/{fam}/{how}/{}", if items.len() < msg.expect.len() { "too-few" } else { "too-many" }),
                            format!("{} events for a payload stating {} trades/updates", items.len(), msg.expect.len()),
                        );
                        c = "sub:count".into();
                    } else {
                        let vals_match = |ev: &ObsEv, exp: &Exp| ev.nums.len() == exp.nums.len() && ev.nums.iter().zip(&exp.nums).all(|(g, alts)| alts.iter().any(|w| near(*g, *w) || (g.is_nan() && w.is_nan())));
                        let mut evs: Vec<&ObsEv> = items.iter().map(|i| i.as_ref().unwrap()).collect();
                        // in which order the events of one batch payload come out is not prescribed (the statement speaks of
                        // each event, not of their sequence) - on any way
                        if evs.len() == 2 && !vals_match(evs[0], &msg.expect[0]) && vals_match(evs[0], &msg.expect[1]) {
                            evs.swap(0, 1);
                        }
                        for (ev, exp) in evs.into_iter().zip(&msg.expect) {
                            stats.events_checked.fetch_add(1, Relaxed);
                            if let Some(diff) = &ev.conv_diff {
                                rep("C13/R4-values/conversion-to-DataKind-event-alters-key-exchange-time-or-values".to_string(), diff.clone());
                                c = "sub:datakind-conversion".into();
                            }
                            if !ev.key.is_some_and(|k| owners.contains(&k)) {
                                rep(
                                    format!("C13/R2-misattributed/{fam}/{how}"),
                                    format!("event carries key {:?}, instruments subscribed under this market: {owners:?}", ev.key),
                                );
                                c = "sub:misattributed".into();
                            }
                            if ev.exchange != spec.id {
                                rep(format!("C13/R3-exchange-id/{fam}/{how}"), format!("event exchange {} != {}", ev.exchange, spec.id));
                                c = "sub:exchange".into();
                            }
                            if !vals_match(ev, exp) {
                                rep(
                                    format!("C13/R4-values/{fam}/{:?}/price-or-amount", spec.sk),
                                    format!("event numbers {:?}, payload states {:?}", ev.nums, exp.nums),
                                );
                                c = "sub:values".into();
                            }
                            if ev.side != exp.side {
                                rep(format!("C13/R4-values/{fam}/{:?}/side", spec.sk), format!("event side {:?}, payload states {:?}", ev.side, exp.side));
                                c = "sub:side".into();
                            }
                            if !exp.times.is_empty() && !exp.times.iter().any(|t| (ev.time - *t).num_microseconds().is_some_and(|us| us.abs() <= 1000)) {
                                rep(
                                    format!("C13/R4-values/{fam}/{:?}/exchange-time", spec.sk),
                                    format!("event time_exchange {}, payload carries {:?}", ev.time, exp.times),
                                );
                                c = "sub:time".into();
                            }
                            // an exchange time inside the event kind (L1 `last_update_time`, `Liquidation::time`, L2 `time_engine`)
                            if let Some((label, kt)) = ev.kind_time {
                                if !exp.times.is_empty() && !exp.times.iter().any(|t| (kt - *t).num_microseconds().is_some_and(|us| us.abs() <= 1000)) {
                                    rep(
                                        format!("C13/R4-values/{fam}/{:?}/{label}", spec.sk),
                                        format!("event kind's {label} {kt}, payload carries {:?}", exp.times),
                                    );
                                    c = "sub:kind-time".into();
                                }
                            }
                        }
                        if owners.len() > 1 && c == "sub:ok" {
                            c = "sub:ok-collision".into();
                        }
                    }
                    c
                }
            };
        }
        if way > 0 {
            outcomes.insert(format!("{}|way-{}|{class}", spec.name, PATHS[way]));
            continue;
        }
        outcomes.insert(format!("{}|{flav}|{class}", spec.name));
        if via == 1 {
            outcomes.insert(format!("{}|via-dynamic|{class}", spec.name));
        }
    }
}

// ------------------------------------------------------------------------------------------------
// Exploration
// ------------------------------------------------------------------------------------------------

/// Ordered instrument sets: every subset up to `max_set` in ascending menu order, plus every other ordering for
/// sets up to `max_perm` (order matters only when two instruments share a market: the table keeps the last).
fn instrument_sets(n: usize, max_set: usize, max_perm: usize) -> Vec<Vec<usize>> {
    use itertools::Itertools;
    let mut out = Vec::new();
    for k in 1..=max_set.min(n) {
        for c in (0..n).combinations(k) {
            if k <= max_perm {
                for p in c.iter().copied().permutations(k) {
                    out.push(p);
                }
            } else {
                out.push(c);
            }
        }
    }
    out
}

fn case_json(spec: &PairSpec, flavour: usize, via: usize, subset: &[usize], market: &str, variant: &str) -> Value {
    json!({
        "pair": spec.name,
        "flavour": FLAVOURS[flavour],
        "via": VIAS[via],
        "subset": subset,
        "instruments": subset.iter().map(|i| format!("{}/{}:{:?}", spec.menu[*i].base, spec.menu[*i].quote, spec.menu[*i].kind)).collect::<Vec<_>>(),
        "market": market,
        "variant": variant,
    })
}

pub fn run(ctx: &Ctx) -> Outcome {
    let specs = pair_specs();
    // sanity: every menu instrument is one `DynamicStreams::init` accepts for that (exchange, kind)
    for s in &specs {
        for m in &s.menu {
            if !exchange_supports_instrument_kind_sub_kind(&s.id, &m.kind.real(), s.sk.sub_kind()) {
                eprintln!("MACHINERY: C13 menu instrument {m:?} is not supported by DynamicStreams for {}", s.name);
                std::process::exit(2);
            }
        }
    }
    let (max_set, max_perm) = ctx.tier.pick((3, 2), (8, 3));
    // Bitfinex needs a TCP handshake per configuration: keep its sets a little smaller in the thorough tier
    let bitfinex_max_set = ctx.tier.pick(3, 5);

    // (pair, flavour, via, ordered instrument set); the `dynamic` front end sorts the batch itself, so it is run for
    // the ascending sets only
    let mut configs: Vec<(usize, usize, usize, Vec<usize>)> = Vec::new();
    for (pi, s) in specs.iter().enumerate() {
        let ms = if s.fam == Fam::Bitfinex { max_set.min(bitfinex_max_set) } else { max_set };
        for set in instrument_sets(s.menu.len(), ms, max_perm) {
            for fl in 0..FLAVOURS.len() {
                configs.push((pi, fl, 0, set.clone()));
                if set.windows(2).all(|w| w[0] < w[1]) {
                    configs.push((pi, fl, 1, set.clone()));
                }
            }
        }
    }

    let stats = Stats::default();
    let outcomes: Mutex<BTreeSet<String>> = Mutex::new(BTreeSet::new());
    let tables = Distinct::default();
    let samples = Samples::new(6);
    let per_pair: Mutex<BTreeMap<&'static str, (u64, u64)>> = Mutex::new(BTreeMap::new());

    let unsettled: Mutex<Vec<(usize, usize, usize, Vec<usize>)>> = Mutex::new(Vec::new());
    configs.par_iter().for_each(|(pi, fl, via, set)| {
        let spec = &specs[*pi];
        let d = run_config(*pi, *fl, &Args { spec, subset: set, dynamic: *via == 1, only: None });
        stats.configs.fetch_add(1, Relaxed);
        if d.unsettled {
            unsettled.lock().unwrap().push((*pi, *fl, *via, set.clone()));
            return;
        }
        tables.add(&(spec.name, *fl, *via, &d.map_ids));
        let mut local = BTreeSet::new();
        judge(spec, *fl, *via, set, &d, &stats, &mut local, &mut |sig, detail, market, variant| {
            ctx.violate(sig, detail, case_json(spec, *fl, *via, set, market, variant));
        });
        outcomes.lock().unwrap().extend(local);
        {
            let mut g = per_pair.lock().unwrap();
            let e = g.entry(spec.name).or_insert((0, 0));
            e.0 += 1;
            e.1 += d.obs.iter().map(|o| o.len() as u64).sum::<u64>();
        }
        if set.len() == 2 && *fl == 1 && *via == 0 && (*pi == 0 || *pi == 18 || *pi == 20) && set[0] == 0 {
            samples.offer(|| json!({"case": case_json(spec, *fl, *via, set, "", ""), "table": d.map_ids, "messages": d.msgs.len()}));
        }
    });

    // Handshakes that failed without a venue rejection: repeat one by one in a quiet process, bracketed by
    // environment health probes. A failure in a healthy environment is a verdict, otherwise machinery failure.
    let mut unsettled = unsettled.into_inner().unwrap();
    unsettled.sort();
    let resettled = unsettled.len();
    for (pi, fl, via, set) in unsettled {
        let spec = &specs[pi];
        let before = loopback_healthy();
        let d = run_config(pi, fl, &Args { spec, subset: &set, dynamic: via == 1, only: None });
        let after = loopback_healthy();
        if d.unsettled && !(before && after) {
            eprintln!("MACHINERY: C13 loopback handshake for {} {:?} failed in an unhealthy environment ({:?}); no verdict", spec.name, set, d.setup_err);
            std::process::exit(2);
        }
        tables.add(&(spec.name, fl, via, &d.map_ids));
        let mut local = BTreeSet::new();
        judge(spec, fl, via, &set, &d, &stats, &mut local, &mut |sig, detail, market, variant| {
            ctx.violate(sig, detail, case_json(spec, fl, via, &set, market, variant));
        });
        outcomes.lock().unwrap().extend(local);
    }
    let outcomes = outcomes.into_inner().unwrap();
    let per_pair = per_pair.into_inner().unwrap();
    Outcome {
        level: "exploration",
        coverage: json!({
            "evaluations": stats.evaluations.load(Relaxed),
            "distinct_nontrivial": outcomes.len(),
            "distinct_subscription_tables": tables.len(),
            "configurations": stats.configs.load(Relaxed),
            "events_checked": stats.events_checked.load(Relaxed),
            "messages_for_subscribed_markets": stats.subscribed_msgs.load(Relaxed),
            "messages_for_unsubscribed_markets": stats.unsubscribed_msgs.load(Relaxed),
            "informational_collision_configurations": stats.collision_configs.load(Relaxed),
            "informational_collision_messages": stats.collision_msgs.load(Relaxed),
            "informational_collision_bitfinex_duplicate_subscribe_rejected": stats.collision_handshake_rejected.load(Relaxed),
            "bitfinex_handshakes_repeated_sequentially": resettled,
            "ways_a_payload_reaches_the_transformer": PATHS,
            "messages_judged_on_the_exchange_stream_and_buffered_ways": stats.other_way_msgs.load(Relaxed),
            "configurations_whose_further_ways_were_not_judged_because_the_direct_way_reported": stats.other_ways_gated.load(Relaxed),
            "configurations_whose_subscribe_requests_were_read_by_the_venue_model": stats.request_checks.load(Relaxed),
            "connector_kind_pairs": specs.len(),
            "flavours": FLAVOURS,
            "max_set_size": max_set,
            "max_permuted_set_size": max_perm,
            "bitfinex": "full: real BitfinexWebSocketSubValidator::validate against a scripted venue on loopback TCP, data messages carry the allocated channel ids",
            "per_pair_configs_and_messages": per_pair.iter().map(|(k, v)| json!({"pair": k, "configs": v.0, "messages": v.1})).collect::<Vec<_>>(),
            "outcome_classes": outcomes.iter().collect::<Vec<_>>(),
            "exhaustive": true,
            "vias": VIAS,
            "rule": "for each of the 21 DynamicStreams (connector, kind) arms x 5 instrument flavours (incl. the two produced by the real generate_indexed_market_data_subscription_batches / index_market_data_subscription_batches from real IndexedInstruments) x every ordered instrument set (bounds above) from the connector's menu x {direct, through the real validate_batches front end of DynamicStreams::init (ascending sets)}: real WebSocketSubMapper::map -> [Bitfinex: real validator handshake] -> real ExchangeTransformer::init of the StreamSelector's transformer -> the subscribe requests read by a model of the venue's request format (which markets will it stream?) -> for every venue market (subscribed or not) 2-5 synthesised payloads (incl. one-sided L1 tops of book), each on three ways: serde_json::from_str::<Input> -> transform; a text frame through the real ExchangeStream<WebSocketParser, _, Transformer>; the real process_buffered_events -> real conversion into MarketEvent<_, DataKind>; oracle R1-R5 of the module doc (+ indexed key = index of the named instrument, L1 last_update_time, conversion preserves the event)",
            "samples": samples.take(),
        }),
        assumptions: vec![
            "payload templates and the venue's spelling of a market follow the raw payload examples in the connectors' doc comments / unit-test fixtures (message side only)".into(),
            "Gate.io perpetual trades use channel `futures.trades` (the venue doc linked from the connector; the `perpetual.trades` string in one unit-test fixture is not a venue channel)".into(),
            "MarketInstrumentData.name_exchange is the venue's own spelling of the market (the engine passes the exchange name verbatim)".into(),
            "two subscribed instruments whose venue markets coincide (btc/usdt vs BTC/usdt, eth/btc vs ethb/tc on concatenating venues) cannot be separated: either key is accepted (informational counters)".into(),
            "where the venue encodes the side in the sign of the size (Gate.io futures, Bitfinex) a signed or an absolute amount is accepted; any time stamp carried by the message is accepted as exchange time (1 ms tolerance)".into(),
            "a batch payload carries trades of one market (as in every doc-comment example)".into(),
            "BitMEX: the amount of a trade is its `size`; `foreignNotional` equals it only for XBTUSD (the doc-comment example), other contracts carry another number there".into(),
            "Binance L2: the harness supplies the initial snapshot (lastUpdateId 100) through the real snapshot conversion since there is no network; updates are sequenced so that the sequencer accepts them".into(),
            "instrument sets of at most max_set_size instruments per connection".into(),
            "prices / quantities are decimal strings with 2 and 8 decimals, mostly not exactly representable in binary, compared with 1e-9 relative tolerance".into(),
            "an L1 event's last_update_time, a Liquidation's time and an L2 book's time_engine (where the connector sets one) are exchange times of the message: judged like time_exchange (any time stamp the message carries), only where the message carries a time".into(),
            "the conversion into MarketEvent<_, DataKind> (DynamicStreams::select_all, the engine's path) is a wrapper: it must not change key, exchange, exchange time or values".into(),
            "a venue streams the markets named in the subscribe requests; its request format is the one documented at the connector's Connector::requests (Binance stream names lower case, every other venue the spelling of its data messages; Coinbase product ids at the top level or per channel object); the channel part of a request is not judged".into(),
            "an empty side of an L1 top of book is written by the venue as zero price and zero quantity (the value the connectors test for); the event may show that side as absent or as a zero level".into(),
            "the order in which the events of one batch payload are emitted is free (on every way); the exchange-stream and buffered ways are judged with R1-R5 like the direct way, for a configuration only if the direct way reported nothing for it".into(),
            "`dynamic` front end: only validate_batches (validate, sort, dedup) and the re-wrapping are driven; the arms of DynamicStreams::init themselves open network connections and are not".into(),
        ],
    }
}

pub fn replay(ctx: &Ctx, case: &Value) {
    let specs = pair_specs();
    let name = case["pair"].as_str().unwrap_or("");
    let Some(pi) = specs.iter().position(|s| s.name == name) else {
        eprintln!("MACHINERY: C13 replay: unknown pair {name}");
        std::process::exit(2)
    };
    let fl = FLAVOURS.iter().position(|f| Some(*f) == case["flavour"].as_str()).unwrap_or(0);
    let via = VIAS.iter().position(|f| Some(*f) == case["via"].as_str()).unwrap_or(0);
    let subset: Vec<usize> = case["subset"].as_array().map(|a| a.iter().filter_map(|v| v.as_u64().map(|x| x as usize)).collect()).unwrap_or_default();
    if subset.is_empty() || subset.iter().any(|i| *i >= specs[pi].menu.len()) {
        eprintln!("MACHINERY: C13 replay: bad subset");
        std::process::exit(2)
    }
    let market = case["market"].as_str().filter(|s| !s.is_empty());
    let variant = case["variant"].as_str().filter(|s| !s.is_empty());
    let spec = &specs[pi];
    let d = run_config(pi, fl, &Args { spec, subset: &subset, dynamic: via == 1, only: market.map(|m| (m, variant)) });
    if d.unsettled && !loopback_healthy() {
        eprintln!("MACHINERY: C13 replay: loopback handshake failed in an unhealthy environment; no verdict");
        std::process::exit(2)
    }
    println!("replay {} flavour={} via={} subset={subset:?} table={:?} setup_err={:?}", spec.name, FLAVOURS[fl], VIAS[via], d.map_ids, d.setup_err);
    println!("  subscribe requests name (venue spelling): {:?}", d.requested);
    for (way, obs) in d.obs.iter().enumerate() {
        for (m, o) in d.msgs.iter().zip(obs) {
            println!("  [{}] payload[{} {}] {} -> {o:?}", PATHS[way], m.market, m.variant, m.json);
        }
    }
    let stats = Stats::default();
    let mut oc = BTreeSet::new();
    judge(spec, fl, via, &subset, &d, &stats, &mut oc, &mut |sig, detail, mk, var| {
        // when the recorded case names a variant, only that message is the subject
        if variant.is_none_or(|v| v == var) {
            ctx.violate(sig, detail, case.clone());
        }
        let _ = mk;
    });
}
