//! C15 — Unrealised PnL of an open position tracks the instrument's latest price.
//!
//! E-SEQ through the REAL `Engine::process` on an engine with three instruments on two exchanges (the
//! two driven instruments have indices 1 and 2, on exchange 0 and 1, so no index is 0 and instrument
//! index != exchange index). Every history of length <= d over the alphabet, per driven instrument:
//!   * fills (account `Trade` events): side{Buy,Sell} x qty{1,2} x price{100,110} x fee{0,0.3}
//!   * public trades: time{newer, equal, older than every event seen for the instrument} x price{100,120}
//!   * top-of-book (L1): time{newer, equal, older} x book{99x1|101x1 (mid 100), 104x1|108x3 (vw-mid 105)}
//!   * unpriced market events: a liquidation, an L1 with both sides empty (newer / older)
//! ("newer/equal/older" are relative to the greatest timestamp - market event or fill - the instrument
//! has seen, so stale and duplicate timestamps are reachable in every state; the first market event is
//! always "newer"; a fill is stamped newer than everything before it on its instrument, except in the
//! `fill-times` configuration below).
//!
//! Oracle (from the statement). est(x) = side * qty * (x - entry average) - (qty / qty_max) * fees_enter
//! is recomputed here from the position's own fields ("price move on the open quantity minus pro-rata
//! estimated exit fees"). After every event, for the event's instrument i with an open position:
//!   (a) priced market event (trade / two-sided L1) strictly newer than every event (market or fill) i has seen
//!       => pnl_unrealised == est(current price of i), where the current price is what the real
//!          `InstrumentDataState::price()` reports after the event          [sentence 1 of the statement]
//!   (b) fill on i at price f leaving a position open => pnl_unrealised == est(f) [sentence 2]; for the
//!       fill that OPENS the position (also the remainder of a flip) the value 0 is accepted as well:
//!       nothing has moved yet and the repository's own unit tests pin 0 there (noted in the coverage)
//!   (c) any other market event on i (stale / equal timestamp, liquidation, empty book): the statement
//!       is silent => "still an allowed value" and est(current price) are both accepted
//!   (d) an event on another instrument leaves pnl_unrealised of i unchanged ("until newer market data
//!       arrives" - data of another instrument is not data for i) - or at a value the monitor allows for i
//!       anyway (soundness round: the statement fixes the VALUE of i's estimate, not the moment the engine
//!       writes it): one of i's allowed sources, or, after a fill that was not the newest thing i had seen,
//!       the estimate at i's own current price (market data newer than that fill has already arrived; an
//!       engine that heals such a position on the next market event of any instrument keeps the statement).
//!       Never the estimate at ANOTHER instrument's price or at a price older than i's last fill.
//!   (e) the pro-rata basis of the exit-fee estimate: the documented estimate charges the entry fees
//!       pro rata of open quantity / MAXIMUM quantity the position has reached ("fees_enter was the fee
//!       cost to enter a position of quantity_abs_max"). est() reads quantity_abs_max from the position;
//!       after every fill that field is compared with the maximum of |net filled quantity| over the
//!       position's life (reference, from the fills only) and a difference that changes the estimate
//!       (non-zero entry fees) is reported under its own signature.
//! Further configurations (hardening rounds):
//!   * `trio`: all THREE instruments are driven (a0 and a1 share exchange 0, a0 and b0 share the
//!     underlying btc/usdt on different exchanges, a0 has index 0), narrow alphabet, so rule (d) also
//!     covers "another instrument of the same exchange" and "the same market on another venue".
//!   * `fill-times`: fills are also stamped EQUAL to / OLDER than the greatest timestamp the instrument
//!     has seen (fills reported out of order, or after market data that is already newer). Sentence 2
//!     still applies ("after a fill ... the estimate at the fill price"); because market data newer than
//!     such a fill may already have arrived, the estimate at the instrument's current price is accepted
//!     as well - but never a value left over from before the fill (computed for another quantity).
//!   * `idle-events` (hardening round 2): between the fills and market events the engine also processes
//!     events that carry NEITHER a fill NOR market data - an order snapshot for the instrument, a balance
//!     snapshot / an account-stream `Reconnecting` / a market-stream `Reconnecting` of its exchange, a
//!     trading-state update (so the later events run with trading enabled, i.e. through the algo branch of
//!     `Engine::process`, as well as disabled). Rule (f): such an event leaves the estimate of EVERY open
//!     position where it was ("after a fill it equals the estimate at the fill price UNTIL NEWER MARKET
//!     DATA arrives"; after a priced market event it is the estimate at the current price, which such an
//!     event does not move) - a value that is one of the monitor's allowed sources is accepted too. And
//!     the fills / market events that follow are judged by (a)-(e) as before, whatever the connectivity
//!     and trading state these events left behind.
//!   * `micro-moves` (hardening round 2): public trades whose price differs from the previous one by 1e-8
//!     (a "dust" move of the estimate, far below the fee share): sentence 1 has no threshold - the
//!     estimate equals the documented one at the CURRENT price however small the move.
//! The monitor keeps, per instrument, the set of allowed sources of the estimate (a price, "0 at open",
//! or - after a reported violation - the observed value, so one defect is reported where it happens and
//! does not cascade). Signatures: rule + abstract cause (left-at-previous-value,
//! estimate-at-price-before-the-event, estimate-at-event-price-not-current-price, ...).

use super::common::*;
use crate::core::{Ctx, Outcome, hash_of};
use crate::explore::seq::{self, SeqModel, Viol};
use barter::{
    EngineEvent,
    engine::{
        Engine, Processor,
        execution_tx::MultiExchangeTxMap,
        state::{
            instrument::data::InstrumentDataState, position::Position, trading::TradingState,
        },
    },
    execution::AccountStreamEvent,
};
use barter_execution::{
    balance::{AssetBalance, Balance},
    order::{
        Order, OrderKey, OrderKind, TimeInForce,
        id::ClientOrderId,
        state::{Open, OrderState},
    },
};
use barter_instrument::asset::{AssetIndex, name::AssetNameInternal};
use barter_integration::snapshot::Snapshot;
use barter_data::{
    books::Level,
    event::{DataKind, MarketEvent},
    streams::consumer::MarketStreamEvent,
    subscription::{book::OrderBookL1, liquidation::Liquidation, trade::PublicTrade},
};
use barter_execution::{
    AccountEvent, AccountEventKind,
    order::id::OrderId,
    trade::{AssetFees, Trade, TradeId},
};
use barter_instrument::{
    Side,
    asset::QuoteAsset,
    exchange::{ExchangeId, ExchangeIndex},
    index::IndexedInstruments,
    instrument::InstrumentIndex,
};
use rust_decimal::Decimal;
use rust_decimal_macros::dec;
use serde::{Deserialize, Serialize};
use serde_json::{Value, json};
use std::{
    panic::{AssertUnwindSafe, catch_unwind},
    sync::atomic::{AtomicU64, Ordering},
};

const QTY: [Decimal; 2] = [dec!(1), dec!(2)];
const FILL_PRICE: [Decimal; 2] = [dec!(100), dec!(110)];
const FEE: [Decimal; 2] = [dec!(0), dec!(0.3)];
/// index 2 (a dust move away from index 0) is used by the `micro-moves` configuration only
const TRADE_PRICE: [f64; 3] = [100.0, 120.0, 100.00000001];
/// (bid price, bid amount, ask price, ask amount)
const BOOK: [(Decimal, Decimal, Decimal, Decimal); 2] =
    [(dec!(99), dec!(1), dec!(101), dec!(1)), (dec!(104), dec!(1), dec!(108), dec!(3))];
const LIQUIDATION_PRICE: f64 = 130.0;

const REL_TOL: Decimal = dec!(0.000000000000000001);
const ABS_TOL: Decimal = dec!(0.000000000000000000000001);

/// Timestamp class relative to the greatest event time (market event or fill) seen so far for the instrument.
#[derive(Debug, Clone, Copy, PartialEq, Eq, Hash, Serialize, Deserialize)]
pub enum T {
    Newer,
    Equal,
    Older,
}

fn t_newer() -> T {
    T::Newer
}
fn is_newer(t: &T) -> bool {
    *t == T::Newer
}

#[derive(Debug, Clone, Copy, PartialEq, Eq, Hash, Serialize, Deserialize)]
pub enum Sym {
    /// fill on driven instrument `i` (0/1): indices into QTY / FILL_PRICE / FEE
    /// `t`: time class of the fill relative to the greatest timestamp seen (default: newer)
    Fill {
        i: u8,
        buy: bool,
        q: u8,
        p: u8,
        f: u8,
        #[serde(default = "t_newer", skip_serializing_if = "is_newer")]
        t: T,
    },
    /// public trade
    Trade { i: u8, t: T, p: u8 },
    /// two-sided top of book
    L1 { i: u8, t: T, b: u8 },
    /// liquidation (never a price source)
    Liquidation { i: u8 },
    /// L1 with no bid and no ask
    EmptyL1 { i: u8, t: T },
    // ---- events without a fill and without market data (`idle-events` configuration, rule (f))
    /// account `OrderSnapshot` of an open order on driven instrument `i`
    OrderSnap { i: u8 },
    /// account `BalanceSnapshot` of the quote asset on the exchange of driven instrument `i`
    Balance { i: u8 },
    /// `AccountStreamEvent::Reconnecting` of the exchange of driven instrument `i`
    AccountReconnecting { i: u8 },
    /// `MarketStreamEvent::Reconnecting` of the exchange of driven instrument `i`
    MarketReconnecting { i: u8 },
    /// `EngineEvent::TradingStateUpdate`
    Trading { on: bool },
}
impl Sym {
    fn instrument(&self) -> usize {
        match *self {
            Sym::Fill { i, .. } | Sym::Trade { i, .. } | Sym::L1 { i, .. } | Sym::Liquidation { i } | Sym::EmptyL1 { i, .. } => i as usize,
            Sym::OrderSnap { i } | Sym::Balance { i } | Sym::AccountReconnecting { i } | Sym::MarketReconnecting { i } => i as usize,
            Sym::Trading { .. } => 0,
        }
    }
    /// neither a fill nor a market data item
    fn is_idle(&self) -> bool {
        matches!(self, Sym::OrderSnap { .. } | Sym::Balance { .. } | Sym::AccountReconnecting { .. } | Sym::MarketReconnecting { .. } | Sym::Trading { .. })
    }
}

/// The engine is not `Clone` (its tx map is not); clone it field by field.
pub struct Eng(pub SEngine);
impl Clone for Eng {
    fn clone(&self) -> Self {
        let e = &self.0;
        Eng(Engine {
            clock: e.clock.clone(),
            meta: e.meta,
            state: e.state.clone(),
            execution_txs: MultiExchangeTxMap::from_iter(
                (&e.execution_txs).into_iter().map(|(x, tx)| (*x, tx.clone())),
            ),
            strategy: e.strategy.clone(),
            risk: e.risk.clone(),
        })
    }
}

/// Where an acceptable value of the estimate comes from.
#[derive(Debug, Clone, Copy, PartialEq)]
enum Src {
    /// est(price)
    Price(Decimal),
    /// the literal 0 of a position that was just opened
    ZeroAtOpen,
    /// a value already reported as a violation (re-synchronisation)
    Observed(Decimal),
}

#[derive(Debug, Clone, Default)]
struct Mon {
    /// net signed filled quantity (reference)
    net: Decimal,
    /// allowed sources for pnl_unrealised of the open position (empty when flat)
    allowed: Vec<Src>,
    /// greatest event time (market event or fill; seconds after t0) seen for this instrument
    max_t: Option<i64>,
    /// greatest |net| the open position has reached since it was opened (reference for rule (e))
    qmax: Decimal,
    /// the last fill of the instrument was NOT the newest thing the instrument had seen (`fill-times`): market
    /// data newer than that fill may already have arrived, so - until the next fill - the estimate at the
    /// instrument's current price is an allowed value at ANY later moment, not only right after the fill
    late_fill: bool,
}

#[derive(Clone)]
pub struct St {
    eng: Eng,
    mon: Vec<Mon>,
    dead: bool,
}

#[derive(Default)]
pub struct Counters {
    priced_new_checked: AtomicU64,
    fill_checked: AtomicU64,
    no_new_price_checked: AtomicU64,
    other_instrument_checked: AtomicU64,
    refreshed_to_new_value: AtomicU64,
    open_fill_zero_where_estimate_nonzero: AtomicU64,
    exit_fee_basis_checked: AtomicU64,
    idle_event_checked: AtomicU64,
}

/// Alphabet width: the narrower, the deeper the bound.
#[derive(Debug, Clone, Copy, PartialEq, Eq)]
pub enum Width {
    Full,
    Medium,
    Narrow,
    /// narrow alphabet, all three instruments driven
    Trio,
    /// fills stamped newer / equal / older
    FillTimes,
    /// narrow alphabet plus events that carry neither a fill nor market data
    Idle,
    /// trades whose price moves by 1e-8
    Micro,
}

pub struct M {
    width: Width,
    instruments: IndexedInstruments,
    /// driven instruments: (instrument index, exchange id, exchange index)
    driven: Vec<(InstrumentIndex, ExchangeId, ExchangeIndex)>,
    /// quote asset (usdt) on the exchange of each driven instrument
    quote: Vec<AssetIndex>,
    pub n: Counters,
}

impl M {
    pub fn new(width: Width) -> Self {
        let instruments = IndexedInstruments::builder()
            .add_instrument(spot(EXCHANGES[0], "a0", "A0", "btc", "usdt"))
            .add_instrument(spot(EXCHANGES[0], "a1", "A1", "eth", "usdt"))
            .add_instrument(spot(EXCHANGES[1], "b0", "B0", "btc", "usdt"))
            .build();
        let find = |name: &str| {
            let i = instruments
                .instruments()
                .iter()
                .find(|i| i.value.name_internal.name().as_str() == name)
                .expect("instrument");
            let x = i.value.exchange.key;
            (i.key, instruments.exchanges()[x.index()].value, x)
        };
        let driven = if width == Width::Trio {
            vec![find("a0"), find("a1"), find("b0")]
        } else {
            vec![find("a1"), find("b0")]
        };
        let quote = driven
            .iter()
            .map(|d| instruments.find_asset_index(d.1, &AssetNameInternal::new("usdt")).expect("quote asset"))
            .collect();
        Self { width, instruments, driven, quote, n: Counters::default() }
    }
    pub fn label(&self) -> &'static str {
        match self.width {
            Width::Full => "full",
            Width::Medium => "medium",
            Width::Narrow => "narrow",
            Width::Trio => "trio",
            Width::FillTimes => "fill-times",
            Width::Idle => "idle-events",
            Width::Micro => "micro-moves",
        }
    }
    pub fn from_label(label: &str) -> Self {
        Self::new(match label {
            "narrow" => Width::Narrow,
            "medium" => Width::Medium,
            "trio" => Width::Trio,
            "fill-times" => Width::FillTimes,
            "idle-events" => Width::Idle,
            "micro-moves" => Width::Micro,
            _ => Width::Full,
        })
    }

    fn position<'a>(&self, eng: &'a Eng, i: usize) -> Option<&'a Position<QuoteAsset, InstrumentIndex>> {
        eng.0.state.instruments.instrument_index(&self.driven[i].0).position.current.as_ref()
    }
    fn price(&self, eng: &Eng, i: usize) -> Option<Decimal> {
        eng.0.state.instruments.instrument_index(&self.driven[i].0).data.price()
    }

    fn market(&self, i: usize, t: i64, kind: DataKind) -> Event {
        // `idle-events` also varies the RECEIPT time, which the statement does not mention: public trades
        // arrive an hour after their exchange time (a slow / replayed feed), books one second "before" it
        // (clock skew between venue and host). Everywhere else receipt time == exchange time.
        let received = match (&kind, self.width) {
            (DataKind::Trade(_), Width::Idle) => t + 3600,
            (_, Width::Idle) => t - 1,
            _ => t,
        };
        EngineEvent::Market(MarketStreamEvent::Item(MarketEvent {
            time_exchange: t_plus(t),
            time_received: t_plus(received),
            exchange: self.driven[i].1,
            instrument: self.driven[i].0,
            kind,
        }))
    }
}

impl M {
    /// The event of an idle symbol (no fill, no market data). Its timestamp is one second after the greatest
    /// timestamp its instrument has seen; it is not a market event or fill, so it does not enter `max_t`.
    fn idle_event(&self, s: &St, sym: &Sym) -> Event {
        let i = sym.instrument();
        let time = t_plus(s.mon[i].max_t.unwrap_or(0) + 1);
        let (index, exchange_id, exchange) = self.driven[i];
        match *sym {
            Sym::OrderSnap { .. } => {
                let order: Order<ExchangeIndex, InstrumentIndex, OrderState<AssetIndex, InstrumentIndex>> = Order {
                    key: OrderKey { exchange, instrument: index, strategy: strategy_id(), cid: ClientOrderId::new(format!("c{i}")) },
                    side: Side::Buy,
                    price: dec!(90),
                    quantity: dec!(1),
                    kind: OrderKind::Limit,
                    time_in_force: TimeInForce::GoodUntilCancelled { post_only: false },
                    state: OrderState::active(Open { id: OrderId::new(format!("o{i}")), time_exchange: time, filled_quantity: dec!(0) }),
                };
                EngineEvent::Account(AccountStreamEvent::Item(AccountEvent { exchange, kind: AccountEventKind::OrderSnapshot(Snapshot(order)) }))
            }
            Sym::Balance { .. } => EngineEvent::Account(AccountStreamEvent::Item(AccountEvent {
                exchange,
                kind: AccountEventKind::BalanceSnapshot(Snapshot(AssetBalance {
                    asset: self.quote[i],
                    balance: Balance::new(dec!(1000), dec!(1000)),
                    time_exchange: time,
                })),
            })),
            Sym::AccountReconnecting { .. } => EngineEvent::Account(AccountStreamEvent::Reconnecting(exchange_id)),
            Sym::MarketReconnecting { .. } => EngineEvent::Market(MarketStreamEvent::Reconnecting(exchange_id)),
            Sym::Trading { on } => EngineEvent::TradingStateUpdate(if on { TradingState::Enabled } else { TradingState::Disabled }),
            _ => unreachable!("not an idle symbol"),
        }
    }

    /// Rule (f): an event that carries neither a fill nor market data leaves every estimate where it was.
    fn step_idle(&self, s: &mut St, sym: &Sym, out: &mut Vec<Viol>) {
        let kind = match sym {
            Sym::OrderSnap { .. } => "order-snapshot",
            Sym::Balance { .. } => "balance-snapshot",
            Sym::AccountReconnecting { .. } => "account-stream-reconnecting",
            Sym::MarketReconnecting { .. } => "market-stream-reconnecting",
            _ => "trading-state-update",
        };
        let event = self.idle_event(s, sym);
        let before: Vec<Option<Decimal>> = (0..self.driven.len()).map(|j| self.position(&s.eng, j).map(|p| p.pnl_unrealised)).collect();
        let eng = &mut s.eng;
        if catch_unwind(AssertUnwindSafe(|| {
            eng.0.process(event.clone());
        }))
        .is_err()
        {
            out.push((format!("C15/panic/{kind}"), format!("Engine::process panicked on {event:?}")));
            s.dead = true;
            return;
        }
        for j in 0..self.driven.len() {
            let Some(b) = before[j] else { continue };
            // the position bookkeeping itself (a position vanishing here) is C02's business
            let Some(p) = self.position(&s.eng, j) else { continue };
            self.n.idle_event_checked.fetch_add(1, Ordering::Relaxed);
            let got = p.pnl_unrealised;
            if !self.settled(s, j, b) {
                let Some(p) = self.position(&s.eng, j) else { continue };
                let cause = if self.price(&s.eng, j).is_some_and(|x| close_to(p, got, x)) { "re-marked-at-market-price" } else { "changed" };
                out.push((
                    format!("C15/estimate-kept-until-newer-market-data/{kind}/{cause}"),
                    format!(
                        "{sym:?} ({kind}: neither a fill nor market data) changed pnl_unrealised of instrument {:?} from {b} to {got}; allowed sources were {:?}, the instrument's market price is {:?} (position {:?} {} @ {} max {} fees_enter {})",
                        self.driven[j].0, s.mon[j].allowed, self.price(&s.eng, j), p.side, p.quantity_abs, p.price_entry_average, p.quantity_abs_max, p.fees_enter.fees
                    ),
                ));
                s.mon[j].allowed = vec![Src::Observed(got)];
            }
        }
    }
}

fn time_of(max_t: Option<i64>, t: T) -> i64 {
    match (max_t, t) {
        (None, _) => 2,
        (Some(m), T::Newer) => m + 2,
        (Some(m), T::Equal) => m,
        (Some(m), T::Older) => m - 1,
    }
}

/// The documented estimate, from the position's own fields.
fn est(p: &Position<QuoteAsset, InstrumentIndex>, x: Decimal) -> Decimal {
    let dir = if p.side == Side::Buy { Decimal::ONE } else { -Decimal::ONE };
    dir * p.quantity_abs * (x - p.price_entry_average) - (p.quantity_abs / p.quantity_abs_max) * p.fees_enter.fees
}
fn tol(p: &Position<QuoteAsset, InstrumentIndex>, x: Decimal) -> Decimal {
    (p.quantity_abs * (x.abs() + p.price_entry_average.abs()) + p.fees_enter.fees.abs()) * REL_TOL + ABS_TOL
}
fn close_to(p: &Position<QuoteAsset, InstrumentIndex>, got: Decimal, x: Decimal) -> bool {
    (got - est(p, x)).abs() <= tol(p, x)
}
fn accepts(p: &Position<QuoteAsset, InstrumentIndex>, got: Decimal, allowed: &[Src]) -> bool {
    allowed.iter().any(|s| match *s {
        Src::Price(x) => close_to(p, got, x),
        Src::ZeroAtOpen => got.is_zero(),
        Src::Observed(v) => got == v,
    })
}

impl M {
    /// Rules (d) and (f): after an event that carries no fill and no market data FOR instrument j, the estimate
    /// of j is where it was, or at one of the monitor's allowed sources, or - after a fill that was not the
    /// newest thing j had seen - at j's current price (see `Mon::late_fill`). On acceptance of a changed value
    /// the allowed sources are narrowed to those that explain it.
    fn settled(&self, s: &mut St, j: usize, before: Decimal) -> bool {
        let Some(p) = self.position(&s.eng, j) else { return true };
        let got = p.pnl_unrealised;
        if got == before {
            return true;
        }
        let late = if s.mon[j].late_fill { self.price(&s.eng, j).filter(|x| close_to(p, got, *x)) } else { None };
        if !accepts(p, got, &s.mon[j].allowed) && late.is_none() {
            return false;
        }
        let mut keep: Vec<Src> = s.mon[j].allowed.iter().copied().filter(|a| accepts(p, got, &[*a])).collect();
        if let (true, Some(x)) = (keep.is_empty(), late) {
            keep.push(Src::Price(x));
        }
        s.mon[j].allowed = keep;
        true
    }
}

impl SeqModel for M {
    type State = St;
    type Sym = Sym;

    fn init(&self) -> St {
        let (engine, _links) = build_engine(&self.instruments, TradingState::Disabled, &[]);
        St { eng: Eng(engine), mon: vec![Mon::default(); self.driven.len()], dead: false }
    }

    fn alphabet(&self, s: &St, _hist: &[Sym]) -> Vec<Sym> {
        if s.dead {
            return vec![];
        }
        let mut v = Vec::new();
        if self.width == Width::Idle {
            v.push(Sym::Trading { on: true });
            v.push(Sym::Trading { on: false });
        }
        for i in 0..self.driven.len() as u8 {
            let first = s.mon[i as usize].max_t.is_none();
            if self.width == Width::Idle {
                // fills qty{1,2} @110 fee 0.3, trade @120 {newer, older}, L1 (mid 105) newer, and the four
                // per-instrument / per-exchange events without fill or market data
                for q in 0..2u8 {
                    for buy in [true, false] {
                        v.push(Sym::Fill { i, buy, q, p: 1, f: 1, t: T::Newer });
                    }
                }
                v.push(Sym::Trade { i, t: T::Newer, p: 1 });
                if !first {
                    v.push(Sym::Trade { i, t: T::Older, p: 1 });
                }
                v.push(Sym::L1 { i, t: T::Newer, b: 1 });
                v.extend([Sym::OrderSnap { i }, Sym::Balance { i }, Sym::AccountReconnecting { i }, Sym::MarketReconnecting { i }]);
                continue;
            }
            if self.width == Width::Micro {
                // fills qty{1,2} @100 fee 0.3, newer trades @ {100, 100.00000001, 120}, L1 (mid 100) newer
                for q in 0..2u8 {
                    for buy in [true, false] {
                        v.push(Sym::Fill { i, buy, q, p: 0, f: 1, t: T::Newer });
                    }
                }
                for p in [0u8, 2, 1] {
                    v.push(Sym::Trade { i, t: T::Newer, p });
                }
                v.push(Sym::L1 { i, t: T::Newer, b: 0 });
                continue;
            }
            if self.width == Width::FillTimes {
                // fills qty{1,2} @110 fee 0.3 x time{newer, equal, older}, trade @120 {newer, older}, L1 book 1 newer
                let times: &[T] = if first { &[T::Newer] } else { &[T::Newer, T::Equal, T::Older] };
                for &t in times {
                    for q in 0..2u8 {
                        for buy in [true, false] {
                            v.push(Sym::Fill { i, buy, q, p: 1, f: 1, t });
                        }
                    }
                }
                v.push(Sym::Trade { i, t: T::Newer, p: 1 });
                if !first {
                    v.push(Sym::Trade { i, t: T::Older, p: 1 });
                }
                v.push(Sym::L1 { i, t: T::Newer, b: 1 });
                continue;
            }
            if self.width == Width::Narrow || self.width == Width::Trio {
                // fills qty{1,2} @100 fee 0.3, trade @120 {newer, older}, L1 book 1 newer, empty L1 newer
                for q in 0..2u8 {
                    for buy in [true, false] {
                        v.push(Sym::Fill { i, buy, q, p: 0, f: 1, t: T::Newer });
                    }
                }
                v.push(Sym::Trade { i, t: T::Newer, p: 1 });
                if !first {
                    v.push(Sym::Trade { i, t: T::Older, p: 1 });
                }
                v.push(Sym::L1 { i, t: T::Newer, b: 1 });
                v.push(Sym::EmptyL1 { i, t: T::Newer });
                continue;
            }
            if self.width == Width::Medium {
                // fills qty{1,2} x price{100,110} fee 0.3, trade @120 {newer, equal, older}, L1 book 1
                // {newer, older}, empty L1 newer
                for q in 0..2u8 {
                    for p in 0..2u8 {
                        for buy in [true, false] {
                            v.push(Sym::Fill { i, buy, q, p, f: 1, t: T::Newer });
                        }
                    }
                }
                let times: &[T] = if first { &[T::Newer] } else { &[T::Newer, T::Equal, T::Older] };
                for &t in times {
                    v.push(Sym::Trade { i, t, p: 1 });
                }
                v.push(Sym::L1 { i, t: T::Newer, b: 1 });
                if !first {
                    v.push(Sym::L1 { i, t: T::Older, b: 1 });
                }
                v.push(Sym::EmptyL1 { i, t: T::Newer });
                continue;
            }
            let times: &[T] = if first { &[T::Newer] } else { &[T::Newer, T::Equal, T::Older] };
            for f in 0..2u8 {
                for q in 0..2u8 {
                    for p in 0..2u8 {
                        for buy in [true, false] {
                            v.push(Sym::Fill { i, buy, q, p, f, t: T::Newer });
                        }
                    }
                }
            }
            for &t in times {
                for p in 0..2u8 {
                    v.push(Sym::Trade { i, t, p });
                }
            }
            for &t in times {
                for b in 0..2u8 {
                    v.push(Sym::L1 { i, t, b });
                }
            }
            v.push(Sym::Liquidation { i });
            v.push(Sym::EmptyL1 { i, t: T::Newer });
            if !first {
                v.push(Sym::EmptyL1 { i, t: T::Older });
            }
        }
        v
    }

    fn step(&self, s: &mut St, sym: &Sym, hist: &[Sym], out: &mut Vec<Viol>) {
        if sym.is_idle() {
            return self.step_idle(s, sym, out);
        }
        let i = sym.instrument();
        let n = hist.len();
        // the fill is stamped equal to / older than something the instrument has already seen
        let mut fill_not_newest = false;

        // ---- build the event; classify it from the reference point of view
        // priced: Some(event's own price) for trades / two-sided books
        let (event, fill, priced, definitely_new, kind): (Event, Option<(Decimal, Decimal, bool)>, Option<Decimal>, bool, &str) = match *sym {
            Sym::Fill { buy, q, p, f, t, .. } => {
                // by default a fill is stamped newer than everything the instrument has seen (so a later
                // "newer" market event is also newer than the fill); `fill-times` also stamps it equal / older
                let fill_time = match (s.mon[i].max_t, t) {
                    (None, _) => 1,
                    (Some(m), T::Newer) => m + 1,
                    (Some(m), T::Equal) => m,
                    (Some(m), T::Older) => m - 1,
                };
                fill_not_newest = s.mon[i].max_t.is_some_and(|m| fill_time <= m);
                s.mon[i].max_t = Some(s.mon[i].max_t.map_or(fill_time, |m| m.max(fill_time)));
                let trade = Trade {
                    id: TradeId::new(format!("f{n}")),
                    order_id: OrderId::new("o"),
                    instrument: self.driven[i].0,
                    strategy: strategy_id(),
                    time_exchange: t_plus(fill_time),
                    side: if buy { Side::Buy } else { Side::Sell },
                    price: FILL_PRICE[p as usize],
                    quantity: QTY[q as usize],
                    fees: AssetFees::quote_fees(FEE[f as usize]),
                };
                let ev = EngineEvent::Account(AccountStreamEvent::Item(AccountEvent {
                    exchange: self.driven[i].2,
                    kind: AccountEventKind::Trade(trade),
                }));
                (ev, Some((QTY[q as usize], FILL_PRICE[p as usize], buy)), None, false, "fill")
            }
            Sym::Trade { t, p, .. } => {
                let max_t = s.mon[i].max_t;
                let time = time_of(max_t, t);
                let kind = DataKind::Trade(PublicTrade { id: format!("m{n}"), price: TRADE_PRICE[p as usize], amount: 1.0, side: Side::Buy });
                let newer = max_t.is_none_or(|m| time > m);
                s.mon[i].max_t = Some(max_t.map_or(time, |m| m.max(time)));
                (self.market(i, time, kind), None, Decimal::try_from(TRADE_PRICE[p as usize]).ok(), newer, "trade")
            }
            Sym::L1 { t, b, .. } => {
                let max_t = s.mon[i].max_t;
                let time = time_of(max_t, t);
                let (bp, ba, ap, aa) = BOOK[b as usize];
                let kind = DataKind::OrderBookL1(OrderBookL1 {
                    last_update_time: t_plus(time),
                    best_bid: Some(Level { price: bp, amount: ba }),
                    best_ask: Some(Level { price: ap, amount: aa }),
                });
                let newer = max_t.is_none_or(|m| time > m);
                s.mon[i].max_t = Some(max_t.map_or(time, |m| m.max(time)));
                (self.market(i, time, kind), None, Some((bp * aa + ap * ba) / (ba + aa)), newer, "l1")
            }
            Sym::Liquidation { .. } => {
                let max_t = s.mon[i].max_t;
                let time = time_of(max_t, T::Newer);
                let kind = DataKind::Liquidation(Liquidation { side: Side::Sell, price: LIQUIDATION_PRICE, quantity: 1.0, time: t_plus(time) });
                s.mon[i].max_t = Some(time);
                (self.market(i, time, kind), None, None, false, "liquidation")
            }
            Sym::EmptyL1 { t, .. } => {
                let max_t = s.mon[i].max_t;
                let time = time_of(max_t, t);
                let kind = DataKind::OrderBookL1(OrderBookL1 { last_update_time: t_plus(time), best_bid: None, best_ask: None });
                s.mon[i].max_t = Some(max_t.map_or(time, |m| m.max(time)));
                (self.market(i, time, kind), None, None, false, "empty-l1")
            }
            Sym::OrderSnap { .. } | Sym::Balance { .. } | Sym::AccountReconnecting { .. } | Sym::MarketReconnecting { .. } | Sym::Trading { .. } => {
                unreachable!("idle symbols are handled by step_idle")
            }
        };

        // ---- observations before
        let before_i = self.position(&s.eng, i).map(|p| p.pnl_unrealised);
        let before_others: Vec<Option<Decimal>> =
            (0..self.driven.len()).map(|j| self.position(&s.eng, j).map(|p| p.pnl_unrealised)).collect();
        let price_before = self.price(&s.eng, i);

        // ---- the real engine
        let eng = &mut s.eng;
        if catch_unwind(AssertUnwindSafe(|| {
            eng.0.process(event.clone());
        }))
        .is_err()
        {
            out.push((format!("C15/panic/{kind}"), format!("Engine::process panicked on {event:?}")));
            s.dead = true;
            return;
        }

        // ---- (d) the other instrument's estimate is untouched
        for j in (0..self.driven.len()).filter(|j| *j != i) {
            if let (Some(b), true) = (before_others[j], self.position(&s.eng, j).is_some()) {
                self.n.other_instrument_checked.fetch_add(1, Ordering::Relaxed);
                if !self.settled(s, j, b) {
                    let Some(p) = self.position(&s.eng, j) else { continue };
                    let relation = if self.driven[i].2 == self.driven[j].2 { "same exchange" } else { "another exchange" };
                    out.push((
                        format!("C15/other-instrument-estimate-untouched/{}", if fill.is_some() { "fill" } else { "market-event" }),
                        format!(
                            "{sym:?} on instrument {:?} changed pnl_unrealised of instrument {:?} ({relation}) from {b} to {}",
                            self.driven[i].0, self.driven[j].0, p.pnl_unrealised
                        ),
                    ));
                    s.mon[j].allowed = vec![Src::Observed(p.pnl_unrealised)];
                }
            }
        }

        let price_now = self.price(&s.eng, i);
        let pos = self.position(&s.eng, i);
        let mon = &mut s.mon[i];

        // ---- fills: rule (b)
        if let Some((q, f, buy)) = fill {
            let signed = if buy { q } else { -q };
            let net0 = mon.net;
            let net1 = net0 + signed;
            mon.net = net1;
            let opening = net0.is_zero() || (net0.is_sign_negative() != net1.is_sign_negative() && !net1.is_zero());
            let arm = if net0.is_zero() {
                "open"
            } else if net0.is_sign_negative() == signed.is_sign_negative() {
                "increase"
            } else if q < net0.abs() {
                "reduce"
            } else if q == net0.abs() {
                "close"
            } else {
                "flip"
            };
            match pos {
                Some(p) if !net1.is_zero() => {
                    // ---- rule (e): the pro-rata basis is the maximum size the position has reached
                    let qmax_ref = if opening { net1.abs() } else { mon.qmax.max(net1.abs()) };
                    mon.qmax = qmax_ref;
                    if !p.quantity_abs_max.is_zero() {
                        self.n.exit_fee_basis_checked.fetch_add(1, Ordering::Relaxed);
                        let share_impl = p.quantity_abs / p.quantity_abs_max * p.fees_enter.fees;
                        let share_ref = p.quantity_abs / qmax_ref * p.fees_enter.fees;
                        if (share_impl - share_ref).abs() > tol(p, f) {
                            out.push((
                                format!("C15/pro-rata-exit-fee-share/{arm}/quantity-basis-is-not-the-maximum-position-size"),
                                format!(
                                    "after fill {sym:?} (net {net0} -> {net1}) the position reports quantity_abs_max = {} but the greatest size it has reached is {qmax_ref}: the estimate charges {share_impl} of the entry fees {} instead of the pro-rata share {share_ref}",
                                    p.quantity_abs_max, p.fees_enter.fees
                                ),
                            ));
                            // re-synchronise: judge later steps relative to what the implementation holds
                            mon.qmax = p.quantity_abs_max;
                        }
                    }
                    mon.allowed = if opening { vec![Src::ZeroAtOpen, Src::Price(f)] } else { vec![Src::Price(f)] };
                    // a fill that is not the newest thing the instrument has seen: market data newer
                    // than the fill may already have arrived, so the estimate at the instrument's
                    // current price is acceptable too (never a value from before the fill)
                    if let (true, Some(x)) = (fill_not_newest, price_now) {
                        mon.allowed.push(Src::Price(x));
                    }
                    mon.late_fill = fill_not_newest && price_now.is_some();
                    self.n.fill_checked.fetch_add(1, Ordering::Relaxed);
                    let got = p.pnl_unrealised;
                    if opening && got.is_zero() && !close_to(p, got, f) {
                        // Sentence 2 of the statement: after a fill the estimate is the one at the fill
                        // price, i.e. -(entry fee share) for a freshly opened position. The code starts a
                        // new position at exactly 0 (pinned by the repository's own unit tests), which is a
                        // recorded known finding; the value 0 stays in `allowed` so that later steps are
                        // judged from what the implementation holds and one cause yields one signature.
                        self.n.open_fill_zero_where_estimate_nonzero.fetch_add(1, Ordering::Relaxed);
                        out.push((
                            "C15/estimate-at-fill-price-after-fill/position-opening-fill/zero-instead-of-estimate-with-entry-fee".to_string(),
                            format!(
                                "after opening fill {sym:?} (net {net0} -> {net1}) pnl_unrealised = 0; the estimate at the fill price {f} is {} (fees_enter {})",
                                est(p, f), p.fees_enter.fees
                            ),
                        ));
                    }
                    if !accepts(p, got, &mon.allowed) {
                        let cause = if !fill_not_newest && price_now.is_some_and(|x| close_to(p, got, x)) {
                            "estimate-at-market-price-not-fill-price"
                        } else if !opening && Some(got) == before_i {
                            "left-at-previous-value"
                        } else {
                            "wrong-value"
                        };
                        out.push((
                            format!("C15/estimate-at-fill-price-after-fill/{arm}/{cause}"),
                            format!(
                                "after fill {sym:?} (net {net0} -> {net1}) pnl_unrealised = {got}; the estimate at the fill price {f} is {} (position {:?} {} @ {} max {} fees_enter {}; market price {price_now:?})",
                                est(p, f), p.side, p.quantity_abs, p.price_entry_average, p.quantity_abs_max, p.fees_enter.fees
                            ),
                        ));
                        mon.allowed = vec![Src::Observed(got)];
                    }
                }
                // flat, or the position bookkeeping itself disagrees with the fills (C02's business):
                // nothing to judge; re-synchronise
                other => {
                    mon.allowed.clear();
                    mon.late_fill = false;
                    mon.net = match other {
                        Some(p) => {
                            mon.qmax = p.quantity_abs_max;
                            mon.allowed = vec![Src::Observed(p.pnl_unrealised)];
                            if p.side == Side::Buy { p.quantity_abs } else { -p.quantity_abs }
                        }
                        None => Decimal::ZERO,
                    };
                }
            }
            return;
        }

        // ---- market events on i
        let Some(p) = pos else { return };
        let got = p.pnl_unrealised;
        let classify = |allowed_prev: bool| -> &'static str {
            if Some(got) == before_i && !allowed_prev {
                "left-at-previous-value"
            } else if price_before.is_some_and(|x| close_to(p, got, x)) {
                "estimate-at-price-before-the-event"
            } else if priced.is_some_and(|x| close_to(p, got, x)) {
                "estimate-at-event-price-not-current-price"
            } else {
                "wrong-value"
            }
        };
        // The event "yields a price" for the instrument when it is a priced event newer than everything
        // the instrument has seen, or - whatever its timestamp relative to the fills - when it moved the
        // price the instrument reports (the data state accepted it).
        let moved_price = price_now.is_some() && price_now != price_before;
        match (priced, definitely_new, price_now) {
            // (a) a new price for i: the estimate must be at the instrument's current price
            (pr, dn, Some(x)) if (pr.is_some() && dn) || moved_price => {
                self.n.priced_new_checked.fetch_add(1, Ordering::Relaxed);
                mon.allowed = vec![Src::Price(x)];
                if Some(got) != before_i {
                    self.n.refreshed_to_new_value.fetch_add(1, Ordering::Relaxed);
                }
                if !accepts(p, got, &mon.allowed) {
                    out.push((
                        format!("C15/priced-market-event-refreshes-estimate/{}", classify(false)),
                        format!(
                            "after {sym:?} ({kind}, newer than everything the instrument has seen) the instrument's price is {x} (was {price_before:?}) but pnl_unrealised = {got} (before the event: {before_i:?}); the estimate at {x} is {} (position {:?} {} @ {} max {} fees_enter {})",
                            est(p, x), p.side, p.quantity_abs, p.price_entry_average, p.quantity_abs_max, p.fees_enter.fees
                        ),
                    ));
                    mon.allowed = vec![Src::Observed(got)];
                }
            }
            // (c) no (certainly) new price: unchanged-and-allowed or refreshed to the current price
            (_, _, now) => {
                self.n.no_new_price_checked.fetch_add(1, Ordering::Relaxed);
                if let Some(x) = now {
                    mon.allowed.push(Src::Price(x));
                }
                if !accepts(p, got, &mon.allowed) {
                    out.push((
                        format!("C15/event-without-new-price/{}", classify(true)),
                        format!(
                            "after {sym:?} ({kind}: no new price for the instrument; price {price_before:?} -> {now:?}) pnl_unrealised = {got} (before: {before_i:?}) is neither a previously allowed value {:?} nor the estimate at the current price",
                            mon.allowed
                        ),
                    ));
                    mon.allowed = vec![Src::Observed(got)];
                } else {
                    // keep only the sources that explain the observed value (the estimate now IS that value)
                    let keep: Vec<Src> = mon.allowed.iter().copied().filter(|s| accepts(p, got, &[*s])).collect();
                    mon.allowed = keep;
                }
            }
        }
    }

    fn final_hash(&self, s: &St) -> u64 {
        let mut v = Vec::with_capacity(self.driven.len());
        for i in 0..self.driven.len() {
            let st = s.eng.0.state.instruments.instrument_index(&self.driven[i].0);
            let pos = st.position.current.as_ref().map(|p| {
                (p.side == Side::Buy, p.quantity_abs, p.quantity_abs_max, p.price_entry_average, p.fees_enter.fees, p.pnl_unrealised)
            });
            v.push(hash_of(&(pos, &st.data)));
        }
        hash_of(&v)
    }
}

pub fn run(ctx: &Ctx) -> Outcome {
    // (alphabet width, max history length)
    let plan: Vec<(Width, usize)> = ctx.tier.pick(
        vec![(Width::Full, 4), (Width::Narrow, 6), (Width::Trio, 4), (Width::FillTimes, 4), (Width::Idle, 4), (Width::Micro, 5)],
        vec![(Width::Full, 4), (Width::Medium, 5), (Width::Narrow, 7), (Width::Trio, 5), (Width::FillTimes, 5), (Width::Idle, 5), (Width::Micro, 6)],
    );
    // development aid (never set by `check`): VCHECK_C15_ONLY=label,label restricts the run to those configurations
    let only: Option<Vec<String>> = std::env::var("VCHECK_C15_ONLY").ok().map(|v| v.split(',').map(|x| x.trim().to_string()).collect());
    let plan: Vec<(Width, usize)> = plan.into_iter().filter(|(w, _)| only.as_ref().is_none_or(|o| o.iter().any(|l| l == M::new(*w).label()))).collect();
    let mut per_cfg = Vec::new();
    let mut evaluations = 0u64;
    let mut sequences = 0u64;
    let mut distinct = 0usize;
    let mut totals = [0u64; 8];
    for (width, depth) in plan {
        let m = M::new(width);
        let st = seq::run(ctx, &m, m.label(), depth);
        evaluations += st.steps;
        sequences += st.sequences;
        distinct += st.distinct_final;
        let c = [
            m.n.priced_new_checked.load(Ordering::Relaxed),
            m.n.fill_checked.load(Ordering::Relaxed),
            m.n.no_new_price_checked.load(Ordering::Relaxed),
            m.n.other_instrument_checked.load(Ordering::Relaxed),
            m.n.refreshed_to_new_value.load(Ordering::Relaxed),
            m.n.open_fill_zero_where_estimate_nonzero.load(Ordering::Relaxed),
            m.n.exit_fee_basis_checked.load(Ordering::Relaxed),
            m.n.idle_event_checked.load(Ordering::Relaxed),
        ];
        for (t, x) in totals.iter_mut().zip(c) {
            *t += x;
        }
        per_cfg.push(json!({
            "label": m.label(), "max_len": depth, "sequences": st.sequences, "steps": st.steps,
            "distinct_final_states": st.distinct_final,
            "checks": {"a_priced_new_market_event_with_open_position": c[0], "b_fill_leaving_position_open": c[1],
                       "c_event_without_new_price_with_open_position": c[2], "d_other_instrument_untouched": c[3],
                       "e_exit_fee_basis_is_maximum_size": c[6], "f_event_without_fill_or_market_data": c[7]},
        }));
    }
    if only.is_none() && (totals[0] == 0 || totals[1] == 0 || totals[2] == 0 || totals[3] == 0 || totals[7] == 0) {
        eprintln!("MACHINERY: C15 exploration is vacuous: {totals:?}");
        std::process::exit(2);
    }
    let samples = vec![
        json!({"label": "full", "seq": [Sym::Fill{i:0,buy:true,q:0,p:0,f:1,t:T::Newer}, Sym::Trade{i:0,t:T::Newer,p:1}, Sym::L1{i:0,t:T::Newer,b:1}]}),
        json!({"label": "full", "seq": [Sym::L1{i:1,t:T::Newer,b:0}, Sym::Fill{i:1,buy:false,q:1,p:1,f:0,t:T::Newer}, Sym::Trade{i:1,t:T::Older,p:1}]}),
        json!({"label": "trio", "seq": [Sym::Fill{i:0,buy:true,q:0,p:0,f:1,t:T::Newer}, Sym::Trade{i:1,t:T::Newer,p:1}, Sym::L1{i:2,t:T::Newer,b:1}]}),
        json!({"label": "fill-times", "seq": [Sym::Fill{i:0,buy:true,q:1,p:1,f:1,t:T::Newer}, Sym::Trade{i:0,t:T::Newer,p:1}, Sym::Fill{i:0,buy:false,q:0,p:1,f:1,t:T::Older}]}),
        json!({"label": "idle-events", "seq": [Sym::Trade{i:0,t:T::Newer,p:1}, Sym::Fill{i:0,buy:true,q:0,p:1,f:1,t:T::Newer}, Sym::OrderSnap{i:0}, Sym::AccountReconnecting{i:0}, Sym::L1{i:0,t:T::Newer,b:1}]}),
        json!({"label": "micro-moves", "seq": [Sym::Fill{i:1,buy:false,q:1,p:0,f:1,t:T::Newer}, Sym::Trade{i:1,t:T::Newer,p:0}, Sym::Trade{i:1,t:T::Newer,p:2}]}),
    ];
    Outcome {
        level: "exploration",
        coverage: json!({
            "evaluations": evaluations,
            "sequences": sequences,
            "distinct_nontrivial": distinct,
            "exhaustive": true,
            "rule": "all histories of length <= max_len through Engine::process over {fills, public trades, L1 updates (newer/equal/older timestamps), liquidation, empty L1} x 2 driven instruments (indices 1 and 2 on 2 exchanges; 'trio': all 3 instruments incl. index 0, two of them on one exchange, two of them the same market on different exchanges; 'fill-times': fills stamped newer / equal / older than the greatest timestamp seen; 'idle-events': plus order snapshots, balance snapshots, account- and market-stream Reconnecting events and trading-state updates, market data received an hour after / a second before its exchange time; 'micro-moves': trades that move the price by 1e-8); after every event pnl_unrealised of every open position is compared with the documented estimate at the instrument's current price / the fill price (rules a-e), and an event that carries neither a fill nor market data must leave every estimate where it was (rule f)",
            "checks_a_priced_new_market_event": totals[0],
            "checks_b_fill": totals[1],
            "checks_c_event_without_new_price": totals[2],
            "checks_d_other_instrument": totals[3],
            "checks_e_exit_fee_basis": totals[6],
            "checks_f_event_without_fill_or_market_data": totals[7],
            "market_events_that_changed_the_estimate": totals[4],
            "noted_open_fill_estimate_is_zero_not_minus_entry_fee": totals[5],
            "per_configuration": per_cfg,
            "samples": samples,
        }),
        assumptions: vec![
            "L1 events carry last_update_time == time_exchange, as every connector constructs them".into(),
            "events that carry neither a fill nor market data (order snapshot, balance snapshot, stream Reconnecting, trading-state update) must leave pnl_unrealised of every open position unchanged or at a value the monitor already allows ('until newer market data arrives'); they never cause a position to be opened or closed in these runs".into(),
            "the receipt time of market data (time_received) is not part of the statement: in 'idle-events' it lies an hour after (trades) or a second before (books) the exchange time and the same rules apply".into(),
            "fills: price > 0, quantity > 0, fee >= 0 in the quote asset, fresh trade ids; market prices are finite positive numbers".into(),
            "a fill stamped equal to / older than the greatest timestamp its instrument has seen must leave the estimate at the fill price or at the instrument's current price (newer market data may already have arrived), and until the next fill the engine may move it from the former to the latter at any event (rules d and f accept that move); for a fill that is the newest event only the fill price is accepted".into(),
            "the instrument's current price is what the real InstrumentDataState::price() reports after the event (DefaultInstrumentMarketData: L1 volume-weighted mid, else last trade)".into(),
            "a market event 'yields a price' for certain only if it is a trade or two-sided L1 strictly newer (exchange time) than every market event and fill the instrument has seen; for every other market event both 'unchanged' and 'estimate at the current price' are accepted".into(),
            "the estimate is recomputed from the position's own side, quantity, entry average and entry fees (C02 judges those); the pro-rata basis quantity_abs_max is compared with the maximum |net filled quantity| of the position's life (documented meaning of the field)".into(),
            "a freshly opened position showing pnl_unrealised = 0 although the entry fee is non-zero is reported under its own signature (known finding); the value 0 is kept as the reference for later steps".into(),
        ],
    }
}

pub fn replay(ctx: &Ctx, case: &Value) {
    let m = M::from_label(case["label"].as_str().unwrap_or("full"));
    for (sig, detail) in seq::replay(&m, case) {
        ctx.violate(sig, detail, case.clone());
    }
}
