//! C02 — Position size and realised PnL conserve the cash flows of the fills.
//!
//! E-SEQ: every sequence of fills of length <= d over a 36-symbol alphabet
//! (side{Buy,Sell} x qty{1,2,3} x price{90,100,110} x fee{0,0.3}, fresh trade id per fill), executed
//! step by step against the REAL code, in two layers:
//!   * `pm`     : `PositionManager::update_from_trade` directly (deepest bound),
//!   * `engine` : `Engine::process(EngineEvent::Account(Item(Trade)))` on a 2-instrument engine; the
//!                closed-position record compared is the `EngineOutput::PositionExit` of the audit
//!                and the open position is read from `EngineState.instruments[i].position.current`.
//! Each layer is repeated for several magnitude variants (quantities x1e-8, prices x1e8, mixed ...)
//! to exercise decimal scale ("tiny and huge magnitudes"), and once more with a narrow 16-symbol
//! alphabet (qty{1,2} x price{100,110} x fee{0,0.3}) to a deeper bound (`pm-narrow`, `engine-narrow`).
//! Bounds (max sequence length) quick / thorough: pm 4/5 (magnitude variants 4/4), pm-narrow 6/7,
//! engine 3/4, engine-narrow 4/5.
//! Further dimensions (added by the hardening rounds, each its own configuration, label in brackets):
//!   * timestamps [`@equal`, `@dec`, `@zigzag`]: the statement quantifies over fills (side, price,
//!     quantity, fee) - a fill counts whatever its exchange timestamp. Besides strictly increasing
//!     times the fills are stamped all-equal, strictly decreasing (every fill older than the position's
//!     entry) and zig-zag (0, 99, 2, 97, 4, ...: alternately newer than everything and older than the
//!     last update but newer than the entry). pm 3/4 and pm-narrow 4/5, engine-narrow 3/4.
//!   * mixed magnitudes inside one sequence [`-mixed`]: qty{1e-8, 1, 1e8} x price{100,110} x fee{0,0.3}
//!     (24 symbols): a reduction that leaves a remainder 16 orders of magnitude below the position's
//!     maximum, a flip whose remainder is dust, ... pm 4/5, engine 3/4.
//!   * long histories [`-long`]: every word of length 1..=3 over the narrow alphabet repeated
//!     cyclically up to length 40 / 120 (pm; engine: words of length <= 2): positions with dozens of
//!     fills, dozens of consecutive closes / flips (anything that depends on the length of the history).
//!   * sizes that differ in the 24th decimal only [`-dust`]: qty{1e-24, 1, 1+1e-24} x price{100,110} x
//!     fee{0,0.3}: a reduction of 1+d by 1 leaves d, a fill of 1+d against 1 crosses zero by d, a fill of 1
//!     against 1+d does NOT reach zero (R1 / R2 are exact: a net quantity of 1e-24 is not zero). pm 4/5,
//!     engine 3/4.
//!   * the audit of a fill next to algo orders [`+algo`]: the engine layer once more with trading
//!     ENABLED and a strategy that proposes an order (on the other instrument) after every even-numbered
//!     fill, so the `PositionExit` shares the audit's outputs with the algo output. engine-narrow 4/5.
//!     [`+algoX`]: the same with the execution link closed - the audit of the fill also carries the
//!     unrecoverable error of the algo step; the order is proposed after the k-th fill only and the
//!     sequence ends there (k = 0..3 / 0..4).
//!   * very long histories [`-vlong`]: words of length <= 2 (engine: 1) over the narrow alphabet repeated
//!     to 1100 / 4200 fills (positions listing more than 1024 / 4096 fills).
//!
//! The oracle is a cash-flow ledger computed from the fills only (never from the implementation):
//! net signed quantity, sum of sell proceeds, sum of buy cost, sum of fees. Rules (each one is a
//! sentence of the statement):
//!   R1 open-position-matches-net : side/size of the open position == sign/|net|; no position iff net == 0
//!   R2 closed-record-iff-reach-or-cross-zero : a PositionExited is emitted exactly on those fills
//!   R3 flip-prorata-fee : a crossing fill opens the opposite position (R1: remainder) carrying
//!      fee * remainder / quantity of the fill's fee
//!   R4 pnl-conservation : sum(closed.pnl_realised) + open.pnl_realised
//!                          == proceeds - cost - fees + signed open qty * open.price_entry_average  (+- rounding)
//!   R5 fees-conservation : sum over all positions (fees_enter + fees_exit) == sum of fill fees (+- rounding)
//!   (+- rounding, R3-R5: per fill max(1e-18 of the gross cash flow so far, 1e-12 of the gross cash flow of the
//!   position the fill acts on) + 1e-24 - the statement does not fix the precision the implementation keeps)
//!   R6 fill-ids : the fill id is recorded against exactly the position(s) the fill affected (the one
//!      it modified / closed and the one it opened)
//! R4/R5/R6 are evaluated incrementally (the residual of the identity must not change on a step) so a
//! defect is reported on the step that introduces it and is named after that step's kind
//! (open / increase / reduce / close / flip); R1 re-synchronises the ledger to the implementation after
//! a report. `quantity_abs_max`, `price_entry_average` by itself, timestamps and `pnl_unrealised` are
//! NOT judged here: the statement does not constrain them (any cost-basis method that satisfies R4 is
//! accepted).

use super::common::*;
use crate::core::{Ctx, Outcome, hash_of};
use crate::explore::seq::{self, SeqModel, Viol};
use barter::{
    EngineEvent,
    engine::{
        Engine, EngineOutput, Processor,
        audit::EngineAudit,
        execution_tx::MultiExchangeTxMap,
        state::{
            position::{Position, PositionExited, PositionManager},
            trading::TradingState,
        },
    },
    execution::AccountStreamEvent,
};
use barter_execution::{
    AccountEvent, AccountEventKind,
    order::{
        OrderKey, OrderKind, TimeInForce,
        id::{ClientOrderId, OrderId},
        request::{OrderRequestOpen, RequestOpen},
    },
    trade::{AssetFees, Trade, TradeId},
};
use barter_instrument::{
    Side, asset::QuoteAsset, exchange::ExchangeIndex, index::IndexedInstruments,
    instrument::InstrumentIndex,
};
use rust_decimal::Decimal;
use rust_decimal_macros::dec;
use serde::{Deserialize, Serialize};
use serde_json::{Value, json};
use std::{
    panic::{AssertUnwindSafe, catch_unwind},
    sync::atomic::{AtomicU64, Ordering},
};

const QTY: [Decimal; 3] = [dec!(1), dec!(2), dec!(3)];
const PRICE: [Decimal; 3] = [dec!(90), dec!(100), dec!(110)];
const FEE: [Decimal; 2] = [dec!(0), dec!(0.3)];
/// quantities of the `-mixed` alphabet (index `q` of a `Fill`): 16 orders of magnitude inside one sequence
const QTY_MIXED: [Decimal; 3] = [dec!(0.00000001), dec!(1), dec!(100000000)];

/// quantities of the `-dust` alphabet: d = 1e-24, 1 and 1 + d. Remainders of d (reduce 1+d by 1, flip 1
/// by 1+d), positions of d, increases by d: sizes that differ from zero / from each other only in the
/// 24th decimal ("tiny magnitudes": the net quantity is exact, not "equal up to an epsilon")
const QTY_DUST: [Decimal; 3] = [dec!(0.000000000000000000000001), dec!(1), dec!(1.000000000000000000000001)];

/// Which symbols `alphabet` offers (a `Fill` holds indices; `Mixed` / `Dust` read `q` from QTY_MIXED / QTY_DUST).
#[derive(Debug, Clone, Copy, PartialEq, Eq)]
pub enum Alpha {
    Full,
    Narrow,
    Mixed,
    Dust,
}

/// How the n-th fill of a sequence is time-stamped (seconds relative to t0).
#[derive(Debug, Clone, Copy, PartialEq, Eq)]
pub enum Times {
    Inc,
    Equal,
    Dec,
    ZigZag,
}
impl Times {
    fn name(self) -> &'static str {
        match self {
            Times::Inc => "",
            Times::Equal => "@equal",
            Times::Dec => "@dec",
            Times::ZigZag => "@zigzag",
        }
    }
    fn secs(self, n: usize) -> i64 {
        let n = n as i64;
        match self {
            Times::Inc => n,
            Times::Equal => 0,
            Times::Dec => -n,
            Times::ZigZag => if n % 2 == 0 { n } else { 100_000 - n },
        }
    }
}

/// relative / absolute tolerance for "up to decimal rounding" (Decimal: 28 significant digits, scale <= 28)
const REL_TOL: Decimal = dec!(0.000000000000000001); // 1e-18 of the gross cash flow so far
const ABS_TOL: Decimal = dec!(0.000000000000000000000001); // 1e-24
/// "up to decimal rounding" does not say at which precision the implementation rounds: an implementation
/// that keeps its derived amounts (entry average, realised PnL, pro-rata fee share) to 13 or more
/// significant figures is still exact up to rounding. Allowed per fill: 1e-12 of the cash that flowed
/// through the position this fill acts on since that position was opened (this fill included). The scale
/// is the position's own life, not the whole history, so a small position after a huge one is still
/// judged at its own magnitude; rounding to a FIXED number of decimals is accepted exactly as long as it
/// is below that relative precision at the magnitudes driven (the statement includes tiny magnitudes).
const REL_TOL_POSITION: Decimal = dec!(0.000000000001); // 1e-12 of the position's own gross cash flow

/// One alphabet symbol: indices into QTY / PRICE / FEE.
#[derive(Debug, Clone, Copy, PartialEq, Eq, Hash, Serialize, Deserialize)]
pub struct Fill {
    pub buy: bool,
    pub q: u8,
    pub p: u8,
    pub f: u8,
}

/// Magnitude variant: every quantity is multiplied by `q`, every price by `p`, every fee by `q*p`.
#[derive(Debug, Clone, Copy)]
pub struct Scale {
    pub name: &'static str,
    pub q: Decimal,
    pub p: Decimal,
}
pub const SCALES: [Scale; 5] = [
    Scale { name: "unit", q: dec!(1), p: dec!(1) },
    Scale { name: "tiny-qty", q: dec!(0.00000001), p: dec!(1) },
    Scale { name: "huge-price", q: dec!(1), p: dec!(100000000) },
    Scale { name: "tiny-qty-huge-price", q: dec!(0.00000001), p: dec!(100000000) },
    Scale { name: "huge-qty-tiny-price", q: dec!(100000000), p: dec!(0.00000001) },
];

#[derive(Debug, Clone, Copy, PartialEq, Eq)]
enum Arm {
    Open,
    Increase,
    Reduce,
    Close,
    Flip,
}
impl Arm {
    fn name(self) -> &'static str {
        ["open", "increase", "reduce", "close", "flip"][self as usize]
    }
}

/// The engine is not `Clone` (its tx map is not); clone it field by field.
pub struct Eng(pub SEngine);
impl Clone for Eng {
    fn clone(&self) -> Self {
        let e = &self.0;
        Eng(Engine {
            clock: e.clock.clone(),
            meta: e.meta,
            state: e.state.clone(),
            execution_txs: MultiExchangeTxMap::from_iter(
                (&e.execution_txs).into_iter().map(|(x, tx)| (*x, tx.clone())),
            ),
            strategy: e.strategy.clone(),
            risk: e.risk.clone(),
        })
    }
}

#[derive(Clone)]
enum Subject {
    Pm(PositionManager<InstrumentIndex>),
    Engine(Box<Eng>),
}

/// Ledger of the fills (reference) + the running sums over the emitted closed-position records.
#[derive(Clone, Default)]
struct Ledger {
    net: Decimal,
    proceeds: Decimal,
    cost: Decimal,
    fees: Decimal,
    closed_pnl: Decimal,
    closed_fees: Decimal,
    closed_records: u32,
    /// residuals of R4 / R5 after the previous step (0 as long as the identities hold)
    resid_pnl: Decimal,
    resid_fee: Decimal,
    /// gross cash flow (price * quantity + fee per fill) of the fills of the currently open position
    life_gross: Decimal,
}

#[derive(Clone)]
pub struct St {
    subject: Subject,
    ledger: Ledger,
    dead: bool,
}

pub struct M {
    engine_layer: bool,
    /// Narrow = qty{1,2} x price{100,110} x fee{0,0.3} (16 symbols) for the deeper bound
    alpha: Alpha,
    times: Times,
    /// label infix of the long-history layers (`-long`, `-vlong`)
    long: bool,
    vlong: bool,
    /// engine layer only: trading is ENABLED and the strategy proposes an order (on the OTHER instrument)
    /// on every even-numbered fill, so the audit of the fill also carries the algo output (`+algo`);
    /// 2 (`+algoX`): the same with the execution link CLOSED, so the audit of the fill also carries an
    /// unrecoverable error of the algo step - there the strategy proposes its order after fill number
    /// `algo_at` only and the sequence ENDS with that fill (what an engine does after a fatal error is
    /// not the statement's business). 0: trading disabled.
    algo: u8,
    algo_at: usize,
    scale: Scale,
    instruments: IndexedInstruments,
    instrument: InstrumentIndex,
    arms: [AtomicU64; 5],
    closed_seen: AtomicU64,
}

impl M {
    pub fn new(engine_layer: bool, narrow: bool, scale: Scale) -> Self {
        Self::with(engine_layer, if narrow { Alpha::Narrow } else { Alpha::Full }, Times::Inc, scale)
    }
    pub fn with(engine_layer: bool, alpha: Alpha, times: Times, scale: Scale) -> Self {
        let instruments = IndexedInstruments::builder()
            .add_instrument(spot(EXCHANGES[0], "i0", "I0", "btc", "usdt"))
            .add_instrument(spot(EXCHANGES[0], "i1", "I1", "eth", "usdt"))
            .build();
        Self {
            engine_layer,
            alpha,
            times,
            long: false,
            vlong: false,
            algo: 0,
            algo_at: 0,
            scale,
            instruments,
            // the second instrument, so that index != 0
            instrument: InstrumentIndex(1),
            arms: Default::default(),
            closed_seen: AtomicU64::new(0),
        }
    }
    pub fn label(&self) -> String {
        format!(
            "{}{}{}{}{}{}/{}",
            if self.engine_layer { "engine" } else { "pm" },
            match self.alpha {
                Alpha::Full => "",
                Alpha::Narrow => "-narrow",
                Alpha::Mixed => "-mixed",
                Alpha::Dust => "-dust",
            },
            if self.vlong { "-vlong" } else if self.long { "-long" } else { "" },
            ["", "+algo", "+algoX"][self.algo as usize],
            if self.algo == 2 { self.algo_at.to_string() } else { String::new() },
            self.times.name(),
            self.scale.name
        )
    }
    pub fn from_label(label: &str) -> Self {
        let (layer, scale) = label.split_once('/').unwrap_or(("pm", "unit"));
        let scale = SCALES.iter().copied().find(|s| s.name == scale).unwrap_or(SCALES[0]);
        let (layer, times) = match layer.split_once('@') {
            Some((l, "equal")) => (l, Times::Equal),
            Some((l, "dec")) => (l, Times::Dec),
            Some((l, "zigzag")) => (l, Times::ZigZag),
            Some((l, _)) => (l, Times::Inc),
            None => (layer, Times::Inc),
        };
        let alpha = if layer.contains("-mixed") {
            Alpha::Mixed
        } else if layer.contains("-dust") {
            Alpha::Dust
        } else if layer.contains("-narrow") {
            Alpha::Narrow
        } else {
            Alpha::Full
        };
        let mut m = Self::with(layer.starts_with("engine"), alpha, times, scale);
        m.long = layer.contains("-long");
        m.vlong = layer.contains("-vlong");
        m.algo = if layer.contains("+algoX") { 2 } else if layer.contains("+algo") { 1 } else { 0 };
        if let Some((_, rest)) = layer.split_once("+algoX") {
            m.algo_at = rest.chars().take_while(|c| c.is_ascii_digit()).collect::<String>().parse().unwrap_or(0);
        }
        m
    }

    fn trade(&self, f: &Fill, n: usize) -> Trade<QuoteAsset, InstrumentIndex> {
        let q = match self.alpha {
            Alpha::Mixed => QTY_MIXED[f.q as usize],
            Alpha::Dust => QTY_DUST[f.q as usize],
            _ => QTY[f.q as usize],
        } * self.scale.q;
        let p = PRICE[f.p as usize] * self.scale.p;
        // (`-dust`: the fee is proportional to the quantity, as a venue's would be - a fee of 0.3 on a
        // notional of 1e-22 makes a return of 1e21 whose square overflows the tear sheet's statistics)
        let fee = FEE[f.f as usize] * self.scale.q * self.scale.p * if self.alpha == Alpha::Dust { q } else { Decimal::ONE };
        Trade {
            id: TradeId::new(format!("f{n}")),
            order_id: OrderId::new("o"),
            instrument: self.instrument,
            strategy: strategy_id(),
            time_exchange: t_plus(self.times.secs(n)),
            side: if f.buy { Side::Buy } else { Side::Sell },
            price: p,
            quantity: q,
            fees: AssetFees::quote_fees(fee),
        }
    }

    /// Apply the fill to the real code; returns the emitted closed records.
    fn apply(
        &self,
        subject: &mut Subject,
        trade: &Trade<QuoteAsset, InstrumentIndex>,
        n: usize,
    ) -> Vec<PositionExited<QuoteAsset, InstrumentIndex>> {
        match subject {
            Subject::Pm(pm) => pm.update_from_trade(trade).into_iter().collect(),
            Subject::Engine(e) => {
                if self.algo > 0 {
                    // what the strategy proposes after this event: a fresh limit order on instrument 0
                    // (not the instrument under test) on even steps, nothing on odd steps
                    let proposes = if self.algo == 2 { n == self.algo_at } else { n % 2 == 0 };
                    e.0.strategy.opens = if proposes {
                        vec![OrderRequestOpen {
                            key: OrderKey {
                                exchange: ExchangeIndex(0),
                                instrument: InstrumentIndex(0),
                                strategy: strategy_id(),
                                cid: ClientOrderId::new(format!("a{n}")),
                            },
                            state: RequestOpen {
                                side: Side::Buy,
                                price: dec!(50),
                                quantity: dec!(1),
                                kind: OrderKind::Limit,
                                time_in_force: TimeInForce::GoodUntilCancelled { post_only: false },
                            },
                        }]
                    } else {
                        vec![]
                    };
                }
                let event: Event = EngineEvent::Account(AccountStreamEvent::Item(AccountEvent {
                    exchange: ExchangeIndex(0),
                    kind: AccountEventKind::Trade(trade.clone()),
                }));
                match e.0.process(event) {
                    EngineAudit::Process(p) => p
                        .outputs
                        .iter()
                        .filter_map(|o| match o {
                            EngineOutput::PositionExit(pe) => Some(pe.clone()),
                            _ => None,
                        })
                        .collect(),
                    EngineAudit::FeedEnded => vec![],
                }
            }
        }
    }
}

fn current<'a>(subject: &'a Subject, i: &InstrumentIndex) -> Option<&'a Position<QuoteAsset, InstrumentIndex>> {
    match subject {
        Subject::Pm(pm) => pm.current.as_ref(),
        Subject::Engine(e) => e.0.state.instruments.instrument_index(i).position.current.as_ref(),
    }
}

fn signed_qty(p: &Position<QuoteAsset, InstrumentIndex>) -> Decimal {
    match p.side {
        Side::Buy => p.quantity_abs,
        Side::Sell => -p.quantity_abs,
    }
}

impl SeqModel for M {
    type State = St;
    type Sym = Fill;

    fn init(&self) -> St {
        let subject = if self.engine_layer {
            let trading = if self.algo > 0 { TradingState::Enabled } else { TradingState::Disabled };
            let links = if self.algo == 2 { vec![Some(TxMode::Closed)] } else { vec![] };
            let (engine, _links) = build_engine(&self.instruments, trading, &links);
            Subject::Engine(Box::new(Eng(engine)))
        } else {
            Subject::Pm(PositionManager::default())
        };
        St { subject, ledger: Ledger::default(), dead: false }
    }

    fn alphabet(&self, s: &St, hist: &[Fill]) -> Vec<Fill> {
        // (`+algoX`: the fill whose audit carried the fatal error was the last one)
        if s.dead || (self.algo == 2 && hist.len() > self.algo_at) {
            return vec![];
        }
        let mut v = Vec::with_capacity(36);
        // simplest first: fee 0, qty 1
        let (qs, ps) = match self.alpha {
            Alpha::Narrow => (0..2u8, 1..3u8),
            Alpha::Mixed | Alpha::Dust => (0..3u8, 1..3u8),
            Alpha::Full => (0..3u8, 0..3u8),
        };
        for f in 0..FEE.len() as u8 {
            for q in qs.clone() {
                for p in ps.clone() {
                    for buy in [true, false] {
                        v.push(Fill { buy, q, p, f });
                    }
                }
            }
        }
        v
    }

    fn step(&self, s: &mut St, sym: &Fill, hist: &[Fill], out: &mut Vec<Viol>) {
        let trade = self.trade(sym, hist.len());
        let (q, price, fee) = (trade.quantity, trade.price, trade.fees.fees);
        let signed = if sym.buy { q } else { -q };

        // ---- reference ledger (from the fills only)
        let l = &mut s.ledger;
        let net0 = l.net;
        let net1 = net0 + signed;
        let arm = if net0.is_zero() {
            Arm::Open
        } else if net0.is_sign_negative() == signed.is_sign_negative() {
            Arm::Increase
        } else if q < net0.abs() {
            Arm::Reduce
        } else if q == net0.abs() {
            Arm::Close
        } else {
            Arm::Flip
        };
        self.arms[arm as usize].fetch_add(1, Ordering::Relaxed);
        l.net = net1;
        if sym.buy {
            l.cost += price * q;
        } else {
            l.proceeds += price * q;
        }
        l.fees += fee;
        // scale of this step: the life of the position the fill acts on + the fill itself
        let fill_gross = price * q + fee;
        let step_gross = l.life_gross + fill_gross;
        l.life_gross = match arm {
            Arm::Close => Decimal::ZERO,
            // the position a crossing fill opens starts its life with (at most) that fill
            Arm::Open | Arm::Flip => fill_gross,
            Arm::Increase | Arm::Reduce => step_gross,
        };
        let tol = ((l.proceeds + l.cost + l.fees) * REL_TOL).max(step_gross * REL_TOL_POSITION) + ABS_TOL;
        let a = arm.name();

        // ---- the real code
        let before_ids: Vec<TradeId> =
            current(&s.subject, &self.instrument).map(|p| p.trades.clone()).unwrap_or_default();
        let subject = &mut s.subject;
        let closed = match catch_unwind(AssertUnwindSafe(|| self.apply(subject, &trade, hist.len()))) {
            Ok(c) => c,
            Err(_) => {
                out.push((format!("C02/panic/{a}"), format!("the position code panicked on fill {trade:?}")));
                s.dead = true;
                return;
            }
        };
        let cur = current(&s.subject, &self.instrument);
        self.closed_seen.fetch_add(closed.len() as u64, Ordering::Relaxed);

        // ---- R2: a closed record exactly when net reaches or crosses zero
        let expect_closed = matches!(arm, Arm::Close | Arm::Flip);
        let closed_ok = closed.len() == expect_closed as usize;
        if !closed_ok {
            let cause = match (closed.len(), expect_closed) {
                (0, true) => "record-missing",
                (1, false) => "record-emitted-without-reaching-zero",
                _ => "more-than-one-record",
            };
            out.push((
                format!("C02/closed-record-iff-reach-or-cross-zero/{a}/{cause}"),
                format!("net {net0} -> {net1} after {trade:?}: {} closed record(s) emitted, expected {}", closed.len(), expect_closed as usize),
            ));
        }

        // ---- R1: open position == sign / magnitude of net
        let mut r1_ok = true;
        match (net1.is_zero(), cur) {
            (true, Some(p)) => {
                r1_ok = false;
                out.push((
                    format!("C02/open-position-matches-net/{a}/position-left-open-at-zero-net"),
                    format!("net {net0} -> 0 but a position stays open: {:?} {}", p.side, p.quantity_abs),
                ));
            }
            (false, None) => {
                r1_ok = false;
                out.push((
                    format!("C02/open-position-matches-net/{a}/no-position-for-nonzero-net"),
                    format!("net {net0} -> {net1} but no position is open"),
                ));
            }
            (false, Some(p)) => {
                let got = signed_qty(p);
                if got != net1 {
                    r1_ok = false;
                    let cause = if got.is_sign_negative() != net1.is_sign_negative() { "side-wrong" } else { "size-wrong" };
                    out.push((
                        format!("C02/open-position-matches-net/{a}/{cause}"),
                        format!("net {net0} -> {net1} but the open position is {:?} {}", p.side, p.quantity_abs),
                    ));
                }
            }
            (true, None) => {}
        }

        // ---- R3: the position opened by a crossing fill carries fee * remainder / qty
        if let (Arm::Flip, Some(p), true) = (arm, cur, r1_ok) {
            let share = fee * net1.abs() / q;
            let got = p.fees_enter.fees + p.fees_exit.fees;
            if (got - share).abs() > tol {
                out.push((
                    "C02/flip-prorata-fee/new-position-fee-share".to_string(),
                    format!("fill {trade:?} crossed {net0} -> {net1}: the new position carries fees {got}, pro-rata share is {share}"),
                ));
            }
        }

        // ---- R4 / R5: conservation (incremental: the residual must not move)
        for c in &closed {
            l.closed_pnl += c.pnl_realised;
            l.closed_fees += c.fees_enter.fees + c.fees_exit.fees;
            l.closed_records += 1;
        }
        let (open_pnl, open_val, open_fees) = match cur {
            Some(p) => (p.pnl_realised, signed_qty(p) * p.price_entry_average, p.fees_enter.fees + p.fees_exit.fees),
            None => (Decimal::ZERO, Decimal::ZERO, Decimal::ZERO),
        };
        let resid = (l.closed_pnl + open_pnl) - (l.proceeds - l.cost - l.fees + open_val);
        // (a step whose closed record is missing / surplus is already reported by R2: the sums over the
        // records are then off by that record - no second family of signatures for the same defect)
        if closed_ok && (resid - l.resid_pnl).abs() > tol {
            out.push((
                format!("C02/pnl-conservation/{a}"),
                format!(
                    "after {trade:?} (net {net0} -> {net1}): sum closed pnl {} + open pnl {open_pnl} differs from proceeds {} - cost {} - fees {} + open value {open_val} by {resid} (was {} before this fill)",
                    l.closed_pnl, l.proceeds, l.cost, l.fees, l.resid_pnl
                ),
            ));
        }
        l.resid_pnl = resid;
        let resid_fee = l.closed_fees + open_fees - l.fees;
        if closed_ok && (resid_fee - l.resid_fee).abs() > tol {
            out.push((
                format!("C02/fees-conservation/{a}"),
                format!(
                    "after {trade:?} (net {net0} -> {net1}): fees of closed positions {} + open position {open_fees} differ from the fees of the fills {} by {resid_fee} (was {} before this fill)",
                    l.closed_fees, l.fees, l.resid_fee
                ),
            ));
        }
        l.resid_fee = resid_fee;

        // ---- R6: the fill id is recorded against the positions it affected, and only those
        // (as sets; `before_ids` = the ids the open position listed before this fill)
        let mut ids_check = |what: &str, got: &[TradeId], with_before: bool| {
            // fast path (long histories): exactly the earlier ids followed by this fill's id is correct
            let nb = if with_before { before_ids.len() } else { 0 };
            if got.len() == nb + 1 && got[nb] == trade.id && got[..nb] == before_ids[..nb] {
                return;
            }
            // (hash sets for the long-history layers, linear scans otherwise)
            let big = before_ids.len() > 48;
            let before_set: std::collections::HashSet<&TradeId> = if big { before_ids.iter().collect() } else { Default::default() };
            let got_set: std::collections::HashSet<&TradeId> = if big { got.iter().collect() } else { Default::default() };
            let in_before = |x: &TradeId| if big { before_set.contains(x) } else { before_ids.contains(x) };
            let in_got = |x: &TradeId| if big { got_set.contains(x) } else { got.contains(x) };
            let wanted = |x: &TradeId| *x == trade.id || (with_before && in_before(x));
            let has_id = in_got(&trade.id);
            let foreign = got.iter().any(|x| !wanted(x));
            let lost = with_before && before_ids.iter().any(|x| !in_got(x));
            if !has_id || foreign || lost {
                let cause = if !has_id {
                    "fill-id-missing"
                } else if foreign {
                    "foreign-fill-id-recorded"
                } else {
                    "earlier-fill-id-lost"
                };
                out.push((
                    format!("C02/fill-ids/{a}/{what}/{cause}"),
                    format!(
                        "after {trade:?}: {what} lists {got:?}; expected exactly {:?} + the ids it listed before {:?}",
                        trade.id,
                        if with_before { &before_ids[..] } else { &[] }
                    ),
                ));
            }
        };
        if closed_ok && r1_ok {
            match arm {
                Arm::Open => ids_check("opened-position", &cur.unwrap().trades, false),
                Arm::Increase | Arm::Reduce => ids_check("open-position", &cur.unwrap().trades, true),
                Arm::Close => ids_check("closed-record", &closed[0].trades, true),
                Arm::Flip => {
                    ids_check("closed-record", &closed[0].trades, true);
                    ids_check("opened-position", &cur.unwrap().trades, false);
                }
            }
        }

        // re-synchronise the ledger with the implementation after an R1 report (no cascades)
        if !r1_ok {
            l.net = cur.map(signed_qty).unwrap_or(Decimal::ZERO);
        }
    }

    fn final_hash(&self, s: &St) -> u64 {
        let l = &s.ledger;
        match current(&s.subject, &self.instrument) {
            Some(p) => hash_of(&(
                p.side == Side::Buy,
                p.quantity_abs,
                p.quantity_abs_max,
                p.price_entry_average,
                p.pnl_realised,
                p.pnl_unrealised,
                p.fees_enter.fees,
                p.fees_exit.fees,
                p.trades.len(),
                l.closed_records,
                l.closed_pnl,
            )),
            None => hash_of(&(l.closed_records, l.closed_pnl, l.closed_fees)),
        }
    }
}

/// Long-history layer: every word of length 1..=max_word over the narrow alphabet, repeated cyclically
/// up to `len` fills, each fill judged by the same oracle. Returns (words, steps, distinct final states).
fn run_long(ctx: &Ctx, m: &M, max_word: usize, len: usize) -> (u64, u64, usize) {
    use rayon::prelude::*;
    let base = m.alphabet(&m.init(), &[]);
    let mut words: Vec<Vec<Fill>> = base.iter().map(|f| vec![*f]).collect();
    let mut last = words.clone();
    for _ in 1..max_word {
        last = last.iter().flat_map(|w| base.iter().map(move |f| [&w[..], &[*f]].concat())).collect();
        words.extend(last.iter().cloned());
    }
    let label = m.label();
    let finals: std::collections::HashSet<u64> = words
        .par_iter()
        .map(|w| {
            let mut s = m.init();
            let mut hist: Vec<Fill> = Vec::with_capacity(len);
            for k in 0..len {
                if s.dead {
                    break;
                }
                let sym = w[k % w.len()];
                let mut out = Vec::new();
                m.step(&mut s, &sym, &hist, &mut out);
                hist.push(sym);
                for (sig, detail) in out {
                    ctx.violate(sig, detail, json!({"engine": "seq", "label": label, "seq": hist}));
                }
            }
            m.final_hash(&s)
        })
        .collect();
    (words.len() as u64, words.len() as u64 * len as u64, finals.len())
}

pub fn run(ctx: &Ctx) -> Outcome {
    // (engine layer?, alphabet, time stamps, scale, depth)
    let mut plan: Vec<(bool, Alpha, Times, Scale, usize)> = Vec::new();
    // configurations with trading enabled and a strategy that proposes orders (engine layer only)
    let mut plan_algo: Vec<(Alpha, usize, u8, usize)> = Vec::new();
    let (pm_full, pm_narrow, eng_full, eng_narrow) = ctx.tier.pick((4, 6, 3, 4), (5, 7, 4, 5));
    for (k, sc) in SCALES.iter().enumerate() {
        // the magnitude variants do not need the deepest bound
        plan.push((false, Alpha::Full, Times::Inc, *sc, if k == 0 { pm_full } else { pm_full.min(4) }));
    }
    plan.push((false, Alpha::Narrow, Times::Inc, SCALES[0], pm_narrow));
    for sc in SCALES.iter() {
        plan.push((true, Alpha::Full, Times::Inc, *sc, eng_full));
    }
    plan.push((true, Alpha::Narrow, Times::Inc, SCALES[0], eng_narrow));
    // equal / decreasing / zig-zag exchange timestamps
    let (t_full, t_narrow, t_eng) = ctx.tier.pick((3, 4, 3), (4, 5, 4));
    for times in [Times::Equal, Times::Dec, Times::ZigZag] {
        plan.push((false, Alpha::Full, times, SCALES[0], t_full));
        plan.push((false, Alpha::Narrow, times, SCALES[0], t_narrow));
        plan.push((true, Alpha::Narrow, times, SCALES[0], t_eng));
    }
    // magnitudes mixed inside one sequence
    plan.push((false, Alpha::Mixed, Times::Inc, SCALES[0], ctx.tier.pick(4, 5)));
    plan.push((true, Alpha::Mixed, Times::Inc, SCALES[0], ctx.tier.pick(3, 4)));
    // sizes that differ only in the 24th decimal
    plan.push((false, Alpha::Dust, Times::Inc, SCALES[0], ctx.tier.pick(4, 5)));
    plan.push((true, Alpha::Dust, Times::Inc, SCALES[0], ctx.tier.pick(3, 4)));
    // the audit of a fill that also carries algo orders
    plan_algo.push((Alpha::Narrow, ctx.tier.pick(4, 5), 1, 0));
    // ... and an unrecoverable error of the algo step (execution link closed) on the k-th, last, fill
    for k in 0..ctx.tier.pick(4, 5) {
        plan_algo.push((Alpha::Narrow, k + 1, 2, k));
    }

    let mut evaluations = 0u64;
    let mut sequences = 0u64;
    let mut distinct = 0usize;
    let mut per_cfg = Vec::new();
    let mut arms_total = [0u64; 5];
    let mut closed_total = 0u64;
    let mut tally = |m: &M, max_len: usize, seqs: u64, steps: u64, distinct_final: usize, per_cfg: &mut Vec<Value>| {
        let arms: Vec<u64> = m.arms.iter().map(|a| a.load(Ordering::Relaxed)).collect();
        for (t, a) in arms_total.iter_mut().zip(&arms) {
            *t += a;
        }
        let closed = m.closed_seen.load(Ordering::Relaxed);
        closed_total += closed;
        per_cfg.push(json!({
            "label": m.label(), "max_len": max_len, "sequences": seqs, "steps": steps,
            "distinct_final_states": distinct_final,
            "steps_by_kind": {"open": arms[0], "increase": arms[1], "reduce": arms[2], "close": arms[3], "flip": arms[4]},
            "closed_records_emitted": closed,
        }));
    };
    let plan: Vec<(bool, Alpha, Times, Scale, usize, u8)> = plan
        .into_iter()
        .map(|(e, a, t, s, d)| (e, a, t, s, d, 0))
        .chain(plan_algo.iter().map(|(a, d, algo, _)| (true, *a, Times::Inc, SCALES[0], *d, *algo)))
        .collect();
    let mut algo_at = plan_algo.iter().filter(|p| p.2 == 2).map(|p| p.3);
    for (engine_layer, alpha, times, scale, depth, algo) in plan {
        let mut m = M::with(engine_layer, alpha, times, scale);
        m.algo = algo;
        if algo == 2 {
            m.algo_at = algo_at.next().unwrap_or(0);
        }
        let st = seq::run(ctx, &m, &m.label(), depth);
        evaluations += st.steps;
        sequences += st.sequences;
        distinct += st.distinct_final;
        tally(&m, depth, st.sequences, st.steps, st.distinct_final, &mut per_cfg);
    }
    // long histories (periodic words)
    let long_len = ctx.tier.pick(40, 120);
    for (engine_layer, max_word) in [(false, 3usize), (true, 2usize)] {
        let mut m = M::with(engine_layer, Alpha::Narrow, Times::Inc, SCALES[0]);
        m.long = true;
        let (words, steps, d) = run_long(ctx, &m, max_word, long_len);
        evaluations += steps;
        sequences += words;
        distinct += d;
        tally(&m, long_len, words, steps, d, &mut per_cfg);
    }
    // very long histories: words of length <= 2 (engine: 1) repeated to 1100 / 4200 fills - positions
    // holding more than 1024 / 4096 fills (whatever is bounded, rolled over or re-allocated by length)
    let vlong_len = ctx.tier.pick(1100, 4200);
    for (engine_layer, max_word) in [(false, 2usize), (true, 1usize)] {
        let mut m = M::with(engine_layer, Alpha::Narrow, Times::Inc, SCALES[0]);
        m.long = true;
        m.vlong = true;
        let (words, steps, d) = run_long(ctx, &m, max_word, vlong_len);
        evaluations += steps;
        sequences += words;
        distinct += d;
        tally(&m, vlong_len, words, steps, d, &mut per_cfg);
    }
    // non-vacuity: every kind of fill must have been exercised
    if arms_total.iter().any(|n| *n == 0) || closed_total == 0 {
        eprintln!("MACHINERY: C02 exploration is vacuous (a kind of fill was never reached): {arms_total:?}");
        std::process::exit(2);
    }
    let samples = vec![
        json!({"label": "pm/unit", "seq": [Fill{buy:true,q:1,p:1,f:1}, Fill{buy:false,q:0,p:2,f:1}, Fill{buy:false,q:2,p:0,f:1}, Fill{buy:true,q:1,p:1,f:0}]}),
        json!({"label": "engine/unit", "seq": [Fill{buy:false,q:2,p:2,f:1}, Fill{buy:true,q:0,p:0,f:0}, Fill{buy:true,q:2,p:1,f:1}]}),
        json!({"label": "pm-narrow@dec/unit", "seq": [Fill{buy:true,q:1,p:1,f:1}, Fill{buy:false,q:0,p:2,f:1}, Fill{buy:false,q:1,p:1,f:0}]}),
        json!({"label": "pm-mixed/unit", "seq": [Fill{buy:true,q:2,p:1,f:1}, Fill{buy:false,q:0,p:2,f:1}, Fill{buy:false,q:2,p:1,f:1}]}),
    ];
    Outcome {
        level: "exploration",
        coverage: json!({
            "evaluations": evaluations,
            "sequences": sequences,
            "distinct_nontrivial": distinct,
            "exhaustive": true,
            "rule": "all fill sequences of length <= max_len over side{Buy,Sell} x qty{1,2,3} x price{90,100,110} x fee{0,0.3} (36 symbols; '-narrow' configurations: qty{1,2} x price{100,110} = 16 symbols, deeper; '-mixed': qty{1e-8,1,1e8} x price{100,110} = 24 symbols; '-dust': qty{1e-24,1,1+1e-24} x price{100,110} = 24 symbols; fresh trade id per fill), per layer (PositionManager::update_from_trade / Engine::process of an account Trade), magnitude variant and time-stamp pattern (increasing; '@equal', '@dec', '@zigzag'); '-long': every word of length <= 3 (engine: <= 2) over the narrow alphabet repeated cyclically up to max_len fills; '-vlong': words of length <= 2 (engine: 1) repeated to 1100 / 4200 fills; '+algo': engine layer with trading enabled and a strategy proposing an order on every even-numbered fill (the PositionExit is looked for among all outputs of the audit), '+algoX<k>': the same with the execution link closed and the order proposed after fill k only, which is the last of the sequence (unrecoverable error next to the PositionExit); ledger oracle R1..R6 evaluated after every fill",
            "steps_by_kind": {"open": arms_total[0], "increase": arms_total[1], "reduce": arms_total[2], "close": arms_total[3], "flip": arms_total[4]},
            "closed_records_emitted": closed_total,
            "per_configuration": per_cfg,
            "samples": samples,
        }),
        assumptions: vec![
            "fills are on one instrument, price > 0, quantity > 0, fee >= 0 in the quote asset, fresh trade id per fill".into(),
            "every fill counts whatever its exchange timestamp (the statement quantifies over side, price, quantity, fee): equal, decreasing and zig-zag timestamps are driven besides increasing ones".into(),
            "value alphabets avoid Decimal overflow; 'up to decimal rounding' = per fill the larger of 1e-18 of the gross cash flow so far and 1e-12 of the gross cash flow of the position the fill acts on (13 significant figures), + 1e-24".into(),
            "quantities are exact decimals: a net quantity of 1e-24 is a position, not zero (no epsilon)".into(),
            "quantity_abs_max, timestamps and the cost-basis method itself are not constrained by the statement and are not judged".into(),
        ],
    }
}

pub fn replay(ctx: &Ctx, case: &Value) {
    let m = M::from_label(case["label"].as_str().unwrap_or("pm/unit"));
    for (sig, detail) in seq::replay(&m, case) {
        ctx.violate(sig, detail, case.clone());
    }
}
