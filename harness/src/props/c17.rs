//! C17 — Running dataset statistics equal the statistics of the whole dataset.
//!
//! E-SEQ: every sequence of length <= d over a small alphabet of decimal values (two alphabets: "wide
//! magnitudes" and "close values") is fed value by value to the REAL `DataSetSummary::update`; after
//! EVERY update the summary is compared with batch formulas evaluated on the *multiset* of the values seen
//! so far in exact integer arithmetic (own tiny big-integer, no rounding at all; `Exact` keeps n, the sum and
//! the sum of squares of the integer numerators over 10^28, min and max). Since the reference is a function
//! of the multiset only, agreement for every order is also order-independence.
//!
//! Oracle rules (sentence of the statement -> rule):
//!  * "count, sum, mean, population variance, standard deviation and range equal the values computed
//!    from the whole sequence at once, within decimal rounding":
//!      count  == n exactly;  range.high/low == max/min exactly (they are elements of the dataset);
//!      |sum - S| , |mean - S/n|            <= K   * 1e-24
//!      |variance - (n*SumSq - S^2)/n^2|    <= K^2 * 1e-24
//!      std_dev >= 0 and |std_dev^2 - variance_exact| <= 2*K^2*1e-24 + variance_exact*1e-24
//!    where K = max(1, ceil(max |x|)) is the scale of the data: `Decimal` carries 28 significant digits,
//!    so an intermediate of magnitude K (K^2 for squared quantities) is rounded at ~K*1e-28; the bound
//!    leaves >= 3 decimal orders of slack over the worst rounding (the measured worst error/tolerance
//!    ratio is written to the evidence) and is >= 5 orders below the smallest effect of any alphabet
//!    value, so a dropped or double-counted value can never hide inside it.
//!  * "the order-free quantities do not depend on arrival order": implied by the above for all orders
//!    of every multiset (all sequences are enumerated).
//!  * "Variance is never negative": variance >= 0 exactly.
//!  * "the mean always lies within the range": low <= mean <= high exactly (on the reported values).
//!  A panic inside `update` leaves no summary at all and is reported as a violation of the first rule.
//!
//! Added by the hardening rounds:
//!  * a third alphabet "fine" (values with 18-19 fractional digits, 1e-18 next to 1): a value must be
//!    taken as it is, not at some coarser resolution;
//!  * the range VALUE `Range::range()` (the statement lists "range" among the quantities that equal the
//!    batch value): |range() - (max - min)| <= K*1e-24;
//!  * "long" layer: the bounded sequences are short (<= 5 / 7), so for every alphabet a family of
//!    deterministic long sequences (every cyclic walk through the alphabet, forwards and backwards from
//!    every start, and runs of repeated values) of N = 96 / 400 values is fed as well, the same oracle
//!    after EVERY update - every dataset length 1..=N is covered for each of them.
//!  Second hardening round:
//!  * the exhaustive short sequences of the "fine" alphabet carry a value with 27 fractional digits (the last
//!    digit a `Decimal` can hold next to 2), so no resolution coarser than the type's own passes;
//!  * "very long" layer: N = 2100 / 8400 values per alphabet in three shapes - cyclic forwards, cyclic
//!    backwards, and one long BLOCK per alphabet value (every value, the extreme ones too, first arrives only
//!    after hundreds / thousands of others) - same oracle after every update: count-dependent behaviour
//!    beyond a few hundred values, and anything that treats a late newcomer differently from an early one.

use crate::core::{Ctx, Outcome, hash_of};
use crate::explore::seq::{self, SeqModel, Viol};
use barter::statistic::summary::dataset::DataSetSummary;
use rust_decimal::{Decimal, prelude::ToPrimitive};
use serde_json::{Value, json};
use std::{
    cmp::Ordering,
    str::FromStr,
    sync::atomic::{AtomicU64, Ordering as AO},
};

// ---------------------------------------------------------------------------------------------
// Minimal signed big integer (little-endian u32 limbs): add, sub, mul, cmp. Enough for exact
// rational comparisons by cross-multiplication (no division needed).
// ---------------------------------------------------------------------------------------------
#[derive(Clone, Debug, PartialEq, Eq)]
pub struct Big {
    neg: bool,
    mag: Vec<u32>,
}

impl Big {
    pub fn zero() -> Self {
        Big { neg: false, mag: vec![] }
    }
    pub fn from_i128(v: i128) -> Self {
        let neg = v < 0;
        let mut u = v.unsigned_abs();
        let mut mag = Vec::new();
        while u > 0 {
            mag.push(u as u32);
            u >>= 32;
        }
        Big { neg, mag }
    }
    pub fn pow10(n: u32) -> Self {
        let ten = Big::from_i128(10);
        let mut r = Big::from_i128(1);
        for _ in 0..n {
            r = r.mul(&ten);
        }
        r
    }
    pub fn is_zero(&self) -> bool {
        self.mag.is_empty()
    }
    pub fn is_neg(&self) -> bool {
        self.neg && !self.is_zero()
    }
    fn trim(mut self) -> Self {
        while self.mag.last() == Some(&0) {
            self.mag.pop();
        }
        if self.mag.is_empty() {
            self.neg = false;
        }
        self
    }
    fn cmp_mag(a: &[u32], b: &[u32]) -> Ordering {
        if a.len() != b.len() {
            return a.len().cmp(&b.len());
        }
        for i in (0..a.len()).rev() {
            if a[i] != b[i] {
                return a[i].cmp(&b[i]);
            }
        }
        Ordering::Equal
    }
    fn add_mag(a: &[u32], b: &[u32]) -> Vec<u32> {
        let mut r = Vec::with_capacity(a.len().max(b.len()) + 1);
        let mut carry = 0u64;
        for i in 0..a.len().max(b.len()) {
            let s = carry + *a.get(i).unwrap_or(&0) as u64 + *b.get(i).unwrap_or(&0) as u64;
            r.push(s as u32);
            carry = s >> 32;
        }
        if carry > 0 {
            r.push(carry as u32);
        }
        r
    }
    /// a - b with |a| >= |b|
    fn sub_mag(a: &[u32], b: &[u32]) -> Vec<u32> {
        let mut r = Vec::with_capacity(a.len());
        let mut borrow = 0i64;
        for i in 0..a.len() {
            let mut d = a[i] as i64 - borrow - *b.get(i).unwrap_or(&0) as i64;
            if d < 0 {
                d += 1 << 32;
                borrow = 1;
            } else {
                borrow = 0;
            }
            r.push(d as u32);
        }
        r
    }
    pub fn neg(&self) -> Self {
        Big { neg: !self.neg, mag: self.mag.clone() }.trim()
    }
    pub fn abs(&self) -> Self {
        Big { neg: false, mag: self.mag.clone() }
    }
    pub fn add(&self, o: &Big) -> Big {
        if self.neg == o.neg {
            return Big { neg: self.neg, mag: Self::add_mag(&self.mag, &o.mag) }.trim();
        }
        match Self::cmp_mag(&self.mag, &o.mag) {
            Ordering::Equal => Big::zero(),
            Ordering::Greater => Big { neg: self.neg, mag: Self::sub_mag(&self.mag, &o.mag) }.trim(),
            Ordering::Less => Big { neg: o.neg, mag: Self::sub_mag(&o.mag, &self.mag) }.trim(),
        }
    }
    pub fn sub(&self, o: &Big) -> Big {
        self.add(&o.neg())
    }
    pub fn mul(&self, o: &Big) -> Big {
        if self.is_zero() || o.is_zero() {
            return Big::zero();
        }
        let mut r = vec![0u32; self.mag.len() + o.mag.len()];
        for (i, &a) in self.mag.iter().enumerate() {
            let mut carry = 0u64;
            for (j, &b) in o.mag.iter().enumerate() {
                let t = r[i + j] as u64 + a as u64 * b as u64 + carry;
                r[i + j] = t as u32;
                carry = t >> 32;
            }
            let mut k = i + o.mag.len();
            while carry > 0 {
                let t = r[k] as u64 + carry;
                r[k] = t as u32;
                carry = t >> 32;
                k += 1;
            }
        }
        Big { neg: self.neg != o.neg, mag: r }.trim()
    }
    pub fn cmp(&self, o: &Big) -> Ordering {
        match (self.is_neg(), o.is_neg()) {
            (false, true) => Ordering::Greater,
            (true, false) => Ordering::Less,
            (false, false) => Self::cmp_mag(&self.mag, &o.mag),
            (true, true) => Self::cmp_mag(&o.mag, &self.mag),
        }
    }
    /// approximate value, for reporting only (never used for a verdict)
    pub fn to_f64(&self) -> f64 {
        let mut v = 0f64;
        for &l in self.mag.iter().rev() {
            v = v * 4294967296.0 + l as f64;
        }
        if self.neg { -v } else { v }
    }
}

/// Exact rational `n/d`, d > 0.
#[derive(Clone, Debug)]
pub struct Rat {
    pub n: Big,
    pub d: Big,
}

impl Rat {
    pub fn new(n: Big, d: Big) -> Self {
        assert!(!d.is_zero() && !d.is_neg(), "Rat denominator must be positive");
        Rat { n, d }
    }
    pub fn from_decimal(x: Decimal) -> Self {
        Rat { n: Big::from_i128(x.mantissa()), d: Big::pow10(x.scale()) }
    }
    pub fn to_f64(&self) -> f64 {
        self.n.to_f64() / self.d.to_f64()
    }
    /// (|self - o| <= tol, |self - o| / tol as f64 for reporting)
    pub fn close(&self, o: &Rat, tol: &Rat) -> (bool, f64) {
        // |a/b - c/d| <= t/u  <=>  |a*d - c*b| * u <= t * b * d
        let diff = self.n.mul(&o.d).sub(&o.n.mul(&self.d)).abs();
        let lhs = diff.mul(&tol.d);
        let rhs = tol.n.mul(&self.d).mul(&o.d);
        let ok = lhs.cmp(&rhs) != Ordering::Greater;
        let ratio = if rhs.is_zero() {
            if lhs.is_zero() { 0.0 } else { f64::INFINITY }
        } else {
            lhs.to_f64() / rhs.to_f64()
        };
        (ok, ratio)
    }
}

// ---------------------------------------------------------------------------------------------

/// Alphabet A: the design's wide-magnitude values (sign changes, repeats, 18 orders of magnitude apart).
const ALPHA_WIDE: [&str; 9] =
    ["0", "1", "-1", "0.1", "0.3333333333", "2.5", "0.000000001", "1000000000", "-1000000000"];
/// Alphabet B: values that differ only far behind the leading digits (cancellation-prone for a naive
/// sum-of-squares formula), plus a sign flip and an outlier.
const ALPHA_CLOSE: [&str; 6] =
    ["100", "100.000000001", "99.999999999", "100.5", "-100", "0.000000001"];

/// Alphabet C: many fractional digits (18-19), a value 18 orders of magnitude below its neighbours.
const ALPHA_FINE: [&str; 6] =
    ["2", "-1.5", "0.123456789012345678", "1.000000000000000001", "-0.000000000000000001", "0.3333333333333333333"];

/// Alphabet C as used by the exhaustive SHORT sequences: the 18-digit value is replaced by one with 27
/// fractional digits, the finest resolution a `Decimal` next to 2 can carry (1 + 27 = 28 significant digits) -
/// "a value is taken as it is" down to the last digit of the type. (Not used for the long sequences: there the
/// sum outgrows 28 digits, the implementation has to round it, and a bound on that is no longer the plain
/// K*1e-24. With <= 7 values every sum over this alphabet is still exact.)
const ALPHA_FINE_SHORT: [&str; 6] =
    ["2", "-1.5", "0.123456789012345678901234567", "1.000000000000000001", "-0.000000000000000001", "0.3333333333333333333"];

/// A deterministic long sequence over an alphabet of `n` values: the index of the i-th value.
#[derive(Debug, Clone, Copy)]
pub enum Pattern {
    /// start, start+stride, start+2*stride, ... (mod n)
    Cyclic { start: usize, stride: usize },
    /// every value `run` times in a row, in alphabet order, cyclically
    Runs { run: usize },
}

impl Pattern {
    fn index(&self, i: usize, n: usize) -> usize {
        match *self {
            Pattern::Cyclic { start, stride } => (start + i * stride) % n,
            Pattern::Runs { run } => (i / run) % n,
        }
    }
    fn label(&self, alpha: &str) -> String {
        match *self {
            Pattern::Cyclic { start, stride } => format!("long-{alpha}-cyclic-start{start}-stride{stride}"),
            Pattern::Runs { run } => format!("long-{alpha}-runs-of-{run}"),
        }
    }
    /// forwards and backwards from every start, plus runs of 5 and 16 equal values
    fn family(n: usize) -> Vec<Pattern> {
        let mut v = Vec::new();
        for start in 0..n {
            v.push(Pattern::Cyclic { start, stride: 1 });
            v.push(Pattern::Cyclic { start, stride: n - 1 });
        }
        v.push(Pattern::Runs { run: 5 });
        v.push(Pattern::Runs { run: 16 });
        v
    }
}

/// The batch reference, kept as exact integers: every `Decimal` is an integer numerator over 10^28 (its
/// scale is at most 28), so n, S = sum of numerators, SumSq = sum of their squares, min and max describe the
/// multiset of the values seen so far without any rounding. Integer addition is commutative and associative:
/// these are functions of the MULTISET only, whatever the arrival order.
#[derive(Clone)]
pub struct Exact {
    n: i128,
    s: Big,
    sq: Big,
    min: Option<(Decimal, Big)>,
    max: Option<(Decimal, Big)>,
    maxabs: Decimal,
}

impl Exact {
    fn new() -> Self {
        Exact { n: 0, s: Big::zero(), sq: Big::zero(), min: None, max: None, maxabs: Decimal::ZERO }
    }
    fn push(&mut self, x: Decimal) {
        let xi = Big::from_i128(x.mantissa()).mul(&Big::pow10(28 - x.scale()));
        self.n += 1;
        self.s = self.s.add(&xi);
        self.sq = self.sq.add(&xi.mul(&xi));
        if self.min.as_ref().map_or(true, |(m, _)| x < *m) {
            self.min = Some((x, xi.clone()));
        }
        if self.max.as_ref().map_or(true, |(m, _)| x > *m) {
            self.max = Some((x, xi));
        }
        self.maxabs = self.maxabs.max(x.abs());
    }
    fn of(values: &[Decimal]) -> Self {
        let mut e = Exact::new();
        values.iter().for_each(|v| e.push(*v));
        e
    }
}

/// real object + exact reference + poison flag (set when `update` panicked; the branch is then cut)
#[derive(Clone)]
pub struct St {
    sum: DataSetSummary,
    ex: Exact,
    poisoned: bool,
}

pub struct M {
    alphabet: Vec<String>,
    /// None: every sequence over the alphabet; Some: the one long sequence of that pattern
    pattern: Option<Pattern>,
    /// worst |error|/tolerance seen for sum, mean, variance, std_dev^2 (f64 bits; values are >= 0 so the
    /// bit patterns order like the numbers)
    worst: [AtomicU64; 4],
}

impl M {
    pub fn new(alpha: &[&str]) -> Self {
        M {
            pattern: None,
            alphabet: alpha.iter().map(|s| s.to_string()).collect(),
            worst: [AtomicU64::new(0), AtomicU64::new(0), AtomicU64::new(0), AtomicU64::new(0)],
        }
    }
    fn note(&self, k: usize, ratio: f64) {
        if ratio.is_finite() {
            self.worst[k].fetch_max(ratio.to_bits(), AO::Relaxed);
        }
    }
    fn worst_json(&self) -> Value {
        let g = |k: usize| f64::from_bits(self.worst[k].load(AO::Relaxed));
        json!({"sum": g(0), "mean": g(1), "variance": g(2), "std_dev_squared": g(3)})
    }
}

fn dec(s: &str) -> Decimal {
    Decimal::from_str(s).expect("alphabet value parses")
}

/// The oracle: compare `got` with the batch statistics of the multiset described by `ex`.
fn check(m: &M, got: &DataSetSummary, ex: &Exact, ctxt: &dyn Fn() -> String, out: &mut Vec<Viol>) {
    let n = ex.n;
    let den = Big::pow10(28);
    let (s, sq) = (ex.s.clone(), ex.sq.clone());
    let nb = Big::from_i128(n);
    let sum_exact = Rat::new(s.clone(), den.clone());
    let mean_exact = Rat::new(s.clone(), den.mul(&nb));
    // population variance = (n*SumSq - S^2) / (n^2 * den^2)
    let var_exact = Rat::new(nb.mul(&sq).sub(&s.mul(&s)), nb.mul(&nb).mul(&den).mul(&den));
    let ((min, min_i), (max, max_i)) = (ex.min.clone().expect("non-empty"), ex.max.clone().expect("non-empty"));

    // data scale K and tolerances
    let k = Big::from_i128(ex.maxabs.ceil().to_i128().expect("alphabet magnitudes fit i128").max(1));
    let e24 = Big::pow10(24);
    let tol_lin = Rat::new(k.clone(), e24.clone());
    let tol_sq = Rat::new(k.mul(&k), e24.clone());

    if got.count != Decimal::from(n as i64) {
        out.push(("C17/batch-equality/count".into(), format!("count={} expected {n}; {}", got.count, ctxt())));
    }
    let (ok, r) = Rat::from_decimal(got.sum).close(&sum_exact, &tol_lin);
    m.note(0, r);
    if !ok {
        out.push((
            "C17/batch-equality/sum".into(),
            format!("sum={} expected {:e} (error/tolerance={r:e}); {}", got.sum, sum_exact.to_f64(), ctxt()),
        ));
    }
    let (ok, r) = Rat::from_decimal(got.mean).close(&mean_exact, &tol_lin);
    m.note(1, r);
    if !ok {
        out.push((
            "C17/batch-equality/mean".into(),
            format!("mean={} expected {:e} (error/tolerance={r:e}); {}", got.mean, mean_exact.to_f64(), ctxt()),
        ));
    }
    let var = got.dispersion.variance;
    let (ok, r) = Rat::from_decimal(var).close(&var_exact, &tol_sq);
    m.note(2, r);
    if !ok {
        out.push((
            "C17/batch-equality/variance".into(),
            format!(
                "population variance={var} expected {:e} (error/tolerance={r:e}); {}",
                var_exact.to_f64(),
                ctxt()
            ),
        ));
    }
    // std_dev is the non-negative square root of the exact variance
    let sd = got.dispersion.std_dev;
    let sd_r = Rat::from_decimal(sd);
    let sd2 = Rat::new(sd_r.n.mul(&sd_r.n), sd_r.d.mul(&sd_r.d));
    // tol = 2*K^2/1e24 + var_exact/1e24  = (2*K^2*vd + vn) / (1e24*vd)
    let tol_sd2 = Rat::new(
        Big::from_i128(2).mul(&k).mul(&k).mul(&var_exact.d).add(&var_exact.n.abs()),
        e24.mul(&var_exact.d),
    );
    let (ok, r) = sd2.close(&var_exact, &tol_sd2);
    m.note(3, r);
    if sd.is_sign_negative() && !sd.is_zero() {
        out.push(("C17/batch-equality/std-dev-negative".into(), format!("std_dev={sd}; {}", ctxt())));
    } else if !ok {
        out.push((
            "C17/batch-equality/std-dev".into(),
            format!(
                "std_dev={sd}, std_dev^2={:e} but exact variance {:e} (error/tolerance={r:e}); {}",
                sd2.to_f64(),
                var_exact.to_f64(),
                ctxt()
            ),
        ));
    }
    let rg = &got.dispersion.range;
    if rg.high != max {
        out.push(("C17/batch-equality/range-high".into(), format!("range.high={} expected {max}; {}", rg.high, ctxt())));
    }
    if rg.low != min {
        out.push(("C17/batch-equality/range-low".into(), format!("range.low={} expected {min}; {}", rg.low, ctxt())));
    }
    // the range VALUE (high - low as the summary itself reports it) against max - min of the dataset
    let range_exact = Rat::new(max_i.sub(&min_i), den.clone());
    match crate::core::guarded(|| rg.range()) {
        Ok(value) => {
            let (ok, r) = Rat::from_decimal(value).close(&range_exact, &tol_lin);
            if !ok {
                out.push((
                    "C17/batch-equality/range-value".into(),
                    format!("range()={value} expected max-min={} (error/tolerance={r:e}); {}", max - min, ctxt()),
                ));
            }
        }
        Err(()) => out.push(("C17/batch-equality/range-value-panicked".into(), format!("Range::range() panicked; {}", ctxt()))),
    }
    // "Variance is never negative"
    if var < Decimal::ZERO {
        out.push(("C17/variance-non-negative".into(), format!("variance={var}; {}", ctxt())));
    }
    // "the mean always lies within the range"
    if got.mean < rg.low {
        out.push(("C17/mean-within-range/below-low".into(), format!("mean={} < low={}; {}", got.mean, rg.low, ctxt())));
    }
    if got.mean > rg.high {
        out.push(("C17/mean-within-range/above-high".into(), format!("mean={} > high={}; {}", got.mean, rg.high, ctxt())));
    }
}

impl SeqModel for M {
    type State = St;
    type Sym = String;

    fn init(&self) -> St {
        St { sum: DataSetSummary::default(), ex: Exact::new(), poisoned: false }
    }
    fn alphabet(&self, s: &St, hist: &[String]) -> Vec<String> {
        match (s.poisoned, &self.pattern) {
            (true, _) => vec![],
            (false, None) => self.alphabet.clone(),
            (false, Some(p)) => vec![self.alphabet[p.index(hist.len(), self.alphabet.len())].clone()],
        }
    }
    fn step(&self, s: &mut St, sym: &String, hist: &[String], out: &mut Vec<Viol>) {
        let x = dec(sym);
        if s.ex.n != hist.len() as i128 {
            s.ex = Exact::of(&hist.iter().map(|h| dec(h)).collect::<Vec<_>>()); // (never on the explorer's paths)
        }
        // the REAL running update
        let mut next = s.sum.clone();
        let res = std::panic::catch_unwind(std::panic::AssertUnwindSafe(|| {
            next.update(x);
            next
        }));
        match res {
            Ok(next) => s.sum = next,
            Err(_) => {
                s.poisoned = true;
                out.push((
                    "C17/batch-equality/update-panicked".into(),
                    format!("DataSetSummary::update({x}) panicked after {} values ending {:?}", hist.len(), &hist[hist.len().saturating_sub(8)..]),
                ));
                return;
            }
        }
        s.ex.push(x);
        let ctxt = || {
            if hist.len() < 12 {
                format!("values={:?}", hist.iter().chain(std::iter::once(sym)).collect::<Vec<_>>())
            } else {
                format!("{} values (all in the case), the first {:?}, the last {:?} and {sym}", hist.len() + 1, &hist[..5], &hist[hist.len() - 5..])
            }
        };
        check(self, &s.sum, &s.ex, &ctxt, out);
    }
    fn final_hash(&self, s: &St) -> u64 {
        // canonical text of the real summary (Decimal's Hash is value based; text keeps it simple)
        hash_of(&format!("{:?}", s.sum))
    }
}

pub fn run(ctx: &Ctx) -> Outcome {
    use rayon::prelude::*;
    let (len_a, len_b) = ctx.tier.pick((5, 5), (8, 9));
    let len_c = len_b;
    let ma = M::new(&ALPHA_WIDE);
    let sa = seq::run(ctx, &ma, "wide", len_a);
    let mb = M::new(&ALPHA_CLOSE);
    let sb = seq::run(ctx, &mb, "close", len_b);
    let mc = M::new(&ALPHA_FINE_SHORT);
    let sc = seq::run(ctx, &mc, "fine-short", len_c);

    // long layer: one deterministic sequence of `long_n` values per (alphabet, pattern); the oracle runs
    // after every update, so every dataset length 1..=long_n is judged
    let long_n = ctx.tier.pick(96, 400);
    let alphas: [(&str, &[&str]); 3] = [("wide", &ALPHA_WIDE), ("close", &ALPHA_CLOSE), ("fine", &ALPHA_FINE)];
    let jobs: Vec<(&str, &[&str], Pattern)> =
        alphas.iter().flat_map(|(name, a)| Pattern::family(a.len()).into_iter().map(move |p| (*name, *a, p))).collect();
    let long: Vec<(seq::SeqStats, Value)> = jobs
        .par_iter()
        .map(|(name, alpha, p)| {
            let mut m = M::new(alpha);
            m.pattern = Some(*p);
            let st = seq::run(ctx, &m, &p.label(name), long_n);
            (st, m.worst_json())
        })
        .collect();
    let long_steps: u64 = long.iter().map(|(s, _)| s.steps).sum();
    let long_distinct: usize = long.iter().map(|(s, _)| s.distinct_final).sum();
    let worst_of = |key: &str| long.iter().map(|(_, w)| w[key].as_f64().unwrap_or(0.0)).fold(0.0f64, f64::max);
    let long_worst = json!({"sum": worst_of("sum"), "mean": worst_of("mean"), "variance": worst_of("variance"), "std_dev_squared": worst_of("std_dev_squared")});

    // very long layer (own loop: the explorer's DFS recurses once per value)
    let vlong_n: usize = ctx.tier.pick(2100, 8400);
    let vjobs: Vec<(&str, &[&str], Pattern, &str)> = alphas
        .iter()
        .flat_map(|(name, a)| {
            [
                (*name, *a, Pattern::Cyclic { start: 0, stride: 1 }, "forwards"),
                (*name, *a, Pattern::Cyclic { start: 0, stride: a.len() - 1 }, "backwards"),
                (*name, *a, Pattern::Runs { run: vlong_n / a.len() }, "blocks"),
            ]
        })
        .collect();
    let vlong: Vec<(u64, std::collections::HashSet<u64>, Value)> = vjobs
        .par_iter()
        .map(|(name, alpha, p, shape)| {
            let mut m = M::new(alpha);
            m.pattern = Some(*p);
            let label = format!("verylong-{name}-{shape}");
            let mut st = m.init();
            let mut hist: Vec<String> = Vec::with_capacity(vlong_n);
            let mut distinct = std::collections::HashSet::new();
            let mut steps = 0u64;
            for i in 0..vlong_n {
                let sym = m.alphabet[p.index(i, m.alphabet.len())].clone();
                let mut out = Vec::new();
                m.step(&mut st, &sym, &hist, &mut out);
                hist.push(sym);
                steps += 1;
                distinct.insert(m.final_hash(&st));
                if !out.is_empty() {
                    // the first divergence of this sequence; everything after it is its echo
                    for (sig, detail) in out {
                        ctx.violate(sig, detail, json!({"engine": "seq", "label": label, "seq": hist}));
                    }
                    break;
                }
            }
            (steps, distinct, m.worst_json())
        })
        .collect();
    let vlong_steps: u64 = vlong.iter().map(|v| v.0).sum();
    let vlong_distinct: usize = vlong.iter().map(|v| v.1.len()).sum();
    let vworst_of = |key: &str| vlong.iter().map(|v| v.2[key].as_f64().unwrap_or(0.0)).fold(0.0f64, f64::max);
    let vlong_worst = json!({"sum": vworst_of("sum"), "mean": vworst_of("mean"), "variance": vworst_of("variance"), "std_dev_squared": vworst_of("std_dev_squared")});

    let samples = vec![
        json!({"alphabet": "wide", "seq": ["1000000000", "0.000000001", "-1000000000", "0.3333333333"]}),
        json!({"alphabet": "close", "seq": ["100", "100.000000001", "99.999999999"]}),
        json!({"alphabet": "fine", "seq": ["1.000000000000000001", "-0.000000000000000001", "0.3333333333333333333", "0.123456789012345678901234567"]}),
    ];
    Outcome {
        level: "exploration",
        coverage: json!({
            "evaluations": sa.steps + sb.steps + sc.steps + long_steps + vlong_steps,
            "sequences": sa.sequences + sb.sequences + sc.sequences + long.len() as u64 + vlong.len() as u64,
            "distinct_nontrivial": sa.distinct_final + sb.distinct_final + sc.distinct_final + long_distinct + vlong_distinct,
            "exhaustive": true,
            "max_len_wide": len_a,
            "max_len_close": len_b,
            "max_len_fine": len_c,
            "alphabet_wide": ALPHA_WIDE,
            "alphabet_close": ALPHA_CLOSE,
            "alphabet_fine": ALPHA_FINE,
            "alphabet_fine_short_sequences": ALPHA_FINE_SHORT,
            "per_alphabet": [
                {"alphabet": "wide", "sequences": sa.sequences, "oracle_evaluations": sa.steps, "distinct_final_summaries": sa.distinct_final, "worst_error_over_tolerance": ma.worst_json()},
                {"alphabet": "close", "sequences": sb.sequences, "oracle_evaluations": sb.steps, "distinct_final_summaries": sb.distinct_final, "worst_error_over_tolerance": mb.worst_json()},
                {"alphabet": "fine (short-sequence variant, 27 fractional digits)", "sequences": sc.sequences, "oracle_evaluations": sc.steps, "distinct_final_summaries": sc.distinct_final, "worst_error_over_tolerance": mc.worst_json()},
            ],
            "long_sequences": {
                "values_per_sequence": long_n, "sequences": long.len(), "oracle_evaluations": long_steps, "distinct_summaries": long_distinct,
                "patterns": "per alphabet: cyclic walk forwards and backwards from every start value, runs of 5 and of 16 equal values",
                "worst_error_over_tolerance": long_worst,
            },
            "very_long_sequences": {
                "values_per_sequence": vlong_n, "sequences": vlong.len(), "oracle_evaluations": vlong_steps, "distinct_summaries": vlong_distinct,
                "patterns": "per alphabet: cyclic forwards, cyclic backwards, one block of N/len equal values per alphabet value",
                "worst_error_over_tolerance": vlong_worst,
            },
            "rule": "every sequence (hence every order of every multiset) of length <= max_len over each of three alphabets, and a family of long deterministic sequences, fed to the real DataSetSummary::update; after every update count/range bounds exact, sum/mean/range() within K*1e-24, variance within K^2*1e-24 of exact big-integer batch formulas over the sorted multiset (K = data scale), std_dev^2 vs exact variance, variance >= 0, low <= mean <= high",
            "samples": samples,
        }),
        assumptions: vec![
            "values are taken from three fixed alphabets (magnitudes 1e-18 .. 1e9, <= 19 fractional digits, one value of 27 fractional digits in the short sequences); Decimal overflow behaviour is not part of the property".into(),
            "'within decimal rounding' is read as an absolute error of at most K*1e-24 (K^2*1e-24 for squared quantities), K = max(1, ceil(max|x|)), also for the long sequences (measured worst error/tolerance in the evidence)".into(),
            "the long and very long layers are exhaustive over dataset lengths 1..=N for their fixed patterns, not over all sequences of that length".into(),
        ],
    }
}

fn alphabet_of(label: Option<&str>) -> &'static [&'static str] {
    match label {
        Some(l) if l.contains("close") => &ALPHA_CLOSE,
        Some(l) if l.contains("fine-short") => &ALPHA_FINE_SHORT,
        Some(l) if l.contains("fine") => &ALPHA_FINE,
        _ => &ALPHA_WIDE,
    }
}

pub fn replay(ctx: &Ctx, case: &Value) {
    // a replay feeds the recorded values themselves; the alphabet only documents where they came from
    let m = M::new(alphabet_of(case["label"].as_str()));
    for (sig, detail) in seq::replay(&m, case) {
        ctx.violate(sig, detail, case.clone());
    }
}
