//! C11 — Instrument/asset/exchange indices are dense, unique and consistently resolved.
//!
//! E-SEQ over configurations, three layers, all on the real code:
//!
//! * **index**   every sequence (with repetition => duplicates, every insertion order) of length <= L over a
//!               menu of 8 instrument definitions (spot / perpetual / future / option, settlement-only and
//!               quantity-unit-only assets, 3 exchanges, asset names shared between exchanges) is fed to the
//!               real `IndexedInstrumentsBuilder`; the oracle is computed from the *definitions*.
//! * **derived** for every distinct set of definitions (all 255 non-empty subsets): the real
//!               `EngineStateBuilder` (with one distinct seeded balance per asset), `update_from_account` by
//!               index, `FnvHashMap<ExchangeId, UnindexedAccountSnapshot>::from(&state)`.
//! * **links**   for every distinct set x every subset of its exchanges that gets a (stub) client x every
//!               `add_live` order: the real `ExecutionBuilder::build`, its init futures and manager futures
//!               driven by hand on a paused current-thread runtime (E-ENV).
//!
//! Oracle rules (each from a clause of the statement):
//!   dense-keys  "receives exactly one index equal to its position"
//!   unique / count / complete  "every distinct exchange, exchange-asset and instrument receives exactly one index"
//!   lookup      "lookups by name and by index are mutual inverses" (+ absent names/indices are errors)
//!   resolve     "every instrument's exchange and asset references resolve to the entries it was defined with"
//!   order-independence  "the result does not depend on insertion order"
//!   constructor-new/*, from-iterator/*  the same rules for the collection handed over at once
//!               (`IndexedInstruments::new`, `FromIterator`) instead of through the incremental builder
//!   derived/*   "Engine state, connectivity state and execution-link tables ... hold, at each index, the entry
//!               of exactly the entity with that index"
//!
//! Domain restrictions (assumptions): `name_internal` identifies an instrument, and an exchange names an asset
//! one way (documented contracts: "unique across all exchanges").

use super::common::{EState, strategy_id, t_plus, t0};
use crate::core::{Ctx, Distinct, Outcome, Samples, hash_of};
use crate::explore::env::{flag_waker, paused_rt, poll_quiesce};
use barter::{
    engine::state::{
        EngineState, connectivity::Health, global::DefaultGlobalData,
        instrument::data::DefaultInstrumentMarketData,
    },
    execution::{
        AccountStreamEvent, builder::ExecutionBuilder, request::ExecutionRequest,
    },
    engine::execution_tx::ExecutionTxMap,
};
use barter_execution::{
    AccountEvent, AccountEventKind, InstrumentAccountSnapshot, UnindexedAccountEvent,
    UnindexedAccountSnapshot,
    balance::{AssetBalance, Balance},
    client::ExecutionClient,
    error::{UnindexedClientError, UnindexedOrderError},
    order::{
        Order, OrderEvent, OrderKey, OrderKind, TimeInForce,
        id::{ClientOrderId, OrderId},
        request::{OrderRequestCancel, OrderRequestOpen, UnindexedOrderResponseCancel},
        state::{Cancelled, Open, OrderState},
    },
    trade::Trade,
};
use barter_instrument::{
    Keyed, Side, Underlying,
    asset::{
        Asset, AssetIndex, ExchangeAsset, QuoteAsset,
        name::{AssetNameExchange, AssetNameInternal},
    },
    exchange::{ExchangeId, ExchangeIndex},
    index::IndexedInstruments,
    instrument::{
        Instrument, InstrumentIndex,
        kind::{
            InstrumentKind,
            future::FutureContract,
            option::{OptionContract, OptionExercise, OptionKind},
            perpetual::PerpetualContract,
        },
        name::{InstrumentNameExchange, InstrumentNameInternal},
        quote::InstrumentQuoteAsset,
        spec::{
            InstrumentSpec, InstrumentSpecNotional, InstrumentSpecPrice, InstrumentSpecQuantity,
            OrderQuantityUnits,
        },
    },
};
use barter_integration::{channel::Tx, snapshot::Snapshot};
use chrono::{DateTime, Utc};
use fnv::FnvHashMap;
use itertools::Itertools;
use rayon::prelude::*;
use rust_decimal::Decimal;
use serde_json::{Value, json};
use std::{
    cell::Cell,
    collections::{BTreeMap, BTreeSet},
    future::Future,
    pin::Pin,
    sync::{
        Arc, Mutex, Once,
        atomic::{AtomicU64, Ordering},
    },
    task::Poll,
    time::Duration,
};

pub type Def = Instrument<ExchangeId, Asset>;
pub type Viol = (String, String);

/// Exchanges of the menu, in `ExchangeId` sort order.
pub const EX: [ExchangeId; 3] = [ExchangeId::BinanceSpot, ExchangeId::Kraken, ExchangeId::Okx];

/// Exchanges of the extended menu; position = stub id (deliberately NOT index order: `Mock` precedes
/// `BinanceSpot` in `ExchangeId` order although it was added last and its name sorts after "kraken").
pub const EX_ALL: [ExchangeId; 4] = [ExchangeId::BinanceSpot, ExchangeId::Kraken, ExchangeId::Okx, ExchangeId::Mock];

// ---------------------------------------------------------------------------------------------------------
// panic containment: a panic of the code under test inside `guarded` is reported as a value (and is silent);
// any other panic is a machinery failure and keeps the default hook.
// ---------------------------------------------------------------------------------------------------------

thread_local! { static GUARDED: Cell<bool> = const { Cell::new(false) }; }

pub fn install_quiet_hook() {
    static ONCE: Once = Once::new();
    ONCE.call_once(|| {
        let default = std::panic::take_hook();
        std::panic::set_hook(Box::new(move |info| {
            if !GUARDED.with(|g| g.get()) {
                default(info)
            }
        }));
    });
}

pub fn guarded<T>(f: impl FnOnce() -> T) -> Result<T, String> {
    let before = GUARDED.with(|g| g.replace(true));
    let r = std::panic::catch_unwind(std::panic::AssertUnwindSafe(f));
    GUARDED.with(|g| g.set(before));
    r.map_err(|e| {
        e.downcast_ref::<String>()
            .cloned()
            .or_else(|| e.downcast_ref::<&str>().map(|s| s.to_string()))
            .unwrap_or_else(|| "panic".to_string())
    })
}

// ---------------------------------------------------------------------------------------------------------
// the menu
// ---------------------------------------------------------------------------------------------------------

fn a(internal: &str, exchange: &str) -> Asset {
    Asset::new(internal, exchange)
}

fn spec(unit: OrderQuantityUnits<Asset>) -> Option<InstrumentSpec<Asset>> {
    Some(InstrumentSpec {
        price: InstrumentSpecPrice { min: Decimal::new(1, 1), tick_size: Decimal::new(1, 1) },
        quantity: InstrumentSpecQuantity { unit, min: Decimal::new(1, 3), increment: Decimal::new(1, 3) },
        notional: InstrumentSpecNotional { min: Decimal::from(10) },
    })
}

fn expiry() -> DateTime<Utc> {
    DateTime::<Utc>::from_timestamp(1_743_120_000, 0).unwrap()
}

/// 8 definitions: 3 on BinanceSpot, 2 on Kraken, 3 on Okx. `btc`/`usdt` exist on every exchange (Kraken calls
/// btc `XBT`), `usd` on Kraken and Okx, `bnb` only as a quantity unit, `usdc` only as a settlement asset;
/// `BTCUSDT` is an exchange name on both BinanceSpot and Okx. Internal names are chosen so that their
/// lexicographic order differs from the (exchange, name) index order.
pub fn menu() -> Vec<Def> {
    use ExchangeId::*;
    use InstrumentQuoteAsset::UnderlyingQuote as UQ;
    vec![
        Instrument::new(BinanceSpot, "btc_usdt.binance", "BTCUSDT",
            Underlying::new(a("btc", "BTC"), a("usdt", "USDT")), UQ, InstrumentKind::Spot, None),
        Instrument::new(BinanceSpot, "eth_usdt.binance", "ETHUSDT",
            Underlying::new(a("eth", "ETH"), a("usdt", "USDT")), UQ, InstrumentKind::Spot,
            spec(OrderQuantityUnits::Asset(a("bnb", "BNB")))),
        Instrument::new(BinanceSpot, "eth_btc.binance", "ETHBTC",
            Underlying::new(a("eth", "ETH"), a("btc", "BTC")), UQ, InstrumentKind::Spot,
            spec(OrderQuantityUnits::Asset(a("eth", "ETH")))),
        Instrument::new(Kraken, "xbt_usdt.kraken", "XBT/USDT",
            Underlying::new(a("btc", "XBT"), a("usdt", "USDT")), UQ, InstrumentKind::Spot, None),
        Instrument::new(Kraken, "btc_usd_perp.kraken", "PI_XBTUSD",
            Underlying::new(a("btc", "XBT"), a("usd", "ZUSD")), UQ,
            InstrumentKind::Perpetual(PerpetualContract { contract_size: Decimal::ONE, settlement_asset: a("usdc", "USDC") }),
            None),
        Instrument::new(Okx, "btc_usdt.okx", "BTCUSDT",
            Underlying::new(a("btc", "BTC"), a("usdt", "USDT")), UQ, InstrumentKind::Spot, None),
        Instrument::new(Okx, "btc_usdt_fut.okx", "BTC-USDT-250328",
            Underlying::new(a("btc", "BTC"), a("usdt", "USDT")), UQ,
            InstrumentKind::Future(FutureContract { contract_size: Decimal::new(1, 2), settlement_asset: a("usdt", "USDT"), expiry: expiry() }),
            spec(OrderQuantityUnits::Contract)),
        Instrument::new(Okx, "btc_usd_opt.okx", "BTC-USD-250328-50000-C",
            Underlying::new(a("btc", "BTC"), a("usd", "USD")), UQ,
            InstrumentKind::Option(OptionContract {
                contract_size: Decimal::ONE, settlement_asset: a("btc", "BTC"), kind: OptionKind::Call,
                exercise: OptionExercise::European, expiry: expiry(), strike: Decimal::from(50_000),
            }),
            spec(OrderQuantityUnits::Quote)),
    ]
}

/// `menu()` plus two definitions that create the collisions the base menu lacks (index / derived / links layers
/// of C11 only - other modules keep using `menu()`):
///  * `usdt_zar.kraken`: its smallest asset `usdt` is the LARGEST asset of the BinanceSpot spot definitions, so in
///    the sorted asset list two same-named assets of different exchanges are neighbours (a de-duplication that
///    forgets the exchange merges them);
///  * `eth_btc.mock` on `ExchangeId::Mock`: an exchange whose `ExchangeId` order (first) differs from its name
///    order (after "kraken") and from the order of addition (last); it shares exchange name and asset names with
///    `eth_btc.binance`, its neighbour in the sorted instrument list.
pub fn menu_ext() -> Vec<Def> {
    use InstrumentQuoteAsset::UnderlyingQuote as UQ;
    let mut m = menu();
    m.push(Instrument::new(ExchangeId::Kraken, "usdt_zar.kraken", "USDT/ZAR",
        Underlying::new(a("usdt", "USDT"), a("zar", "ZAR")), UQ, InstrumentKind::Spot, None));
    m.push(Instrument::new(ExchangeId::Mock, "eth_btc.mock", "ETHBTC",
        Underlying::new(a("eth", "ETH"), a("btc", "BTC")), UQ, InstrumentKind::Spot, None));
    m
}

/// `menu()` plus two derivative definitions whose asset roles do not coincide (index and derived layers of C11):
pub fn menu_ext2() -> Vec<Def> {
    use InstrumentQuoteAsset::UnderlyingQuote as UQ;
    let mut m = menu();
    // In the base menu the future settles in its quote asset and the option in its base asset, and only spot
    // definitions carry a quantity-unit asset: a resolution that takes "the quote" / "the base" for the settlement
    // asset, or registers unit assets for spot instruments only, gives the same tables there. These two do not
    // coincide: a future settled in a third asset and sized in an asset nothing else on the exchange uses, and an
    // option settled in a third asset.
    m.push(Instrument::new(ExchangeId::Okx, "eth_usd_fut.okx", "ETH-USD-250328",
        Underlying::new(a("eth", "ETH"), a("usd", "USD")), UQ,
        InstrumentKind::Future(FutureContract { contract_size: Decimal::new(1, 1), settlement_asset: a("usdc", "USDC"), expiry: expiry() }),
        spec(OrderQuantityUnits::Asset(a("okb", "OKB")))));
    m.push(Instrument::new(ExchangeId::Okx, "eth_usd_opt.okx", "ETH-USD-250328-3000-P",
        Underlying::new(a("eth", "ETH"), a("usd", "USD")), UQ,
        InstrumentKind::Option(OptionContract {
            contract_size: Decimal::ONE, settlement_asset: a("usdt", "USDT"), kind: OptionKind::Put,
            exercise: OptionExercise::American, expiry: expiry(), strike: Decimal::from(3_000),
        }),
        spec(OrderQuantityUnits::Asset(a("eth", "ETH")))));
    m
}

/// The asset references of a definition, by role.
pub fn roles(d: &Def) -> Vec<(&'static str, Asset)> {
    let mut v = vec![("base", d.underlying.base.clone()), ("quote", d.underlying.quote.clone())];
    if let Some(s) = d.kind.settlement_asset() {
        v.push(("settlement", s.clone()));
    }
    if let Some(spec) = &d.spec {
        if let OrderQuantityUnits::Asset(asset) = &spec.quantity.unit {
            v.push(("unit", asset.clone()));
        }
    }
    v
}

pub fn build_indexed(seq: &[usize], menu: &[Def]) -> Result<IndexedInstruments, String> {
    guarded(|| {
        let mut b = IndexedInstruments::builder();
        for &i in seq {
            b = b.add_instrument(menu[i].clone());
        }
        b.build()
    })
}

// ---------------------------------------------------------------------------------------------------------
// layer "index": oracle from the definitions
// ---------------------------------------------------------------------------------------------------------

/// dense keys + uniqueness + exactly the distinct defined entities.
fn check_table<V: Ord + std::fmt::Debug>(kind: &str, got: &[(usize, V)], want: &BTreeSet<V>, out: &mut Vec<Viol>) {
    for (pos, (key, v)) in got.iter().enumerate() {
        if *key != pos {
            out.push((
                format!("C11/dense-keys/{kind}/key-differs-from-position"),
                format!("{kind} at position {pos} carries key {key}: {v:?}"),
            ));
            break;
        }
    }
    let sorted: Vec<&V> = got.iter().map(|(_, v)| v).sorted().collect();
    if let Some(w) = sorted.windows(2).find(|w| w[0] == w[1]) {
        out.push((
            format!("C11/unique/{kind}/entity-indexed-twice"),
            format!("{kind} {:?} has more than one index", w[0]),
        ));
    }
    if got.len() != want.len() {
        let dir = if got.len() > want.len() { "more-than-distinct" } else { "fewer-than-distinct" };
        out.push((
            format!("C11/count/{kind}/{dir}"),
            format!("{} {kind} indexed, {} distinct defined", got.len(), want.len()),
        ));
    }
    let got_set: BTreeSet<&V> = got.iter().map(|(_, v)| v).collect();
    if let Some(missing) = want.iter().find(|w| !got_set.contains(w)) {
        out.push((
            format!("C11/complete/{kind}/defined-entity-missing"),
            format!("defined {kind} {missing:?} has no index"),
        ));
    }
    if let Some(extra) = got_set.iter().find(|g| !want.contains(**g)) {
        out.push((
            format!("C11/complete/{kind}/undefined-entity-present"),
            format!("indexed {kind} {extra:?} was never defined"),
        ));
    }
}

/// Map an indexed instrument back to a definition using *positions* of the asset table.
fn reconstruct(
    ix: &IndexedInstruments,
    inst: &Instrument<Keyed<ExchangeIndex, ExchangeId>, AssetIndex>,
) -> Result<Def, String> {
    inst.clone()
        .map_exchange_key(inst.exchange.value)
        .map_asset_key_with_lookup(|k: &AssetIndex| {
            ix.assets()
                .get(k.index())
                .map(|ka| ka.value.asset.clone())
                .ok_or_else(|| format!("asset index {k} out of range"))
        })
}

pub fn check_indexed(defs: &[&Def], ix: &IndexedInstruments, menu: &[Def]) -> Vec<Viol> {
    let mut out = Vec::new();
    let want_ex: BTreeSet<ExchangeId> = defs.iter().map(|d| d.exchange).collect();
    let want_as: BTreeSet<ExchangeAsset<Asset>> = defs
        .iter()
        .flat_map(|d| roles(d).into_iter().map(move |(_, asset)| ExchangeAsset { exchange: d.exchange, asset }))
        .collect();
    let want_in: BTreeSet<Def> = defs.iter().map(|d| (*d).clone()).collect();

    // ---- dense, unique, complete
    let got_ex: Vec<(usize, ExchangeId)> = ix.exchanges().iter().map(|k| (k.key.index(), k.value)).collect();
    check_table("exchanges", &got_ex, &want_ex, &mut out);
    let got_as: Vec<(usize, ExchangeAsset<Asset>)> =
        ix.assets().iter().map(|k| (k.key.index(), k.value.clone())).collect();
    check_table("assets", &got_as, &want_as, &mut out);
    let mut got_in: Vec<(usize, Def)> = Vec::new();
    for k in ix.instruments() {
        match reconstruct(ix, &k.value) {
            Ok(d) => got_in.push((k.key.index(), d)),
            Err(e) => out.push((
                "C11/resolve/asset-reference/unresolvable".into(),
                format!("instrument {} ({}): {e}", k.key, k.value.name_internal),
            )),
        }
    }
    if got_in.len() == ix.instruments().len() {
        check_table("instruments", &got_in, &want_in, &mut out);
    }

    // ---- lookups are mutual inverses; absent entities are errors
    for (pos, k) in ix.exchanges().iter().enumerate() {
        if ix.find_exchange(ExchangeIndex(pos)).ok() != Some(k.value) {
            out.push(("C11/lookup/exchanges/index-to-entity".into(),
                format!("find_exchange({pos}) = {:?}, entry at position is {}", ix.find_exchange(ExchangeIndex(pos)), k.value)));
        }
        if ix.find_exchange_index(k.value).ok() != Some(ExchangeIndex(pos)) {
            out.push(("C11/lookup/exchanges/entity-to-index".into(),
                format!("find_exchange_index({}) = {:?}, position is {pos}", k.value, ix.find_exchange_index(k.value))));
        }
    }
    if ix.find_exchange(ExchangeIndex(ix.exchanges().len())).is_ok() {
        out.push(("C11/lookup/exchanges/absent-index-found".into(), "find_exchange(len) is Ok".into()));
    }
    for x in EX_ALL.iter().chain([ExchangeId::Simulated].iter()) {
        if !want_ex.contains(x) && ix.find_exchange_index(*x).is_ok() {
            out.push(("C11/lookup/exchanges/absent-entity-found".into(),
                format!("find_exchange_index({x}) = {:?} but {x} was never defined", ix.find_exchange_index(*x))));
        }
    }
    for (pos, k) in ix.assets().iter().enumerate() {
        if ix.find_asset(AssetIndex(pos)).ok() != Some(&k.value) {
            out.push(("C11/lookup/assets/index-to-entity".into(),
                format!("find_asset({pos}) = {:?}, entry at position is {:?}", ix.find_asset(AssetIndex(pos)), k.value)));
        }
        let r = ix.find_asset_index(k.value.exchange, &k.value.asset.name_internal);
        if r.as_ref().ok() != Some(&AssetIndex(pos)) {
            out.push(("C11/lookup/assets/entity-to-index".into(),
                format!("find_asset_index({}, {}) = {:?}, position is {pos}", k.value.exchange, k.value.asset.name_internal, r.ok())));
        }
    }
    if ix.find_asset(AssetIndex(ix.assets().len())).is_ok() {
        out.push(("C11/lookup/assets/absent-index-found".into(), "find_asset(len) is Ok".into()));
    }
    let asset_names: BTreeSet<AssetNameInternal> =
        menu.iter().flat_map(|d| roles(d).into_iter().map(|(_, asset)| asset.name_internal)).collect();
    for x in EX_ALL {
        for n in &asset_names {
            let defined = want_as.iter().any(|w| w.exchange == x && w.asset.name_internal == *n);
            if !defined {
                if let Ok(i) = ix.find_asset_index(x, n) {
                    out.push(("C11/lookup/assets/absent-entity-found".into(),
                        format!("find_asset_index({x}, {n}) = {i} but that exchange-asset was never defined")));
                }
            }
        }
    }
    for (pos, k) in ix.instruments().iter().enumerate() {
        if ix.find_instrument(InstrumentIndex(pos)).ok() != Some(&k.value) {
            out.push(("C11/lookup/instruments/index-to-entity".into(),
                format!("find_instrument({pos}) differs from the entry at that position ({})", k.value.name_internal)));
        }
        let r = ix.find_instrument_index(k.value.exchange.value, &k.value.name_internal);
        if r.as_ref().ok() != Some(&InstrumentIndex(pos)) {
            out.push(("C11/lookup/instruments/entity-to-index".into(),
                format!("find_instrument_index({}, {}) = {:?}, position is {pos}", k.value.exchange.value, k.value.name_internal, r.ok())));
        }
    }
    if ix.find_instrument(InstrumentIndex(ix.instruments().len())).is_ok() {
        out.push(("C11/lookup/instruments/absent-index-found".into(), "find_instrument(len) is Ok".into()));
    }
    for x in EX_ALL {
        for d in menu {
            let defined = want_in.iter().any(|w| w.exchange == x && w.name_internal == d.name_internal);
            if !defined {
                if let Ok(i) = ix.find_instrument_index(x, &d.name_internal) {
                    out.push(("C11/lookup/instruments/absent-entity-found".into(),
                        format!("find_instrument_index({x}, {}) = {i} but it was never defined there", d.name_internal)));
                }
            }
        }
    }

    // ---- every instrument's references resolve to what it was defined with
    for k in ix.instruments() {
        let inst = &k.value;
        let Some(def) = want_in.iter().find(|d| d.exchange == inst.exchange.value && d.name_internal == inst.name_internal) else {
            continue; // reported by complete/undefined-entity-present
        };
        let ex_at_key = ix.exchanges().get(inst.exchange.key.index()).map(|e| e.value);
        if ex_at_key != Some(def.exchange) || ix.find_exchange(inst.exchange.key).ok() != Some(def.exchange) {
            out.push(("C11/resolve/exchange/refers-to-other-entity".into(),
                format!("{} defined on {} carries exchange key {} which is {:?}", inst.name_internal, def.exchange, inst.exchange.key, ex_at_key)));
        }
        let mut got_roles: Vec<(&'static str, AssetIndex)> =
            vec![("base", inst.underlying.base), ("quote", inst.underlying.quote)];
        if let Some(s) = inst.kind.settlement_asset() {
            got_roles.push(("settlement", *s));
        }
        if let Some(spec) = &inst.spec {
            if let OrderQuantityUnits::Asset(u) = &spec.quantity.unit {
                got_roles.push(("unit", *u));
            }
        }
        for (role, asset) in roles(def) {
            let want = ExchangeAsset { exchange: def.exchange, asset };
            let Some((_, idx)) = got_roles.iter().find(|(r, _)| *r == role) else {
                out.push((format!("C11/resolve/{role}/reference-dropped"), format!("{} lost its {role} asset", inst.name_internal)));
                continue;
            };
            match ix.find_asset(*idx) {
                Ok(got) if *got == want => {}
                Ok(got) => {
                    let cause = if got.asset.name_internal == want.asset.name_internal && got.exchange != want.exchange {
                        "same-name-on-other-exchange"
                    } else {
                        "refers-to-other-entity"
                    };
                    out.push((format!("C11/resolve/{role}/{cause}"),
                        format!("{}: {role} index {idx} is {got:?}, defined with {want:?}", inst.name_internal)));
                }
                Err(e) => out.push((format!("C11/resolve/{role}/unresolvable"), format!("{}: {role} index {idx}: {e}", inst.name_internal))),
            }
        }
        match reconstruct(ix, inst) {
            Ok(back) if back == *def => {}
            Ok(back) => out.push(("C11/resolve/definition/fields-changed".into(),
                format!("indexed {:?} maps back to {back:?}, defined as {def:?}", inst.name_internal))),
            Err(_) => {}
        }
    }
    out
}

// ---------------------------------------------------------------------------------------------------------
// layer "derived": engine state tables
// ---------------------------------------------------------------------------------------------------------

fn seeded(i: usize) -> Balance {
    Balance::new(Decimal::from(1000 + i as i64), Decimal::from(i as i64))
}
fn updated(i: usize) -> Balance {
    Balance::new(Decimal::from(5000 + i as i64), Decimal::from(7 + i as i64))
}

pub fn build_state(ix: &IndexedInstruments) -> Result<EState, String> {
    guarded(|| {
        EngineState::builder(ix, DefaultGlobalData, DefaultInstrumentMarketData::default)
            .time_engine_start(t0())
            .balances(ix.assets().iter().map(|ka| {
                Keyed::new(
                    ExchangeAsset::<AssetNameInternal>::new(ka.value.exchange, ka.value.asset.name_internal.clone()),
                    seeded(ka.key.index()),
                )
            }))
            .build()
    })
}

fn open_snapshot(ex: ExchangeIndex, inst: InstrumentIndex, cid: &str) -> AccountEvent {
    AccountEvent {
        exchange: ex,
        kind: AccountEventKind::OrderSnapshot(Snapshot(Order {
            key: OrderKey { exchange: ex, instrument: inst, strategy: strategy_id(), cid: ClientOrderId::new(cid) },
            side: Side::Buy,
            price: Decimal::from(100),
            quantity: Decimal::ONE,
            kind: OrderKind::Limit,
            time_in_force: TimeInForce::GoodUntilCancelled { post_only: false },
            state: OrderState::active(Open { id: OrderId::new(format!("x-{cid}")), time_exchange: t_plus(1), filled_quantity: Decimal::ZERO }),
        })),
    }
}

/// non-vacuity of the connectivity routing rule: account events that turned their own exchange's account link healthy
static CONNECTIVITY_ROUTING_OBSERVED: AtomicU64 = AtomicU64::new(0);

pub fn check_derived(ix: &IndexedInstruments) -> Vec<Viol> {
    let mut out = Vec::new();
    let state = match build_state(ix) {
        Ok(s) => s,
        Err(p) => {
            out.push(("C11/derived/engine-state/build-panics".into(), format!("EngineStateBuilder::build panicked: {p}")));
            return out;
        }
    };
    let (n_ex, n_as, n_in) = (ix.exchanges().len(), ix.assets().len(), ix.instruments().len());

    // ---- static alignment: table[i] is entity i
    if state.assets.0.len() != n_as {
        out.push(("C11/derived/asset-states/count".into(), format!("{} asset states for {n_as} assets", state.assets.0.len())));
    }
    if state.instruments.0.len() != n_in {
        out.push(("C11/derived/instrument-states/count".into(), format!("{} instrument states for {n_in} instruments", state.instruments.0.len())));
    }
    if state.connectivity.exchanges.len() != n_ex {
        out.push(("C11/derived/connectivity/count".into(), format!("{} connectivity states for {n_ex} exchanges", state.connectivity.exchanges.len())));
    }
    for ka in ix.assets() {
        let i = ka.key.index();
        let key_ok = state.assets.0.get_index(i).map(|(k, _)| k.exchange == ka.value.exchange && k.asset == ka.value.asset.name_internal);
        match guarded(|| state.assets.asset_index(&ka.key).clone()) {
            Ok(st) => {
                if key_ok != Some(true) || st.asset != ka.value.asset {
                    out.push(("C11/derived/asset-states/index-holds-other-entity".into(),
                        format!("asset_index({i}) holds {:?} (key {:?}); entity {i} is {:?}", st.asset, state.assets.0.get_index(i).map(|(k, _)| k), ka.value)));
                // the seeded balance VALUE must sit on entity i; the statement does not fix how the seed is time-stamped
                } else if st.balance.as_ref().map(|b| b.value) != Some(seeded(i)) {
                    out.push(("C11/derived/asset-states/seeded-balance-on-other-entity".into(),
                        format!("asset {i} {:?} seeded with {:?} holds {:?}", ka.value, seeded(i), st.balance)));
                }
            }
            Err(p) => out.push(("C11/derived/asset-states/index-missing".into(), format!("asset_index({i}) panicked: {p}"))),
        }
    }
    for ki in ix.instruments() {
        let i = ki.key.index();
        match guarded(|| {
            let st = state.instruments.instrument_index(&ki.key);
            (st.key, st.instrument.clone())
        }) {
            Ok((key, inst)) => {
                let want = ki.value.clone().map_exchange_key(ki.value.exchange.key);
                let map_key_ok = state.instruments.0.get_index(i).map(|(k, _)| *k == ki.value.name_internal);
                if key != ki.key || inst != want || map_key_ok != Some(true) {
                    out.push(("C11/derived/instrument-states/index-holds-other-entity".into(),
                        format!("instrument_index({i}) holds key {key} / {} ; entity {i} is {}", inst.name_internal, ki.value.name_internal)));
                }
            }
            Err(p) => out.push(("C11/derived/instrument-states/index-missing".into(), format!("instrument_index({i}) panicked: {p}"))),
        }
        if state.instruments.0.get(&ki.value.name_internal).map(|s| s.key) != Some(ki.key) {
            out.push(("C11/derived/instrument-states/name-resolves-to-other-index".into(),
                format!("state of {} carries key {:?}, entity index is {i}", ki.value.name_internal, state.instruments.0.get(&ki.value.name_internal).map(|s| s.key))));
        }
    }
    for ke in ix.exchanges() {
        let i = ke.key.index();
        if state.connectivity.exchanges.get_index(i).map(|(k, _)| *k) != Some(ke.value) {
            out.push(("C11/derived/connectivity/index-holds-other-exchange".into(),
                format!("connectivity[{i}] is {:?}, exchange {i} is {}", state.connectivity.exchanges.get_index(i).map(|(k, _)| *k), ke.value)));
        }
    }
    if !out.is_empty() {
        return out; // functional checks below would only repeat the same misalignment
    }

    // ---- functional alignment: an update addressed by index lands on the entity with that index (read by name)
    for ka in ix.assets() {
        let i = ka.key.index();
        let ex = ix.find_exchange_index(ka.value.exchange).unwrap();
        let mut s = state.clone();
        // Every account link is first reported as reconnecting BY NAME: whatever health the tables start with (the
        // statement does not say), the account event addressed by index then has something to change on its own
        // exchange, and the other exchanges are compared with their state before the event.
        if let Err(p) = guarded(|| { for ke in ix.exchanges() { s.connectivity.update_from_account_reconnecting(&ke.value); } }) {
            out.push(("C11/derived/connectivity/update-by-name-panics".into(), format!("update_from_account_reconnecting: {p}")));
            continue;
        }
        let conn_before = s.connectivity.exchanges.clone();
        let ev = AccountEvent {
            exchange: ex,
            kind: AccountEventKind::BalanceSnapshot(Snapshot(AssetBalance { asset: ka.key, balance: updated(i), time_exchange: t_plus(1) })),
        };
        if let Err(p) = guarded(|| { s.update_from_account(&ev); }) {
            out.push(("C11/derived/asset-states/update-by-index-panics".into(), format!("balance for asset {i}: {p}")));
            continue;
        }
        for kb in ix.assets() {
            let j = kb.key.index();
            let key = ExchangeAsset::<AssetNameInternal>::new(kb.value.exchange, kb.value.asset.name_internal.clone());
            let got = s.assets.0.get(&key).and_then(|st| st.balance.as_ref().map(|b| b.value));
            let want = if j == i { updated(i) } else { seeded(j) };
            if got != Some(want) {
                out.push(("C11/derived/asset-states/update-by-index-lands-on-other-entity".into(),
                    format!("balance update for asset {i} {:?}: asset {j} {:?} holds {got:?}, expected {want:?}", ka.value, kb.value)));
            }
        }
        // an account event addressed to exchange index `ex` may change the connectivity entry of that exchange only
        // (whether and how it changes its own entry is not C11's business)
        for ke in ix.exchanges().iter().filter(|ke| ke.key != ex) {
            let (was, is) = (conn_before.get(&ke.value), s.connectivity.exchanges.get(&ke.value));
            if was != is {
                out.push(("C11/derived/connectivity/update-by-index-lands-on-other-exchange".into(),
                    format!("account event for exchange {ex}: connectivity of {} changed from {was:?} to {is:?}", ke.value)));
            }
        }
        if s.connectivity.exchanges.get(&ix.exchanges()[ex.index()].value).map(|c| c.account) == Some(Health::Healthy) {
            CONNECTIVITY_ROUTING_OBSERVED.fetch_add(1, Ordering::Relaxed);
        }
    }
    let mut all_orders = state.clone();
    for ki in ix.instruments() {
        let i = ki.key.index();
        let cid = format!("o{i}");
        let ev = open_snapshot(ki.value.exchange.key, ki.key, &cid);
        let mut s = state.clone();
        if let Err(p) = guarded(|| { s.update_from_account(&ev); all_orders.update_from_account(&ev); }) {
            out.push(("C11/derived/instrument-states/update-by-index-panics".into(), format!("order for instrument {i}: {p}")));
            continue;
        }
        for kj in ix.instruments() {
            let has = s.instruments.0.get(&kj.value.name_internal).map(|st| st.orders.0.contains_key(&ClientOrderId::new(cid.as_str())));
            if has != Some(kj.key == ki.key) {
                out.push(("C11/derived/instrument-states/update-by-index-lands-on-other-entity".into(),
                    format!("order for instrument {i} ({}): instrument {} tracks it = {has:?}", ki.value.name_internal, kj.value.name_internal)));
            }
        }
    }

    // ---- per-exchange unindexed account snapshots generated from the state
    match guarded(|| FnvHashMap::<ExchangeId, UnindexedAccountSnapshot>::from(&all_orders)) {
        Err(p) => out.push(("C11/derived/account-snapshots/panics".into(), p)),
        Ok(snaps) => {
            let keys: BTreeSet<ExchangeId> = snaps.keys().copied().collect();
            let want_keys: BTreeSet<ExchangeId> = ix.exchanges().iter().map(|k| k.value).collect();
            if keys != want_keys {
                out.push(("C11/derived/account-snapshots/exchange-keys-mismatch".into(), format!("{keys:?} vs {want_keys:?}")));
            }
            for (x, snap) in &snaps {
                let got_b: BTreeMap<String, Balance> = snap.balances.iter().map(|b| (b.asset.name().to_string(), b.balance)).collect();
                let want_b: BTreeMap<String, Balance> = ix.assets().iter().filter(|k| k.value.exchange == *x)
                    .map(|k| (k.value.asset.name_exchange.name().to_string(), seeded(k.key.index()))).collect();
                if snap.exchange != *x || got_b != want_b || snap.balances.len() != want_b.len() {
                    out.push(("C11/derived/account-snapshots/balances-of-other-entities".into(),
                        format!("{x}: snapshot.exchange={} balances {got_b:?}, expected {want_b:?}", snap.exchange)));
                }
                let got_i: BTreeMap<String, Vec<(ExchangeId, String, String)>> = snap.instruments.iter().map(|s| {
                    (s.instrument.name().to_string(),
                     s.orders.iter().map(|o| (o.key.exchange, o.key.instrument.name().to_string(), o.key.cid.0.to_string())).sorted().collect())
                }).collect();
                let want_i: BTreeMap<String, Vec<(ExchangeId, String, String)>> = ix.instruments().iter().filter(|k| k.value.exchange.value == *x)
                    .map(|k| {
                        let n = k.value.name_exchange.name().to_string();
                        (n.clone(), vec![(*x, n, format!("o{}", k.key.index()))])
                    }).collect();
                if got_i != want_i || snap.instruments.len() != want_i.len() {
                    out.push(("C11/derived/account-snapshots/instruments-of-other-entities".into(),
                        format!("{x}: instruments {got_i:?}, expected {want_i:?}")));
                }
            }
        }
    }
    out
}

// ---------------------------------------------------------------------------------------------------------
// recording stub `ExecutionClient` (one type per menu exchange: `EXCHANGE` is an associated const)
// ---------------------------------------------------------------------------------------------------------

#[derive(Debug, Clone, PartialEq)]
pub enum Rec {
    Stream { stub: usize, assets: Vec<String>, instruments: Vec<String> },
    Snapshot { stub: usize, assets: Vec<String>, instruments: Vec<String> },
    Open { stub: usize, exchange: ExchangeId, instrument: String, cid: String },
    Cancel { stub: usize, exchange: ExchangeId, instrument: String, cid: String },
}

/// What the stub answers to an open / cancel request (None = success echoing the request).
#[derive(Debug, Clone, Default)]
pub struct StubScript {
    pub log: Vec<Rec>,
    pub reject_with: Option<UnindexedOrderError>,
    /// events the account stream yields (then it stays pending)
    pub stream_events: Vec<UnindexedAccountEvent>,
}

pub type StubCfg = Arc<Mutex<StubScript>>;

#[derive(Debug, Clone)]
pub struct Stub<const X: usize> {
    pub cfg: StubCfg,
}

impl<const X: usize> ExecutionClient for Stub<X> {
    const EXCHANGE: ExchangeId = EX_ALL[X];
    type Config = StubCfg;
    type AccountStream = futures::stream::BoxStream<'static, UnindexedAccountEvent>;

    fn new(config: Self::Config) -> Self {
        Self { cfg: config }
    }

    async fn account_snapshot(
        &self,
        assets: &[AssetNameExchange],
        instruments: &[InstrumentNameExchange],
    ) -> Result<UnindexedAccountSnapshot, UnindexedClientError> {
        self.cfg.lock().unwrap().log.push(Rec::Snapshot {
            stub: X,
            assets: assets.iter().map(|a| a.name().to_string()).collect(),
            instruments: instruments.iter().map(|i| i.name().to_string()).collect(),
        });
        // echo exactly the names this client was configured with
        Ok(UnindexedAccountSnapshot {
            exchange: EX_ALL[X],
            balances: assets.iter().map(|a| AssetBalance { asset: a.clone(), balance: Balance::default(), time_exchange: t0() }).collect(),
            instruments: instruments.iter().map(|i| InstrumentAccountSnapshot { instrument: i.clone(), orders: vec![] }).collect(),
        })
    }

    async fn account_stream(
        &self,
        assets: &[AssetNameExchange],
        instruments: &[InstrumentNameExchange],
    ) -> Result<Self::AccountStream, UnindexedClientError> {
        let mut g = self.cfg.lock().unwrap();
        g.log.push(Rec::Stream {
            stub: X,
            assets: assets.iter().map(|a| a.name().to_string()).collect(),
            instruments: instruments.iter().map(|i| i.name().to_string()).collect(),
        });
        use futures::StreamExt;
        Ok(futures::stream::iter(g.stream_events.clone()).chain(futures::stream::pending()).boxed())
    }

    async fn cancel_order(
        &self,
        request: OrderRequestCancel<ExchangeId, &InstrumentNameExchange>,
    ) -> UnindexedOrderResponseCancel {
        let mut g = self.cfg.lock().unwrap();
        g.log.push(Rec::Cancel {
            stub: X,
            exchange: request.key.exchange,
            instrument: request.key.instrument.name().to_string(),
            cid: request.key.cid.0.to_string(),
        });
        OrderEvent {
            key: OrderKey {
                exchange: request.key.exchange,
                instrument: request.key.instrument.clone(),
                strategy: request.key.strategy.clone(),
                cid: request.key.cid.clone(),
            },
            state: match &g.reject_with {
                None => Ok(Cancelled { id: OrderId::new("stub-order"), time_exchange: t_plus(2) }),
                Some(e) => Err(e.clone()),
            },
        }
    }

    async fn open_order(
        &self,
        request: OrderRequestOpen<ExchangeId, &InstrumentNameExchange>,
    ) -> Order<ExchangeId, InstrumentNameExchange, Result<Open, UnindexedOrderError>> {
        let mut g = self.cfg.lock().unwrap();
        g.log.push(Rec::Open {
            stub: X,
            exchange: request.key.exchange,
            instrument: request.key.instrument.name().to_string(),
            cid: request.key.cid.0.to_string(),
        });
        Order {
            key: OrderKey {
                exchange: request.key.exchange,
                instrument: request.key.instrument.clone(),
                strategy: request.key.strategy.clone(),
                cid: request.key.cid.clone(),
            },
            side: request.state.side,
            price: request.state.price,
            quantity: request.state.quantity,
            kind: request.state.kind,
            time_in_force: request.state.time_in_force,
            state: match &g.reject_with {
                None => Ok(Open { id: OrderId::new("stub-order"), time_exchange: t_plus(2), filled_quantity: Decimal::ZERO }),
                Some(e) => Err(e.clone()),
            },
        }
    }

    async fn fetch_balances(&self) -> Result<Vec<AssetBalance<AssetNameExchange>>, UnindexedClientError> {
        Ok(vec![])
    }

    async fn fetch_open_orders(
        &self,
    ) -> Result<Vec<Order<ExchangeId, InstrumentNameExchange, Open>>, UnindexedClientError> {
        Ok(vec![])
    }

    async fn fetch_trades(
        &self,
        _time_since: DateTime<Utc>,
    ) -> Result<Vec<Trade<QuoteAsset, InstrumentNameExchange>>, UnindexedClientError> {
        Ok(vec![])
    }
}

// ---------------------------------------------------------------------------------------------------------
// layer "links": the real ExecutionBuilder, init futures and manager futures, driven by hand (E-ENV)
// ---------------------------------------------------------------------------------------------------------

type BoxFut = Pin<Box<dyn Future<Output = ()> + Send + 'static>>;

/// `clients`: menu-exchange positions (into `EX_ALL`) that get a stub client, in `add_live` order.
pub fn check_links(ix: &IndexedInstruments, clients: &[usize]) -> Vec<Viol> {
    let mut out = Vec::new();
    let cfg: StubCfg = Arc::new(Mutex::new(StubScript::default()));
    let built = guarded(|| {
        let mut b = ExecutionBuilder::new(ix);
        for &x in clients {
            let t = Duration::from_secs(5);
            b = match x {
                0 => b.add_live::<Stub<0>>(cfg.clone(), t),
                1 => b.add_live::<Stub<1>>(cfg.clone(), t),
                2 => b.add_live::<Stub<2>>(cfg.clone(), t),
                _ => b.add_live::<Stub<3>>(cfg.clone(), t),
            }
            .map_err(|e| format!("{e:?}"))?;
        }
        Ok::<_, String>(b.build())
    });
    let build = match built {
        Ok(Ok(b)) => b,
        Ok(Err(e)) => {
            out.push(("C11/derived/execution-links/builder-rejects-defined-exchange".into(), e));
            return out;
        }
        Err(p) => {
            out.push(("C11/derived/execution-links/builder-panics".into(), p));
            return out;
        }
    };

    // ---- the table itself: position i is exchange i; a link exists iff a client was added for that exchange
    let entries: Vec<(ExchangeId, bool)> = (&build.execution_tx_map).into_iter().map(|(id, tx)| (*id, tx.is_some())).collect();
    if entries.len() != ix.exchanges().len() {
        out.push(("C11/derived/execution-links/count".into(), format!("{} entries for {} exchanges", entries.len(), ix.exchanges().len())));
    }
    for ke in ix.exchanges() {
        let i = ke.key.index();
        let has_client = clients.iter().any(|&x| EX_ALL[x] == ke.value);
        match entries.get(i) {
            Some((id, present)) if *id == ke.value => {
                if *present != has_client {
                    out.push(("C11/derived/execution-links/link-presence-mismatch".into(),
                        format!("entry {i} ({}) has link={present}, client added={has_client}", ke.value)));
                }
            }
            other => out.push(("C11/derived/execution-links/index-holds-other-exchange".into(),
                format!("entry {i} is {other:?}, exchange {i} is {}", ke.value))),
        }
        let found = build.execution_tx_map.find(&ke.key).is_ok();
        if found != has_client {
            out.push(("C11/derived/execution-links/find-presence-mismatch".into(),
                format!("find({i}) ok={found}, client added for {}={has_client}", ke.value)));
        }
    }
    if build.execution_tx_map.find(&ExchangeIndex(ix.exchanges().len())).is_ok() {
        out.push(("C11/derived/execution-links/absent-index-found".into(), "find(len) is Ok".into()));
    }

    // ---- behaviour: initialise every manager, then route one Shutdown through every link
    let rt = paused_rt();
    let _g = rt.enter();
    let (flag, waker) = flag_waker();
    let mut managers: Vec<(ExchangeId, Option<BoxFut>)> = Vec::new();
    let mut forwards: Vec<BoxFut> = Vec::new();
    let barter::execution::builder::ExecutionBuild { execution_tx_map, account_channel, futures } = build;
    for mut init in futures.execution_init_futures {
        let before = cfg.lock().unwrap().log.len();
        let polled = guarded(|| poll_quiesce(init.as_mut(), &flag, &waker));
        // which exchange did this init future talk to? (observed at the client, not assumed from the order)
        let who: BTreeSet<usize> = cfg.lock().unwrap().log[before..].iter().map(|r| match r {
            Rec::Stream { stub, .. } | Rec::Snapshot { stub, .. } | Rec::Open { stub, .. } | Rec::Cancel { stub, .. } => *stub,
        }).collect();
        match polled {
            Ok(Poll::Ready(Ok((m, f)))) if who.len() == 1 => {
                managers.push((EX_ALL[*who.iter().next().unwrap()], Some(m)));
                forwards.push(f);
            }
            Ok(Poll::Ready(Ok(_))) => panic!("harness: init future touched clients {who:?}"),
            Ok(Poll::Ready(Err(e))) => out.push(("C11/derived/execution-links/manager-init-fails".into(), format!("{e:?}"))),
            Ok(Poll::Pending) => panic!("harness: ExecutionManager::init stayed pending with an immediate stub"),
            Err(p) => out.push(("C11/derived/execution-links/manager-init-panics".into(), p)),
        }
    }
    if !out.is_empty() {
        return out;
    }
    // every manager's account stream starts with a snapshot: it must carry exactly the indices of that exchange
    let mut rx = account_channel.rx;
    for f in forwards.iter_mut() {
        if let Err(p) = guarded(|| poll_quiesce(f.as_mut(), &flag, &waker)) {
            out.push(("C11/derived/execution-links/account-stream-panics".into(), p));
        }
    }
    let mut seen: BTreeMap<usize, (BTreeSet<usize>, BTreeSet<usize>, usize)> = BTreeMap::new();
    while let Ok(ev) = rx.rx.try_recv() {
        if let AccountStreamEvent::Item(AccountEvent { exchange, kind: AccountEventKind::Snapshot(s) }) = ev {
            seen.insert(exchange.index(), (
                s.balances.iter().map(|b| b.asset.index()).collect(),
                s.instruments.iter().map(|i| i.instrument.index()).collect(),
                s.exchange.index(),
            ));
        }
    }
    let mut want_seen = BTreeMap::new();
    for ke in ix.exchanges().iter().filter(|ke| clients.iter().any(|&x| EX_ALL[x] == ke.value)) {
        want_seen.insert(ke.key.index(), (
            ix.assets().iter().filter(|k| k.value.exchange == ke.value).map(|k| k.key.index()).collect::<BTreeSet<_>>(),
            ix.instruments().iter().filter(|k| k.value.exchange.value == ke.value).map(|k| k.key.index()).collect::<BTreeSet<_>>(),
            ke.key.index(),
        ));
    }
    if seen != want_seen {
        out.push(("C11/derived/execution-links/initial-snapshot-carries-other-indices".into(),
            format!("snapshots by exchange index (assets, instruments, exchange): {seen:?}, expected {want_seen:?}")));
    }
    // a Shutdown sent through link i terminates the manager of exchange i and no other
    for ke in ix.exchanges() {
        let Ok(tx) = execution_tx_map.find(&ke.key) else { continue };
        if tx.send(ExecutionRequest::Shutdown).is_err() {
            out.push(("C11/derived/execution-links/link-closed".into(), format!("send through link {} failed", ke.key)));
            continue;
        }
        let mut finished = Vec::new();
        for (id, m) in managers.iter_mut() {
            if let Some(fut) = m {
                match guarded(|| poll_quiesce(fut.as_mut(), &flag, &waker)) {
                    Ok(Poll::Ready(())) => { finished.push(*id); *m = None; }
                    Ok(Poll::Pending) => {}
                    Err(p) => { finished.push(*id); *m = None; out.push(("C11/derived/execution-links/manager-panics".into(), p)); }
                }
            }
        }
        if finished != vec![ke.value] {
            let cause = if finished.is_empty() { "send-reaches-no-manager" } else { "send-reaches-other-manager" };
            out.push((format!("C11/derived/execution-links/{cause}"),
                format!("Shutdown through link {} ({}) terminated managers {finished:?}", ke.key, ke.value)));
        }
    }
    out
}

// ---------------------------------------------------------------------------------------------------------
// driver
// ---------------------------------------------------------------------------------------------------------

fn digits(mut n: u64, len: usize, base: u64) -> Vec<usize> {
    let mut v = vec![0usize; len];
    for d in v.iter_mut().rev() {
        *d = (n % base) as usize;
        n /= base;
    }
    v
}

fn set_of(seq: &[usize]) -> Vec<usize> {
    seq.iter().copied().sorted().dedup().collect()
}

/// All (clients subset, add order) variants for the exchanges present in `ix`.
fn client_variants(ix: &IndexedInstruments) -> Vec<Vec<usize>> {
    let present: Vec<usize> = (0..EX_ALL.len()).filter(|&x| ix.exchanges().iter().any(|k| k.value == EX_ALL[x])).collect();
    let mut v = Vec::new();
    for k in 0..=present.len() {
        for perm in present.iter().copied().permutations(k) {
            v.push(perm);
        }
    }
    v
}

fn eval_index(menu: &[Def], seq: &[usize]) -> (Vec<Viol>, Option<IndexedInstruments>) {
    let defs: Vec<&Def> = seq.iter().map(|&i| &menu[i]).collect();
    match build_indexed(seq, menu) {
        Err(p) => (vec![("C11/build/panics".into(), format!("IndexedInstrumentsBuilder panicked: {p}"))], None),
        Ok(ix) => {
            let mut out = check_indexed(&defs, &ix, menu);
            // order independence: the same multiset inserted in canonical (menu) order without duplicates
            let canon = set_of(seq);
            if canon != seq {
                match build_indexed(&canon, menu) {
                    Ok(c) if c == ix => {}
                    Ok(_) => out.push((
                        "C11/order-independence/differs-from-canonical-insertion".into(),
                        format!("insertion {seq:?} and insertion {canon:?} give different IndexedInstruments"),
                    )),
                    Err(_) => {}
                }
            }
            // The other entry points for "a collection of instruments": the all-at-once constructor and
            // `FromIterator`. A result equal to the builder's has just been judged; a different one is judged by the
            // same definition-level oracle (a different but valid indexing passes) and must itself be
            // independent of the insertion order.
            type Ctor = fn(Vec<Def>) -> IndexedInstruments;
            let ctors: [(&str, Ctor); 2] = [
                ("constructor-new", |v| IndexedInstruments::new(v)),
                ("from-iterator", |v| v.into_iter().collect::<IndexedInstruments>()),
            ];
            let mut judged: Vec<IndexedInstruments> = Vec::new(); // results already judged (one defect, one family of signatures)
            for (name, ctor) in ctors {
                let of = |s: &[usize]| guarded(|| ctor(s.iter().map(|&i| menu[i].clone()).collect()));
                match of(seq) {
                    Err(p) => out.push((format!("C11/{name}/panics"), format!("{name} panicked on {seq:?}: {p}"))),
                    Ok(n) if n == ix || judged.contains(&n) => {}
                    Ok(n) => {
                        for (sig, detail) in check_indexed(&defs, &n, menu) {
                            out.push((sig.replacen("C11/", &format!("C11/{name}/"), 1), format!("[{name}] {detail}")));
                        }
                        if canon != seq {
                            if let Ok(c) = of(&canon) {
                                if c != n {
                                    out.push((format!("C11/{name}/order-independence/differs-from-canonical-insertion"),
                                        format!("{name}: insertion {seq:?} and insertion {canon:?} give different IndexedInstruments")));
                                }
                            }
                        }
                        judged.push(n);
                    }
                }
            }
            (out, Some(ix))
        }
    }
}

/// Index layer over one menu: every sequence of length <= `max_len` and every permutation of `perm_sizes`
/// definitions. With `must_contain = Some(k)` only inputs that use a definition at menu position >= k are
/// evaluated (the others were already evaluated with the base menu).
struct IndexSweep<'a> {
    ctx: &'a Ctx,
    menu: &'a [Def],
    menu_name: &'static str,
    must_contain: Option<usize>,
    evaluations: AtomicU64,
    with_dups: AtomicU64,
    perm_evals: AtomicU64,
    distinct: &'a Distinct,
    samples: &'a Samples,
}

impl IndexSweep<'_> {
    fn wanted(&self, seq: &[usize]) -> bool {
        self.must_contain.is_none_or(|k| seq.iter().any(|&i| i >= k))
    }
    fn one(&self, seq: &[usize], is_perm: bool, sample: bool) {
        if !self.wanted(seq) {
            return;
        }
        let (viols, ix) = eval_index(self.menu, seq);
        if is_perm {
            self.perm_evals.fetch_add(1, Ordering::Relaxed);
        } else {
            self.evaluations.fetch_add(1, Ordering::Relaxed);
            if set_of(seq).len() != seq.len() {
                self.with_dups.fetch_add(1, Ordering::Relaxed);
            }
        }
        if let Some(ix) = &ix {
            self.distinct.add(&(ix.exchanges(), ix.assets(), ix.instruments()));
            if sample {
                self.samples.offer(|| json!({"layer": "index", "menu": self.menu_name, "seq": seq, "exchanges": ix.exchanges().len(), "assets": ix.assets().len(), "instruments": ix.instruments().len()}));
            }
        }
        for (sig, detail) in viols {
            self.ctx.violate(sig, detail, json!({"layer": "index", "menu": self.menu_name, "seq": seq}));
        }
    }
    fn run(&self, max_len: usize, perm_sizes: std::ops::RangeInclusive<usize>) {
        let base = self.menu.len() as u64;
        for len in 0..=max_len {
            let total = base.pow(len as u32);
            (0..total).into_par_iter().for_each(|n| {
                self.one(&digits(n, len, base), false, len == 3 && n % 97 == 5);
            });
        }
        for k in perm_sizes {
            // streamed in chunks: the permutation list of the larger sizes does not fit comfortably in memory
            let mut it = (0..self.menu.len()).permutations(k);
            loop {
                let chunk: Vec<Vec<usize>> = it.by_ref().take(1 << 16).collect();
                if chunk.is_empty() {
                    break;
                }
                chunk.into_par_iter().for_each(|seq| self.one(&seq, true, false));
            }
        }
    }
}

fn menu_by_name(name: Option<&str>) -> Vec<Def> {
    match name {
        Some("ext") => menu_ext(),
        Some("ext2") => menu_ext2(),
        _ => menu(),
    }
}

pub fn run(ctx: &Ctx) -> Outcome {
    install_quiet_hook();
    let menu = menu();
    let ext = menu_ext();
    let max_len: usize = ctx.tier.pick(4, 6);
    let max_perm: usize = ctx.tier.pick(6, menu.len());
    // extended menu (10 definitions): only inputs that use one of the two extra definitions
    let ext_max_len: usize = ctx.tier.pick(4, 5);
    let ext_max_perm: usize = ctx.tier.pick(5, 6);

    // ---- layer index
    let distinct = Distinct::default();
    let samples = Samples::new(100_000); // candidates; sorted and cut to 6 below (deterministic under parallelism)
    let base_sweep = IndexSweep {
        ctx, menu: &menu, menu_name: "base", must_contain: None, evaluations: AtomicU64::new(0), with_dups: AtomicU64::new(0),
        perm_evals: AtomicU64::new(0), distinct: &distinct, samples: &samples,
    };
    base_sweep.run(max_len, (max_len + 1)..=max_perm);
    let ext_sweep = IndexSweep {
        ctx, menu: &ext, menu_name: "ext", must_contain: Some(menu.len()), evaluations: AtomicU64::new(0), with_dups: AtomicU64::new(0),
        perm_evals: AtomicU64::new(0), distinct: &distinct, samples: &samples,
    };
    ext_sweep.run(ext_max_len, (ext_max_len + 1)..=ext_max_perm);
    // second extended menu (asset roles that do not coincide): a defect of role resolution shows on one
    // definition, so a smaller sweep is enough
    let ext2 = menu_ext2();
    let ext2_max_len: usize = ctx.tier.pick(3, 4);
    let ext2_max_perm: usize = ctx.tier.pick(4, 5);
    let ext2_sweep = IndexSweep {
        ctx, menu: &ext2, menu_name: "ext2", must_contain: Some(menu.len()), evaluations: AtomicU64::new(0), with_dups: AtomicU64::new(0),
        perm_evals: AtomicU64::new(0), distinct: &distinct, samples: &samples,
    };
    // (diagnostic switch, used to show that this menu is what detects a given change: C11_DISABLE=ext2)
    let ext2_on = !std::env::var("C11_DISABLE").unwrap_or_default().contains("ext2");
    if !ext2_on {
        eprintln!("C11: second extended menu disabled for diagnosis - this run is not evidence");
    } else {
        ext2_sweep.run(ext2_max_len, (ext2_max_len + 1)..=ext2_max_perm);
    }

    // ---- layers derived + links: every distinct non-empty set of definitions of the extended menu (derived);
    // links: every set of the base menu, and every set with the Mock definition and at most one definition per
    // exchange (every exchange subset containing Mock x every choice of definitions)
    let derived_evals = AtomicU64::new(0);
    let link_runs = AtomicU64::new(0);
    let link_distinct = Distinct::default();
    (1u32..(1 << ext.len())).into_par_iter().for_each(|mask| {
        let set: Vec<usize> = (0..ext.len()).filter(|i| mask & (1 << i) != 0).collect();
        let is_base = set.iter().all(|&i| i < menu.len());
        let (viols, ix) = if is_base { eval_index(&menu, &set) } else { eval_index(&ext, &set) };
        let menu_name = if is_base { "base" } else { "ext" };
        let index_ok = viols.is_empty();
        for (sig, detail) in viols {
            ctx.violate(sig, detail, json!({"layer": "index", "menu": menu_name, "seq": set}));
        }
        // derived tables are judged against a correct index table only (no cascade of one defect)
        let Some(ix) = ix.filter(|_| index_ok) else { return };
        derived_evals.fetch_add(1, Ordering::Relaxed);
        for (sig, detail) in check_derived(&ix) {
            ctx.violate(sig, detail, json!({"layer": "derived", "menu": menu_name, "set": set}));
        }
        let one_per_exchange = set.iter().map(|&i| ext[i].exchange).all_unique();
        let with_mock = set.iter().any(|&i| ext[i].exchange == ExchangeId::Mock);
        if !(is_base || (with_mock && one_per_exchange)) {
            return;
        }
        for clients in client_variants(&ix) {
            link_runs.fetch_add(1, Ordering::Relaxed);
            link_distinct.add(&(ix.exchanges().iter().map(|k| k.value).collect::<Vec<_>>(), clients.clone()));
            for (sig, detail) in check_links(&ix, &clients) {
                ctx.violate(sig, detail, json!({"layer": "links", "menu": menu_name, "set": set, "clients": clients}));
            }
        }
    });

    // derived tables for every set of the second extended menu that uses one of its extra definitions
    (1u32..(1 << ext2.len())).into_par_iter().filter(|mask| ext2_on && mask >> menu.len() != 0).for_each(|mask| {
        let set: Vec<usize> = (0..ext2.len()).filter(|i| mask & (1 << i) != 0).collect();
        let (viols, ix) = eval_index(&ext2, &set);
        let index_ok = viols.is_empty();
        for (sig, detail) in viols {
            ctx.violate(sig, detail, json!({"layer": "index", "menu": "ext2", "seq": set}));
        }
        let Some(ix) = ix.filter(|_| index_ok) else { return };
        derived_evals.fetch_add(1, Ordering::Relaxed);
        for (sig, detail) in check_derived(&ix) {
            ctx.violate(sig, detail, json!({"layer": "derived", "menu": "ext2", "set": set}));
        }
    });

    let ld = |a: &AtomicU64| a.load(Ordering::Relaxed);
    let evals = ld(&base_sweep.evaluations) + ld(&ext_sweep.evaluations) + ld(&ext2_sweep.evaluations);
    let perm_evals = ld(&base_sweep.perm_evals) + ld(&ext_sweep.perm_evals) + ld(&ext2_sweep.perm_evals);
    Outcome {
        level: "exploration",
        coverage: json!({
            "evaluations": evals + perm_evals + ld(&derived_evals) + ld(&link_runs),
            "index_sequences": evals,
            "index_sequences_base_menu": ld(&base_sweep.evaluations),
            "index_sequences_using_an_extended_menu_definition": ld(&ext_sweep.evaluations),
            "index_permutations_longer_than_max_sequence_length": perm_evals,
            "index_permutations_base_menu": ld(&base_sweep.perm_evals),
            "index_permutations_using_an_extended_menu_definition": ld(&ext_sweep.perm_evals),
            "index_sequences_using_a_second_extended_menu_definition": ld(&ext2_sweep.evaluations),
            "index_permutations_using_a_second_extended_menu_definition": ld(&ext2_sweep.perm_evals),
            "second_extended_menu_max_sequence_length": ext2_max_len,
            "second_extended_menu_max_permutation_size": ext2_max_perm,
            "index_sequences_with_duplicates": ld(&base_sweep.with_dups) + ld(&ext_sweep.with_dups) + ld(&ext2_sweep.with_dups),
            "distinct_nontrivial": distinct.len(),
            "derived_sets": ld(&derived_evals),
            "account_events_by_index_that_turned_their_own_exchange_healthy": ld(&CONNECTIVITY_ROUTING_OBSERVED),
            "execution_link_runs": ld(&link_runs),
            "execution_link_distinct_configurations": link_distinct.len(),
            "max_sequence_length": max_len,
            "max_permutation_size": max_perm,
            "menu_size": menu.len(),
            "extended_menu_size": ext.len(),
            "extended_menu_max_sequence_length": ext_max_len,
            "extended_menu_max_permutation_size": ext_max_perm,
            "exhaustive": true,
            "rule": "every sequence (repetition allowed => duplicates, every insertion order) of length <= max_sequence_length over the 8-definition menu, plus every permutation of every larger subset up to max_permutation_size definitions, and the same (up to the extended bounds) over the 10-definition extended menu for the inputs that use one of its two extra definitions, and (up to the second extended bounds) over a second 10-definition menu whose two extra definitions are a future and an option with non-coinciding asset roles, through the real IndexedInstrumentsBuilder and also through IndexedInstruments::new and FromIterator (judged by the same oracle whenever their result differs from the builder's), oracle from the definitions; every non-empty subset of the extended menu and every subset of the second extended menu that uses one of its extra definitions through EngineStateBuilder / update_from_account / account-snapshot generation; every subset of the base menu and every one-definition-per-exchange subset containing the Mock exchange x (exchanges with client, add order) through ExecutionBuilder with manager futures polled by hand on a paused runtime",
            "samples": samples.take().into_iter().sorted_by_key(|v| v.to_string()).take(6).collect::<Vec<_>>(),
        }),
        assumptions: vec![
            "InstrumentNameInternal identifies an instrument (unique across exchanges) and an exchange names an asset one way (documented contracts)".into(),
            "menu of 8 definitions over 3 exchanges (spot, perpetual, future, option; settlement-only and unit-only assets; shared asset names); extended menu adds a definition whose smallest asset equals the largest asset of the previous exchange, a fourth exchange (Mock) whose ExchangeId order, name order and order of addition all differ; second extended menu adds a future and an option settled in an asset that is neither their base nor their quote, and a future sized in a unit asset nothing else uses".into(),
            "execution links: stub ExecutionClient per exchange; link routing observed with one Shutdown per link".into(),
        ].into_iter().chain((!ext2_on).then(|| "DIAGNOSTIC RUN - NOT EVIDENCE: second extended menu disabled through C11_DISABLE=ext2".to_string())).collect(),
    }
}

pub fn replay(ctx: &Ctx, case: &Value) {
    install_quiet_hook();
    // cases recorded before the extended menu existed carry no "menu" key: base menu
    let menu = menu_by_name(case["menu"].as_str());
    let list = |k: &str| -> Vec<usize> {
        case[k].as_array().map(|a| a.iter().filter_map(|v| v.as_u64().map(|x| x as usize)).collect()).unwrap_or_default()
    };
    let viols = match case["layer"].as_str() {
        Some("index") => eval_index(&menu, &list("seq")).0,
        Some("derived") => match build_indexed(&list("set"), &menu) {
            Ok(ix) => check_derived(&ix),
            Err(p) => vec![("C11/build/panics".into(), p)],
        },
        Some("links") => match build_indexed(&list("set"), &menu) {
            Ok(ix) => check_links(&ix, &list("clients")),
            Err(p) => vec![("C11/build/panics".into(), p)],
        },
        other => {
            eprintln!("MACHINERY: unknown C11 replay layer {other:?}");
            std::process::exit(2)
        }
    };
    for (sig, detail) in viols {
        ctx.violate(sig, detail, case.clone());
    }
}
