//! C09 — Late or duplicate exchange messages never roll engine state back.
//!
//! E-BFS to **fixpoint** through the real `EngineState::update_from_account` / `update_from_market`
//! on a 2-exchange, 2-instrument, 4-asset engine state. Items: two balances (one per exchange), two
//! open orders (one per instrument), top of book and last traded price of both instruments.
//! Messages: (item, exchange time t in {1,2,3}, value in {v,v'}), each deliverable any number of times
//! in any order; full account snapshots carrying a balance and/or an order report of one exchange;
//! `CancelSent` on an order (so held order data is also checked while a cancel is in flight).
//!
//! Value classes chosen so that coarse comparisons cannot hide: the three exchange instants are +1 s,
//! +1 s + 1 ns and +1 day + 0.5 s (a guard comparing whole seconds, milli- or microseconds sees the first
//! two as equal; the third is on the next calendar day at an EARLIER time of day than the first two, so a
//! guard that compares the parts of an instant separately - date, time of day - orders them wrongly);
//! a top of book may be one-sided (third value of the L1 items); the two instruments used have indices 1
//! and 2 (an unused instrument sorts first on exchange 0) so instrument index != exchange index.
//!
//! Entry points: `EngineState::update_from_account / update_from_market` (all models) and, for the
//! "engine-process" models, the engine's own entry point `Engine::process` with
//! `EngineEvent::Account(Item) / Market(Item)`, with trading disabled and enabled.
//!
//! Several items of one kind behind one container / one message (second hardening round): a second balance
//! of exchange 0 (another asset) and a second order on the instrument of the first order of exchange 0, and
//! full account snapshots naming two balances / two orders of one instrument, in both orders of appearance -
//! "a full account snapshot is subject to the same rule item by item" whatever the state of its other items;
//! a snapshot that lists an instrument without orders (or only another order of it) names no item and rolls nothing back.
//!
//! Connectivity (second hardening round): the link health flags of the engine state (market data / account
//! per exchange) ride in the explored state and are rebuilt on every step - a freshly built engine state has
//! every link `Reconnecting`, the first message of a link makes it `Healthy`, so without this every
//! transition would be executed in the just-started state only. "reconnect" models also offer the
//! `Reconnecting` notices of both streams as actions (no item may change) and start from both the
//! just-started and the all-healthy engine.
//!
//! Market events of the kinds the default instrument data does not track (liquidations, candles) are offered too
//! ("other-kinds" models): they either change nothing, or - should an implementation take their price as a
//! traded price - are judged like a trade message with that timestamp (so they too must not roll anything back).
//!
//! Monitor (rides in the state): per item the greatest timestamp delivered so far and the set of
//! values delivered with it. Invariant after every step (the statement): the held timestamp equals
//! that maximum and the held value is one delivered with it (so first-wins and last-wins at equal
//! timestamps both pass); items not named by a message are bit-identical.
//!
//! Soundness correction (red-team round): what an item holds BEFORE anything was delivered for it is not the
//! statement's business (no balance / a zero balance stamped with the engine start time; a never-populated top of
//! book stamped with the epoch or with the minimum instant). The initial content of every item is taken from a
//! freshly built engine state and read as "holds nothing that was delivered"; it must not look like a message of
//! the alphabet (asserted). A delivered message must still replace it, and falling back to it is a roll-back.

use super::common::*;
use crate::core::{Ctx, Outcome, hash_of};
use crate::explore::bfs::{self, Model, Viol};
use barter::{
    EngineEvent, Timed,
    engine::Processor,
    execution::AccountStreamEvent,
    engine::state::{
        connectivity::Health, global::DefaultGlobalData, instrument::data::DefaultInstrumentMarketData,
        order::in_flight_recorder::InFlightRequestRecorder, trading::TradingState,
    },
};
use barter_data::{
    books::Level,
    event::{DataKind, MarketEvent},
    streams::consumer::MarketStreamEvent,
    subscription::{book::OrderBookL1, candle::Candle, liquidation::Liquidation, trade::PublicTrade},
};
use barter_execution::{
    AccountEvent, AccountEventKind, AccountSnapshot, InstrumentAccountSnapshot,
    balance::{AssetBalance, Balance},
    order::{
        Order, OrderKey, OrderKind, TimeInForce,
        id::{ClientOrderId, OrderId},
        request::{OrderRequestCancel, RequestCancel},
        state::{ActiveOrderState, CancelInFlight, Open, OrderState},
    },
};
use barter_instrument::{
    Side,
    asset::{AssetIndex, name::AssetNameInternal},
    exchange::ExchangeIndex,
    index::IndexedInstruments,
    instrument::InstrumentIndex,
};
use barter_integration::snapshot::Snapshot;
use rust_decimal::Decimal;
use serde::{Deserialize, Serialize};
use serde_json::{Value, json};

// item ids
const BAL: [usize; 2] = [0, 1];
const ORD: [usize; 2] = [2, 3];
const L1: [usize; 2] = [4, 5];
const TRD: [usize; 2] = [6, 7];
/// second balance of exchange 0 (asset btc) / second order on the instrument of ORD[0]
const BAL2: usize = 8;
const ORD2: usize = 9;
const N_ITEMS: usize = 10;

/// exchange (= item group) of an item
fn exch(i: usize) -> usize {
    if i >= 8 { 0 } else { i % 2 }
}
fn is_bal(i: usize) -> bool {
    i < 2 || i == BAL2
}
fn is_ord(i: usize) -> bool {
    i == 2 || i == 3 || i == ORD2
}
/// label of an order item (client order id `c<label>`, order id `o<label>`)
fn ord_label(i: usize) -> usize {
    match i {
        2 => 0,
        3 => 1,
        _ => 2,
    }
}


/// exchange instant of time index t in {1,2,3}: +1 s, +1 s + 1 ns, +1 day + 0.5 s (t0 is 22:13:20 UTC: the
/// third instant is the greatest, but its time of day is the smallest)
fn time_of(t: u8) -> chrono::DateTime<chrono::Utc> {
    match t {
        1 => t_plus(1),
        2 => t_plus(1) + chrono::TimeDelta::nanoseconds(1),
        3 => t_plus_ms(86_400_500),
        _ => unreachable!("time index"),
    }
}
/// inverse of `time_of` (250 = not an instant of the alphabet)
fn time_index(d: chrono::DateTime<chrono::Utc>) -> u8 {
    (1..=3u8).find(|t| time_of(*t) == d).unwrap_or(250)
}

/// instrument of item group w (exchange w): indices 1 and 2
fn inst(w: usize) -> InstrumentIndex {
    InstrumentIndex(w + 1)
}

fn item_kind(i: usize) -> &'static str {
    match i {
        0 | 1 | BAL2 => "balance",
        2 | 3 | ORD2 => "order",
        4 | 5 => "top-of-book",
        _ => "last-trade",
    }
}

#[derive(Debug, Clone, Copy, PartialEq, Eq, Hash, Default)]
pub struct ItemSt {
    /// what the implementation holds: (t, value index)
    held: Option<(u8, u8)>,
    /// monitor: greatest timestamp delivered, and bitmask of values delivered with it
    max_t: u8,
    mask: u8,
    /// order items only: a cancel is in flight
    cancelling: bool,
}

/// items + link health flags of the engine state (bit 2w: market data of exchange w is Healthy, bit 2w+1:
/// its account link is Healthy)
#[derive(Debug, Clone, PartialEq, Eq, Hash)]
pub struct St(Vec<ItemSt>, u8);
const ALL_HEALTHY: u8 = 0b1111;

#[derive(Debug, Clone, PartialEq, Eq, Hash, Serialize, Deserialize)]
pub enum Act {
    /// deliver one message (item, t, value)
    Msg(usize, u8, u8),
    /// full account snapshot of the exchange of these items
    Full(Vec<(usize, u8, u8)>),
    CancelSent(usize),
    /// full account snapshot of exchange w that names NO item: no balances, the instrument listed without orders
    FullEmpty(usize),
    /// `Reconnecting` notice of the account stream (true) / market stream (false) of exchange w
    Reconnecting(bool, usize),
    /// market event of a kind that is not tracked (0 = liquidation, 1 = candle) for the instrument of exchange w,
    /// stamped t, price 100 + v
    OtherMarket(u8, usize, u8, u8),
}

pub struct M {
    /// Some(trading state): deliver through `Engine::process`; None: through `EngineState::update_from_*`
    via_engine: Option<TradingState>,
    /// values offered for top-of-book items: 2 (two-sided books) or 3 (plus a one-sided book)
    l1_values: u8,
    /// offer the streams' `Reconnecting` notices as actions and start from both the just-started engine
    /// (every link Reconnecting) and the all-healthy engine
    reconnects: bool,
    /// offer liquidations and candles
    other_kinds: bool,
    active: Vec<usize>,
    instruments: IndexedInstruments,
    bal_assets: [AssetIndex; 2],
    bal2_asset: AssetIndex,
    /// what a freshly built engine state holds per item BEFORE anything was delivered (the statement says
    /// nothing about that: `None`, a zero balance stamped with the engine start time, a never-populated book
    /// stamped however the implementation likes ... are all fine). An item that holds exactly this is read as
    /// "holds nothing that was delivered".
    fresh_bal: Vec<Option<Timed<Balance>>>,
    fresh_l1: Vec<OrderBookL1>,
    fresh_trd: Vec<Option<Timed<Decimal>>>,
}

impl M {
    pub fn new(active: &[usize]) -> Self {
        let instruments = IndexedInstruments::builder()
            .add_instrument(spot(EXCHANGES[0], "x0_aaa_usdt", "AAAUSDT", "aaa", "usdt"))
            .add_instrument(spot(EXCHANGES[0], "x0_btc_usdt", "BTCUSDT", "btc", "usdt"))
            .add_instrument(spot(EXCHANGES[1], "x1_eth_usdt", "ETH/USDT", "eth", "usdt"))
            .build();
        let a0 = instruments.find_asset_index(EXCHANGES[0], &AssetNameInternal::new("usdt")).unwrap();
        let a1 = instruments.find_asset_index(EXCHANGES[1], &AssetNameInternal::new("usdt")).unwrap();
        for (w, name) in ["x0_btc_usdt", "x1_eth_usdt"].iter().enumerate() {
            assert_eq!(instruments.instruments()[inst(w).0].value.name_internal.name().as_str(), *name, "harness: instrument order");
        }
        let a2 = instruments.find_asset_index(EXCHANGES[0], &AssetNameInternal::new("btc")).unwrap();
        let mut m = Self { via_engine: None, l1_values: 2, reconnects: false, other_kinds: false, active: active.to_vec(), instruments, bal_assets: [a0, a1], bal2_asset: a2,
            fresh_bal: vec![None; N_ITEMS], fresh_l1: vec![OrderBookL1::default(); N_ITEMS], fresh_trd: vec![None; N_ITEMS] };
        // the initial content of every item, as the real builder makes it
        let fresh = m.build(&St(vec![ItemSt::default(); N_ITEMS], 0));
        for i in 0..N_ITEMS {
            let data = &fresh.instruments.instrument_index(&inst(exch(i))).data;
            if is_bal(i) {
                m.fresh_bal[i] = fresh.assets.asset_index(&m.asset_of(i)).balance.clone();
            }
            m.fresh_l1[i] = data.l1.clone();
            m.fresh_trd[i] = data.last_traded_price.clone();
        }
        // the initial content must not look like a message of the alphabet (else "nothing delivered yet" and
        // "holds a delivered value" could not be told apart)
        for i in 0..N_ITEMS {
            assert!(m.fresh_bal[i].as_ref().is_none_or(|b| time_index(b.time) == 250), "harness: initial balance looks like a message");
            assert!(time_index(m.fresh_l1[i].last_update_time) == 250, "harness: initial top of book looks like a message");
            assert!(m.fresh_trd[i].as_ref().is_none_or(|p| time_index(p.time) == 250), "harness: initial last trade looks like a message");
        }
        // a freshly built engine state has every link Reconnecting (flags 0) and the flags can be written and read back
        assert_eq!(m.read(&m.build(&St(vec![ItemSt::default(); N_ITEMS], 0))).1, 0, "harness: link health of a fresh engine state");
        assert_eq!(m.read(&m.build(&St(vec![ItemSt::default(); N_ITEMS], 0b0110))).1, 0b0110, "harness: link health round trip");
        m
    }

    fn asset_of(&self, i: usize) -> AssetIndex {
        if i == BAL2 { self.bal2_asset } else { self.bal_assets[i % 2] }
    }

    /// number of distinct values offered for an item
    fn n_values(&self, i: usize) -> u8 {
        if L1.contains(&i) { self.l1_values } else { 2 }
    }

    pub fn via_engine(mut self, trading: TradingState) -> Self {
        self.via_engine = Some(trading);
        self
    }

    /// `which`: an order ITEM id (2, 3, ORD2)
    fn order_key(&self, which: usize) -> OrderKey {
        OrderKey {
            exchange: ExchangeIndex(exch(which)),
            instrument: inst(exch(which)),
            strategy: strategy_id(),
            cid: ClientOrderId::new(format!("c{}", ord_label(which))),
        }
    }
    fn open(&self, which: usize, t: u8, v: u8) -> Open {
        Open { id: OrderId::new(format!("o{}", ord_label(which))), time_exchange: time_of(t), filled_quantity: Decimal::from(v) }
    }
    fn order_with<S>(&self, which: usize, state: S) -> Order<ExchangeIndex, InstrumentIndex, S> {
        Order {
            key: self.order_key(which),
            side: Side::Buy,
            price: Decimal::from(100),
            quantity: Decimal::from(2),
            kind: OrderKind::Limit,
            time_in_force: TimeInForce::GoodUntilCancelled { post_only: false },
            state,
        }
    }
    fn balance(v: u8) -> Balance {
        Balance::new(Decimal::from(10 + v as i64), Decimal::from(10 + v as i64))
    }
    fn l1(t: u8, v: u8) -> OrderBookL1 {
        OrderBookL1 {
            last_update_time: time_of(t),
            // value 2: a one-sided book (no ask); value 3: an empty book (a cleared book / halted market
            // is a real, timestamped message: it too must not be overwritten by an older quote)
            best_bid: (v < 3).then(|| Level::new(Decimal::from(100 + v as i64), Decimal::ONE)),
            best_ask: (v < 2).then(|| Level::new(Decimal::from(102 + v as i64), Decimal::ONE)),
        }
    }

    fn build(&self, s: &St) -> EState {
        let mut state: EState = barter::engine::state::EngineState::builder(
            &self.instruments,
            DefaultGlobalData,
            DefaultInstrumentMarketData::default,
        )
        .time_engine_start(t0())
        .trading_state(TradingState::Disabled)
        .build();
        for i in 0..N_ITEMS {
            let it = s.0[i];
            let w = exch(i);
            if is_bal(i) {
                if let Some((t, v)) = it.held {
                    state.assets.asset_index_mut(&self.asset_of(i)).balance = Some(Timed::new(Self::balance(v), time_of(t)));
                }
            } else if is_ord(i) {
                let st = match (it.held, it.cancelling) {
                    (Some((t, v)), true) => Some(ActiveOrderState::CancelInFlight(CancelInFlight { order: Some(self.open(i, t, v)) })),
                    (Some((t, v)), false) => Some(ActiveOrderState::Open(self.open(i, t, v))),
                    // only reachable after a violation: cancel in flight without confirmed open data
                    (None, true) => Some(ActiveOrderState::CancelInFlight(CancelInFlight { order: None })),
                    (None, false) => None,
                };
                if let Some(st) = st {
                    state.instruments.instrument_index_mut(&inst(w)).orders.0.insert(self.order_key(i).cid, self.order_with(i, st));
                }
            } else if L1.contains(&i) {
                if let Some((t, v)) = it.held {
                    state.instruments.instrument_index_mut(&inst(w)).data.l1 = Self::l1(t, v);
                }
            } else if let Some((t, v)) = it.held {
                state.instruments.instrument_index_mut(&inst(w)).data.last_traded_price =
                    Some(Timed::new(Decimal::from(100 + v as i64), time_of(t)));
            }
        }
        // link health flags
        let health = |on: bool| if on { Health::Healthy } else { Health::Reconnecting };
        for w in 0..2 {
            let c = state.connectivity.connectivity_mut(&EXCHANGES[w]);
            c.market_data = health(s.1 >> (2 * w) & 1 == 1);
            c.account = health(s.1 >> (2 * w + 1) & 1 == 1);
        }
        state.connectivity.global = health(s.1 == ALL_HEALTHY);
        state
    }

    /// read what the implementation holds for every item: (held, cancelling, readable), and the link health flags
    fn read(&self, state: &EState) -> (Vec<(Option<(u8, u8)>, bool, bool)>, u8) {
        let tt = time_index;
        let mut out = vec![(None, false, true); N_ITEMS];
        for i in 0..N_ITEMS {
            let w = exch(i);
            let inst = state.instruments.instrument_index(&inst(w));
            if is_bal(i) {
                if let Some(b) = state.assets.asset_index(&self.asset_of(i)).balance.as_ref().filter(|b| Some(*b) != self.fresh_bal[i].as_ref()) {
                    let v = (0..2u8).find(|v| Self::balance(*v) == b.value);
                    out[i] = (Some((tt(b.time), v.unwrap_or(9))), false, v.is_some());
                }
            } else if is_ord(i) {
                if let Some(o) = inst.orders.0.get(&self.order_key(i).cid) {
                    let (open, cancelling) = match &o.state {
                        ActiveOrderState::Open(o) => (Some(o), false),
                        ActiveOrderState::CancelInFlight(c) => (c.order.as_ref(), true),
                        ActiveOrderState::OpenInFlight(_) => (None, false),
                    };
                    match open {
                        Some(op) => {
                            let v: u8 = op.filled_quantity.try_into().unwrap_or(9);
                            out[i] = (Some((tt(op.time_exchange), v)), cancelling, v < 2 && op.id == self.open(i, 1, 0).id);
                        }
                        // tracked without confirmed data: readable only as a cancel marker
                        None => out[i] = (None, cancelling, cancelling),
                    }
                }
            } else if L1.contains(&i) {
                let l1 = &inst.data.l1;
                if *l1 != self.fresh_l1[i] {
                    let t = tt(l1.last_update_time);
                    let v = (0..4u8).find(|v| t <= 3 && Self::l1(t, *v) == *l1);
                    out[i] = (Some((t, v.unwrap_or(9))), false, v.is_some());
                }
            } else if let Some(p) = inst.data.last_traded_price.as_ref().filter(|p| Some(*p) != self.fresh_trd[i].as_ref()) {
                let v = (0..2u8).find(|v| Decimal::from(100 + *v as i64) == p.value);
                out[i] = (Some((tt(p.time), v.unwrap_or(9))), false, v.is_some());
            }
        }
        // an instrument tracking an order that is none of the model's: its order items are unreadable
        for w in 0..2 {
            let mine: Vec<usize> = (0..N_ITEMS).filter(|i| is_ord(*i) && exch(*i) == w).collect();
            let orders = &state.instruments.instrument_index(&inst(w)).orders.0;
            let known = mine.iter().filter(|i| orders.contains_key(&self.order_key(**i).cid)).count();
            if orders.len() != known {
                for i in mine {
                    out[i].2 = false;
                }
            }
        }
        let mut conn = 0u8;
        for w in 0..2 {
            let c = state.connectivity.connectivity(&EXCHANGES[w]);
            conn |= ((c.market_data == Health::Healthy) as u8) << (2 * w);
            conn |= ((c.account == Health::Healthy) as u8) << (2 * w + 1);
        }
        (out, conn)
    }

    fn deliver(&self, sink: &mut Sink, item: usize, t: u8, v: u8) {
        let w = exch(item);
        match item {
            0 | 1 | BAL2 => sink.account(AccountEvent {
                exchange: ExchangeIndex(w),
                kind: AccountEventKind::BalanceSnapshot(Snapshot(AssetBalance {
                    asset: self.asset_of(item),
                    balance: Self::balance(v),
                    time_exchange: time_of(t),
                })),
            }),
            2 | 3 | ORD2 => {
                let o: Order<ExchangeIndex, InstrumentIndex, OrderState<AssetIndex, InstrumentIndex>> =
                    self.order_with(item, OrderState::active(self.open(item, t, v)));
                sink.account(AccountEvent { exchange: ExchangeIndex(w), kind: AccountEventKind::OrderSnapshot(Snapshot(o)) });
            }
            4 | 5 => sink.market(MarketEvent {
                time_exchange: time_of(t),
                time_received: t_plus(10),
                exchange: EXCHANGES[w],
                instrument: inst(w),
                kind: DataKind::OrderBookL1(Self::l1(t, v)),
            }),
            _ => sink.market(MarketEvent {
                time_exchange: time_of(t),
                time_received: t_plus(10),
                exchange: EXCHANGES[w],
                instrument: inst(w),
                kind: DataKind::Trade(PublicTrade { id: "x".into(), price: 100.0 + v as f64, amount: 1.0, side: Side::Buy }),
            }),
        }
    }
}

/// Where messages are delivered: the engine state's update methods, or the engine's own entry point.
enum Sink {
    State(Box<EState>),
    Engine(Box<SEngine>),
}
impl Sink {
    fn account(&mut self, ev: AccountEvent) {
        match self {
            Sink::State(s) => {
                let _ = s.update_from_account(&ev);
            }
            Sink::Engine(e) => {
                let _ = e.process(EngineEvent::Account(AccountStreamEvent::Item(ev)));
            }
        }
    }
    fn market(&mut self, ev: MarketEvent<InstrumentIndex, DataKind>) {
        match self {
            Sink::State(s) => s.update_from_market(&ev),
            Sink::Engine(e) => {
                let _ = e.process(EngineEvent::Market(MarketStreamEvent::Item(ev)));
            }
        }
    }
    /// the `Reconnecting` notice of the account (true) / market (false) stream of `ex`
    fn reconnecting(&mut self, account: bool, ex: barter_instrument::exchange::ExchangeId) {
        match (self, account) {
            // what `Engine::update_from_account_stream / update_from_market_stream` do with the notice
            (Sink::State(s), true) => s.connectivity.update_from_account_reconnecting(&ex),
            (Sink::State(s), false) => s.connectivity.update_from_market_reconnecting(&ex),
            (Sink::Engine(e), true) => {
                let _ = e.process(EngineEvent::Account(AccountStreamEvent::Reconnecting(ex)));
            }
            (Sink::Engine(e), false) => {
                let _ = e.process(EngineEvent::Market(MarketStreamEvent::Reconnecting(ex)));
            }
        }
    }
    fn state(&self) -> &EState {
        match self {
            Sink::State(s) => s,
            Sink::Engine(e) => &e.state,
        }
    }
    fn state_mut(&mut self) -> &mut EState {
        match self {
            Sink::State(s) => s,
            Sink::Engine(e) => &mut e.state,
        }
    }
}

impl Model for M {
    type State = St;
    type Action = Act;

    fn init(&self) -> Vec<St> {
        let fresh = St(vec![ItemSt::default(); N_ITEMS], 0);
        if self.reconnects { vec![fresh.clone(), St(fresh.0, ALL_HEALTHY)] } else { vec![fresh] }
    }

    fn actions(&self, s: &St) -> Vec<Act> {
        let mut v = Vec::new();
        for &i in &self.active {
            for t in 1..=3u8 {
                for val in 0..self.n_values(i) {
                    v.push(Act::Msg(i, t, val));
                }
            }
            // offered in every state: a cancel request may be re-sent while one is in flight
            if is_ord(i) {
                v.push(Act::CancelSent(i));
            }
        }
        if self.other_kinds {
            for w in 0..2 {
                if self.active.contains(&L1[w]) || self.active.contains(&TRD[w]) {
                    for kind in 0..2u8 {
                        for t in 1..=3u8 {
                            v.push(Act::OtherMarket(kind, w, t, (t + kind) % 2));
                        }
                    }
                }
            }
        }
        if self.reconnects {
            for w in 0..2 {
                if self.active.iter().any(|i| exch(*i) == w && (is_bal(*i) || is_ord(*i))) {
                    v.push(Act::Reconnecting(true, w));
                }
                if self.active.iter().any(|i| exch(*i) == w && !(is_bal(*i) || is_ord(*i))) {
                    v.push(Act::Reconnecting(false, w));
                }
            }
        }
        // full snapshots: per exchange w, every single account item and every pair of account items with one
        // (t,v) each; two items of one kind (two balances, two orders of one instrument) in both orders of
        // appearance inside the snapshot
        let tv: Vec<(u8, u8)> = (1..=3u8).flat_map(|t| (0..2u8).map(move |v| (t, v))).collect();
        for w in 0..2 {
            if self.active.iter().any(|i| exch(*i) == w && is_ord(*i)) {
                v.push(Act::FullEmpty(w));
            }
            let mut acct: Vec<usize> = self.active.iter().copied().filter(|i| exch(*i) == w && (is_bal(*i) || is_ord(*i))).collect();
            acct.sort();
            for &x in &acct {
                for &(t, val) in &tv {
                    v.push(Act::Full(vec![(x, t, val)]));
                }
            }
            for (k, &x) in acct.iter().enumerate() {
                for &y in &acct[k + 1..] {
                    for &(t1, v1) in &tv {
                        for &(t2, v2) in &tv {
                            v.push(Act::Full(vec![(x, t1, v1), (y, t2, v2)]));
                            if is_bal(x) == is_bal(y) {
                                v.push(Act::Full(vec![(y, t2, v2), (x, t1, v1)]));
                            }
                        }
                    }
                }
            }
        }
        v
    }

    fn step(&self, s: &St, a: &Act, out: &mut Vec<Viol>) -> Option<St> {
        let state = self.build(s);
        let mut sink = match self.via_engine {
            None => Sink::State(Box::new(state)),
            Some(trading) => {
                let (mut engine, _) = build_engine(&self.instruments, trading, &[]);
                engine.state = EState { trading, ..state };
                Sink::Engine(Box::new(engine))
            }
        };
        let applied = crate::core::guarded(|| self.apply(&mut sink, a));
        let Ok(msgs) = applied else {
            out.push(("C09/panic/update".to_string(), format!("action={a:?}: the code under test panicked")));
            return None;
        };
        self.judge(s, a, sink.state(), msgs, out)
    }

    fn impl_hash(&self, s: &St) -> Option<u64> {
        let v: Vec<_> = s.0.iter().map(|i| (i.held, i.cancelling)).collect();
        Some(hash_of(&(v, s.1)))
    }
}

impl M {
    fn apply(&self, state: &mut Sink, a: &Act) -> Vec<(usize, u8, u8)> {
        let msgs: Vec<(usize, u8, u8)> = match a {
            Act::Msg(i, t, v) => {
                self.deliver(state, *i, *t, *v);
                vec![(*i, *t, *v)]
            }
            Act::Full(items) => {
                let w = exch(items[0].0);
                let mut balances = Vec::new();
                let mut instruments: Vec<InstrumentAccountSnapshot<ExchangeIndex, AssetIndex, InstrumentIndex>> = Vec::new();
                for (i, t, v) in items {
                    if is_bal(*i) {
                        balances.push(AssetBalance { asset: self.asset_of(*i), balance: Self::balance(*v), time_exchange: time_of(*t) });
                    } else {
                        // orders of one instrument share its instrument snapshot, in the order given
                        let order = self.order_with(*i, OrderState::active(self.open(*i, *t, *v)));
                        match instruments.iter_mut().find(|s| s.instrument == inst(w)) {
                            Some(snap) => snap.orders.push(order),
                            None => instruments.push(InstrumentAccountSnapshot { instrument: inst(w), orders: vec![order] }),
                        }
                    }
                }
                state.account(AccountEvent {
                    exchange: ExchangeIndex(w),
                    kind: AccountEventKind::Snapshot(AccountSnapshot { exchange: ExchangeIndex(w), balances, instruments }),
                });
                items.clone()
            }
            Act::FullEmpty(w) => {
                state.account(AccountEvent {
                    exchange: ExchangeIndex(*w),
                    kind: AccountEventKind::Snapshot(AccountSnapshot {
                        exchange: ExchangeIndex(*w),
                        balances: vec![],
                        instruments: vec![InstrumentAccountSnapshot { instrument: inst(*w), orders: vec![] }],
                    }),
                });
                vec![]
            }
            Act::CancelSent(i) => {
                state.state_mut().record_in_flight_cancel(&OrderRequestCancel { key: self.order_key(*i), state: RequestCancel { id: None } });
                vec![]
            }
            Act::Reconnecting(account, w) => {
                state.reconnecting(*account, EXCHANGES[*w]);
                vec![]
            }
            Act::OtherMarket(kind, w, t, v) => {
                let price = 100.0 + *v as f64;
                state.market(MarketEvent {
                    time_exchange: time_of(*t),
                    time_received: t_plus(10),
                    exchange: EXCHANGES[*w],
                    instrument: inst(*w),
                    kind: if *kind == 0 {
                        DataKind::Liquidation(Liquidation { side: Side::Sell, price, quantity: 1.0, time: time_of(*t) })
                    } else {
                        DataKind::Candle(Candle { close_time: time_of(*t), open: price, high: price, low: price, close: price, volume: 1.0, trade_count: 1 })
                    },
                });
                vec![] // decided in `judge`: nothing, or a trade message if the last traded price moved
            }
        };
        msgs
    }

    fn judge(&self, s: &St, a: &Act, state: &EState, msgs: Vec<(usize, u8, u8)>, out: &mut Vec<Viol>) -> Option<St> {
        let via = match a {
            Act::Msg(..) => "single",
            Act::Full(_) | Act::FullEmpty(_) => "full-snapshot",
            Act::CancelSent(_) => "cancel-sent",
            Act::Reconnecting(..) => "reconnecting-notice",
            Act::OtherMarket(..) => "other-market-event-kind",
        };
        let (got, conn) = self.read(state);
        // a liquidation / candle that moved the last traded price is judged as a trade message with its timestamp
        let msgs = match a {
            Act::OtherMarket(_, w, t, v) if got[TRD[*w]].0 != s.0[TRD[*w]].held => vec![(TRD[*w], *t, *v)],
            _ => msgs,
        };
        let mut next = s.0.clone();
        for i in 0..N_ITEMS {
            let before = s.0[i];
            let (held, cancelling, readable) = got[i];
            let kind = item_kind(i);
            if !readable {
                out.push((format!("C09/{kind}/{via}/held-value-not-a-delivered-value"), format!("item={i} action={a:?} held={held:?}")));
                return None;
            }
            match msgs.iter().find(|(mi, _, _)| *mi == i) {
                Some(&(_, t, v)) => {
                    // monitor update
                    let (max_t, mask) = if t > before.max_t {
                        (t, 1u8 << v)
                    } else if t == before.max_t {
                        (before.max_t, before.mask | (1 << v))
                    } else {
                        (before.max_t, before.mask)
                    };
                    let rel = if t > before.max_t { "newer" } else if t == before.max_t { "equal-time" } else { "older" };
                    let ok = matches!(held, Some((ht, hv)) if ht == max_t && (mask >> hv) & 1 == 1);
                    if !ok {
                        let what = match held {
                            None => "nothing-held",
                            Some((ht, _)) if ht < max_t => "holds-older-timestamp",
                            Some((ht, _)) if ht > max_t => "holds-timestamp-never-delivered",
                            Some(_) => "value-not-delivered-with-held-timestamp",
                        };
                        out.push((
                            format!("C09/{kind}/{via}/message-{rel}-than-held/{what}"),
                            format!("item={i} before(held={:?},max_t={},mask={:#b}) message=(t={t},v={v}) after held={held:?}; expected t={max_t} with a value in mask {mask:#b}", before.held, before.max_t, before.mask),
                        ));
                        // re-synchronise the monitor with the implementation
                        next[i] = match held {
                            Some((ht, hv)) => ItemSt { held, max_t: ht, mask: 1 << hv, cancelling },
                            None => ItemSt { held: None, max_t: 0, mask: 0, cancelling },
                        };
                    } else {
                        next[i] = ItemSt { held, max_t, mask, cancelling };
                    }
                    if cancelling != before.cancelling {
                        out.push((format!("C09/{kind}/{via}/cancel-marker-changed-by-report"), format!("item={i} action={a:?}")));
                    }
                }
                None => {
                    let want_cancelling = match a {
                        Act::CancelSent(ci) if *ci == i => before.held.is_some() || before.cancelling,
                        _ => before.cancelling,
                    };
                    if held != before.held {
                        out.push((
                            format!("C09/{kind}/{via}/item-not-named-by-message-changed"),
                            format!("item={i} action={a:?} before={:?} after={held:?}", before.held),
                        ));
                        next[i] = match held {
                            Some((ht, hv)) => ItemSt { held, max_t: ht, mask: 1 << hv, cancelling },
                            None => ItemSt { held: None, max_t: 0, mask: 0, cancelling },
                        };
                    } else {
                        next[i] = ItemSt { cancelling, ..before };
                    }
                    if cancelling != want_cancelling {
                        out.push((format!("C09/{kind}/{via}/cancel-marker-unexpected"), format!("item={i} action={a:?} cancelling={cancelling} expected={want_cancelling}")));
                    }
                }
            }
        }
        Some(St(next, conn))
    }
}

struct Spec {
    label: &'static str,
    active: Vec<usize>,
    via: Option<TradingState>,
    l1_values: u8,
    reconnects: bool,
    other_kinds: bool,
}

fn models(tier: crate::core::Tier) -> Vec<Spec> {
    let sp = |label, active: &[usize], via, l1_values| Spec { label, active: active.to_vec(), via, l1_values, reconnects: false, other_kinds: label.contains("market") };
    // + the streams' Reconnecting notices as actions, started from the just-started and the all-healthy engine
    let rc = |label, active: &[usize], via, l1_values| Spec { label, active: active.to_vec(), via, l1_values, reconnects: true, other_kinds: label.contains("market") };
    let mut v = vec![
        rc("balances", &[BAL[0], BAL[1]], None, 2),
        sp("market-data/4-items", &[L1[0], L1[1], TRD[0], TRD[1]], None, 2),
        sp("orders+balance", &[ORD[0], ORD[1], BAL[0]], None, 2),
        sp("one-exchange-mixed", &[BAL[1], ORD[1], L1[1], TRD[1]], None, 2),
        // top of book with a third value: a one-sided book
        // (quick: the two books alone; their interplay with the last trade at four values runs through the
        // engine-process market models below and, in the thorough tier, in the three-item model)
        sp("top-of-book-one-sided-or-empty/two-books", &[L1[0], L1[1]], None, 4),
        // the engine's own entry point (Engine::process), trading disabled and enabled
        // (items are independent in the code; their interplay is covered by the models above, so the engine
        // wrapper is driven with small item sets: every item kind under both trading states)
        rc("engine-process/trading=disabled/account-items", &[BAL[0], ORD[0]], Some(TradingState::Disabled), 2),
        rc("engine-process/trading=disabled/market-items", &[L1[0], TRD[0]], Some(TradingState::Disabled), 4),
        rc("engine-process/trading=enabled/account-items", &[BAL[1], ORD[1]], Some(TradingState::Enabled), 2),
        rc("engine-process/trading=enabled/market-items", &[L1[1], TRD[1]], Some(TradingState::Enabled), 4),
        // several items of one kind behind one container / in one full snapshot (exchange 0)
        rc("two-balances-of-one-exchange", &[BAL[0], BAL2], None, 2),
        sp("two-orders-of-one-instrument", &[ORD[0], ORD2], None, 2),
    ];
    if tier == crate::core::Tier::Thorough {
        v.push(sp("top-of-book-one-sided-or-empty", &[L1[0], L1[1], TRD[0]], None, 4));
        v.push(sp("account-items/4", &[BAL[0], BAL[1], ORD[0], ORD[1]], None, 2));
        v.push(sp("exchange-0-account/two-balances+order", &[BAL[0], BAL2, ORD[0]], None, 2));
        v.push(rc("engine-process/trading=enabled/two-orders+balance", &[BAL[0], ORD[0], ORD2], Some(TradingState::Enabled), 2));
        // (second round: four items instead of five - the five-item product took 3/4 of the thorough budget; two
        // orders of two exchanges together are in "account-items/4")
        v.push(sp("cross-exchange-mixed/4", &[BAL[0], ORD[0], L1[0], TRD[1]], None, 2));
        v.push(sp("engine-process/trading=disabled/exchange-0-mixed", &[BAL[0], ORD[0], L1[0], TRD[0]], Some(TradingState::Disabled), 2));
        v.push(sp("engine-process/trading=enabled/cross-exchange", &[BAL[1], ORD[0], L1[1], TRD[0]], Some(TradingState::Enabled), 3));
    }
    v
}

fn model(sp: &Spec) -> M {
    let mut m = M::new(&sp.active);
    m.l1_values = sp.l1_values;
    m.reconnects = sp.reconnects;
    m.other_kinds = sp.other_kinds;
    match sp.via {
        None => m,
        Some(t) => m.via_engine(t),
    }
}

pub fn run(ctx: &Ctx) -> Outcome {
    let (mut states, mut transitions, mut max_depth, mut impl_states) = (0usize, 0u64, 0usize, 0usize);
    let mut parts = Vec::new();
    let mut samples = Vec::new();
    for sp in models(ctx.tier) {
        let (label, active, via) = (sp.label.to_string(), sp.active.clone(), sp.via);
        let m = model(&sp);
        let st = bfs::run(ctx, &m, &label, None, 30_000_000);
        if !st.fixpoint {
            eprintln!("MACHINERY: C09 BFS {label} did not reach its fixpoint");
            std::process::exit(2);
        }
        states += st.states;
        transitions += st.transitions;
        max_depth = max_depth.max(st.max_depth);
        impl_states += st.distinct_impl_states;
        parts.push(json!({"model": label, "entry_point": if via.is_some() { "Engine::process" } else { "EngineState::update_from_account / update_from_market" }, "active_items": active, "top_of_book_values": sp.l1_values, "reconnecting_notices_and_healthy_start": sp.reconnects, "liquidations_and_candles_offered": sp.other_kinds, "states": st.states, "transitions": st.transitions, "max_depth": st.max_depth,
            "distinct_impl_states": st.distinct_impl_states, "steps_with_oracle_violation": st.oracle_violation_steps}));
        samples.extend(st.samples);
    }
    Outcome {
        level: "model_checking",
        coverage: json!({
            "states": states,
            "transitions": transitions,
            "traces_validated_against_impl": transitions,
            "max_depth": max_depth,
            "fixpoint_reached": true,
            "exhaustive": true,
            "distinct_impl_states": impl_states,
            "models": parts,
            "samples": samples,
            "rule": "BFS to fixpoint; items: 0,1 balances (one per exchange), 8 a second balance of exchange 0; 2,3 orders (one per exchange), 9 a second order on the instrument of order 2; 4,5 top of book; 6,7 last trade; the link health flags of the engine state ride in the state (reconnect models: Reconnecting notices as actions, start from just-started and all-healthy); 'market' models also offer liquidation and candle events (must change nothing, or act as a trade message); full account snapshots name one or two account items of an exchange (two of one kind in both orders of appearance); messages (item, t in 1..3, value in 2; top of book: up to 4 values, the third a one-sided book, the fourth an empty book) + full account snapshots + cancel-sent, all offered in every state; each transition rebuilds the real EngineState and applies the message through update_from_account / update_from_market, or (engine-process models) rebuilds a real Engine around that state and applies it through Engine::process",
        }),
        assumptions: vec![
            "L1 events carry last_update_time == time_exchange (as every connector builds them)".into(),
            "order reports keep quantity remaining > 0 (terminal reports belong to C01)".into(),
            "three exchange instants (+1 s, +1 s + 1 ns, +1 day + 0.5 s - the greatest instant has the smallest time of day), two values per item (up to four for top of book: two two-sided, one one-sided, one empty)".into(),
        ],
    }
}

pub fn replay(ctx: &Ctx, case: &Value) {
    let label = case["label"].as_str().unwrap_or("");
    for sp in models(crate::core::Tier::Thorough) {
        if sp.label == label {
            let m = model(&sp);
            for (sig, detail) in bfs::replay(&m, case) {
                ctx.violate(sig, detail, case.clone());
            }
            return;
        }
    }
    eprintln!("MACHINERY: unknown model label {label}");
    std::process::exit(2);
}
