//! C09 — Late or duplicate exchange messages never roll engine state back.
//!
//! E-BFS to **fixpoint** through the real `EngineState::update_from_account` / `update_from_market`
//! on a 2-exchange, 2-instrument, 4-asset engine state. Items: two balances (one per exchange), two
//! open orders (one per instrument), top of book and last traded price of both instruments.
//! Messages: (item, exchange time t in {1,2,3}, value in {v,v'}), each deliverable any number of times
//! in any order; full account snapshots carrying a balance and/or an order report of one exchange;
//! `CancelSent` on an order (so held order data is also checked while a cancel is in flight).
//!
//! Value classes chosen so that coarse comparisons cannot hide: the three exchange instants are +1 s,
//! +1 s + 1 µs and +2.5 s (a guard comparing whole seconds or milliseconds sees the first two as equal);
//! a top of book may be one-sided (third value of the L1 items); the two instruments used have indices 1
//! and 2 (an unused instrument sorts first on exchange 0) so instrument index != exchange index.
//!
//! Entry points: `EngineState::update_from_account / update_from_market` (all models) and, for the
//! "engine-process" models, the engine's own entry point `Engine::process` with
//! `EngineEvent::Account(Item) / Market(Item)`, with trading disabled and enabled.
//!
//! Monitor (rides in the state): per item the greatest timestamp delivered so far and the set of
//! values delivered with it. Invariant after every step (the statement): the held timestamp equals
//! that maximum and the held value is one delivered with it (so first-wins and last-wins at equal
//! timestamps both pass); items not named by a message are bit-identical.

use super::common::*;
use crate::core::{Ctx, Outcome, hash_of};
use crate::explore::bfs::{self, Model, Viol};
use barter::{
    EngineEvent, Timed,
    engine::Processor,
    execution::AccountStreamEvent,
    engine::state::{
        global::DefaultGlobalData, instrument::data::DefaultInstrumentMarketData,
        order::in_flight_recorder::InFlightRequestRecorder, trading::TradingState,
    },
};
use barter_data::{
    books::Level,
    event::{DataKind, MarketEvent},
    streams::consumer::MarketStreamEvent,
    subscription::{book::OrderBookL1, trade::PublicTrade},
};
use barter_execution::{
    AccountEvent, AccountEventKind, AccountSnapshot, InstrumentAccountSnapshot,
    balance::{AssetBalance, Balance},
    order::{
        Order, OrderKey, OrderKind, TimeInForce,
        id::{ClientOrderId, OrderId},
        request::{OrderRequestCancel, RequestCancel},
        state::{ActiveOrderState, CancelInFlight, Open, OrderState},
    },
};
use barter_instrument::{
    Side,
    asset::{AssetIndex, name::AssetNameInternal},
    exchange::ExchangeIndex,
    index::IndexedInstruments,
    instrument::InstrumentIndex,
};
use barter_integration::snapshot::Snapshot;
use rust_decimal::Decimal;
use serde::{Deserialize, Serialize};
use serde_json::{Value, json};

// item ids
const BAL: [usize; 2] = [0, 1];
const ORD: [usize; 2] = [2, 3];
const L1: [usize; 2] = [4, 5];
const TRD: [usize; 2] = [6, 7];
const N_ITEMS: usize = 8;


/// exchange instant of time index t in {1,2,3}: +1 s, +1 s + 1 µs, +2.5 s
fn time_of(t: u8) -> chrono::DateTime<chrono::Utc> {
    match t {
        1 => t_plus(1),
        2 => t_plus(1) + chrono::TimeDelta::microseconds(1),
        3 => t_plus_ms(2500),
        _ => unreachable!("time index"),
    }
}
/// inverse of `time_of` (250 = not an instant of the alphabet)
fn time_index(d: chrono::DateTime<chrono::Utc>) -> u8 {
    (1..=3u8).find(|t| time_of(*t) == d).unwrap_or(250)
}

/// instrument of item group w (exchange w): indices 1 and 2
fn inst(w: usize) -> InstrumentIndex {
    InstrumentIndex(w + 1)
}

fn item_kind(i: usize) -> &'static str {
    match i {
        0 | 1 => "balance",
        2 | 3 => "order",
        4 | 5 => "top-of-book",
        _ => "last-trade",
    }
}

#[derive(Debug, Clone, Copy, PartialEq, Eq, Hash, Default)]
pub struct ItemSt {
    /// what the implementation holds: (t, value index)
    held: Option<(u8, u8)>,
    /// monitor: greatest timestamp delivered, and bitmask of values delivered with it
    max_t: u8,
    mask: u8,
    /// order items only: a cancel is in flight
    cancelling: bool,
}

#[derive(Debug, Clone, PartialEq, Eq, Hash)]
pub struct St(Vec<ItemSt>);

#[derive(Debug, Clone, PartialEq, Eq, Hash, Serialize, Deserialize)]
pub enum Act {
    /// deliver one message (item, t, value)
    Msg(usize, u8, u8),
    /// full account snapshot of the exchange of these items
    Full(Vec<(usize, u8, u8)>),
    CancelSent(usize),
}

pub struct M {
    /// Some(trading state): deliver through `Engine::process`; None: through `EngineState::update_from_*`
    via_engine: Option<TradingState>,
    /// values offered for top-of-book items: 2 (two-sided books) or 3 (plus a one-sided book)
    l1_values: u8,
    active: Vec<usize>,
    instruments: IndexedInstruments,
    bal_assets: [AssetIndex; 2],
}

impl M {
    pub fn new(active: &[usize]) -> Self {
        let instruments = IndexedInstruments::builder()
            .add_instrument(spot(EXCHANGES[0], "x0_aaa_usdt", "AAAUSDT", "aaa", "usdt"))
            .add_instrument(spot(EXCHANGES[0], "x0_btc_usdt", "BTCUSDT", "btc", "usdt"))
            .add_instrument(spot(EXCHANGES[1], "x1_eth_usdt", "ETH/USDT", "eth", "usdt"))
            .build();
        let a0 = instruments.find_asset_index(EXCHANGES[0], &AssetNameInternal::new("usdt")).unwrap();
        let a1 = instruments.find_asset_index(EXCHANGES[1], &AssetNameInternal::new("usdt")).unwrap();
        for (w, name) in ["x0_btc_usdt", "x1_eth_usdt"].iter().enumerate() {
            assert_eq!(instruments.instruments()[inst(w).0].value.name_internal.name().as_str(), *name, "harness: instrument order");
        }
        Self { via_engine: None, l1_values: 2, active: active.to_vec(), instruments, bal_assets: [a0, a1] }
    }

    /// number of distinct values offered for an item
    fn n_values(&self, i: usize) -> u8 {
        if L1.contains(&i) { self.l1_values } else { 2 }
    }

    pub fn via_engine(mut self, trading: TradingState) -> Self {
        self.via_engine = Some(trading);
        self
    }

    fn order_key(&self, which: usize) -> OrderKey {
        OrderKey {
            exchange: ExchangeIndex(which),
            instrument: inst(which),
            strategy: strategy_id(),
            cid: ClientOrderId::new(format!("c{which}")),
        }
    }
    fn open(&self, which: usize, t: u8, v: u8) -> Open {
        Open { id: OrderId::new(format!("o{which}")), time_exchange: time_of(t), filled_quantity: Decimal::from(v) }
    }
    fn order_with<S>(&self, which: usize, state: S) -> Order<ExchangeIndex, InstrumentIndex, S> {
        Order {
            key: self.order_key(which),
            side: Side::Buy,
            price: Decimal::from(100),
            quantity: Decimal::from(2),
            kind: OrderKind::Limit,
            time_in_force: TimeInForce::GoodUntilCancelled { post_only: false },
            state,
        }
    }
    fn balance(v: u8) -> Balance {
        Balance::new(Decimal::from(10 + v as i64), Decimal::from(10 + v as i64))
    }
    fn l1(t: u8, v: u8) -> OrderBookL1 {
        OrderBookL1 {
            last_update_time: time_of(t),
            // value 2: a one-sided book (no ask); value 3: an empty book (a cleared book / halted market
            // is a real, timestamped message: it too must not be overwritten by an older quote)
            best_bid: (v < 3).then(|| Level::new(Decimal::from(100 + v as i64), Decimal::ONE)),
            best_ask: (v < 2).then(|| Level::new(Decimal::from(102 + v as i64), Decimal::ONE)),
        }
    }

    fn build(&self, s: &St) -> EState {
        let mut state: EState = barter::engine::state::EngineState::builder(
            &self.instruments,
            DefaultGlobalData,
            DefaultInstrumentMarketData::default,
        )
        .time_engine_start(t0())
        .trading_state(TradingState::Disabled)
        .build();
        for w in 0..2 {
            if let Some((t, v)) = s.0[BAL[w]].held {
                state.assets.asset_index_mut(&self.bal_assets[w]).balance = Some(Timed::new(Self::balance(v), time_of(t)));
            }
            let it = s.0[ORD[w]];
            if let Some((t, v)) = it.held {
                let st = if it.cancelling {
                    ActiveOrderState::CancelInFlight(CancelInFlight { order: Some(self.open(w, t, v)) })
                } else {
                    ActiveOrderState::Open(self.open(w, t, v))
                };
                state.instruments.instrument_index_mut(&inst(w)).orders.0.insert(self.order_key(w).cid, self.order_with(w, st));
            }
            if it.held.is_none() && it.cancelling {
                // only reachable after a violation: cancel in flight without confirmed open data
                let st = ActiveOrderState::CancelInFlight(CancelInFlight { order: None });
                state.instruments.instrument_index_mut(&inst(w)).orders.0.insert(self.order_key(w).cid, self.order_with(w, st));
            }
            if let Some((t, v)) = s.0[L1[w]].held {
                state.instruments.instrument_index_mut(&inst(w)).data.l1 = Self::l1(t, v);
            }
            if let Some((t, v)) = s.0[TRD[w]].held {
                state.instruments.instrument_index_mut(&inst(w)).data.last_traded_price =
                    Some(Timed::new(Decimal::from(100 + v as i64), time_of(t)));
            }
        }
        state
    }

    /// read what the implementation holds for every item: (held, cancelling, readable)
    fn read(&self, state: &EState) -> Vec<(Option<(u8, u8)>, bool, bool)> {
        let tt = time_index;
        let mut out = vec![(None, false, true); N_ITEMS];
        for w in 0..2 {
            if let Some(b) = &state.assets.asset_index(&self.bal_assets[w]).balance {
                let v = (0..2u8).find(|v| Self::balance(*v) == b.value);
                out[BAL[w]] = (Some((tt(b.time), v.unwrap_or(9))), false, v.is_some());
            }
            let inst = state.instruments.instrument_index(&inst(w));
            if let Some(o) = inst.orders.0.get(&self.order_key(w).cid) {
                let (open, cancelling) = match &o.state {
                    ActiveOrderState::Open(o) => (Some(o), false),
                    ActiveOrderState::CancelInFlight(c) => (c.order.as_ref(), true),
                    ActiveOrderState::OpenInFlight(_) => (None, false),
                };
                match open {
                    Some(op) => {
                        let v: u8 = op.filled_quantity.try_into().unwrap_or(9);
                        out[ORD[w]] = (Some((tt(op.time_exchange), v)), cancelling, v < 2);
                    }
                    // tracked without confirmed data: readable only as a cancel marker
                    None => out[ORD[w]] = (None, cancelling, cancelling),
                }
            }
            if inst.orders.0.len() > 1 || (inst.orders.0.len() == 1 && !inst.orders.0.contains_key(&self.order_key(w).cid)) {
                out[ORD[w]].2 = false;
            }
            let l1 = &inst.data.l1;
            if *l1 != OrderBookL1::default() {
                let t = tt(l1.last_update_time);
                let v = (0..4u8).find(|v| t <= 3 && Self::l1(t, *v) == *l1);
                out[L1[w]] = (Some((t, v.unwrap_or(9))), false, v.is_some());
            }
            if let Some(p) = &inst.data.last_traded_price {
                let v = (0..2u8).find(|v| Decimal::from(100 + *v as i64) == p.value);
                out[TRD[w]] = (Some((tt(p.time), v.unwrap_or(9))), false, v.is_some());
            }
        }
        out
    }

    fn deliver(&self, sink: &mut Sink, item: usize, t: u8, v: u8) {
        let w = item % 2;
        match item {
            0 | 1 => sink.account(AccountEvent {
                exchange: ExchangeIndex(w),
                kind: AccountEventKind::BalanceSnapshot(Snapshot(AssetBalance {
                    asset: self.bal_assets[w],
                    balance: Self::balance(v),
                    time_exchange: time_of(t),
                })),
            }),
            2 | 3 => {
                let o: Order<ExchangeIndex, InstrumentIndex, OrderState<AssetIndex, InstrumentIndex>> =
                    self.order_with(w, OrderState::active(self.open(w, t, v)));
                sink.account(AccountEvent { exchange: ExchangeIndex(w), kind: AccountEventKind::OrderSnapshot(Snapshot(o)) });
            }
            4 | 5 => sink.market(MarketEvent {
                time_exchange: time_of(t),
                time_received: t_plus(10),
                exchange: EXCHANGES[w],
                instrument: inst(w),
                kind: DataKind::OrderBookL1(Self::l1(t, v)),
            }),
            _ => sink.market(MarketEvent {
                time_exchange: time_of(t),
                time_received: t_plus(10),
                exchange: EXCHANGES[w],
                instrument: inst(w),
                kind: DataKind::Trade(PublicTrade { id: "x".into(), price: 100.0 + v as f64, amount: 1.0, side: Side::Buy }),
            }),
        }
    }
}

/// Where messages are delivered: the engine state's update methods, or the engine's own entry point.
enum Sink {
    State(Box<EState>),
    Engine(Box<SEngine>),
}
impl Sink {
    fn account(&mut self, ev: AccountEvent) {
        match self {
            Sink::State(s) => {
                let _ = s.update_from_account(&ev);
            }
            Sink::Engine(e) => {
                let _ = e.process(EngineEvent::Account(AccountStreamEvent::Item(ev)));
            }
        }
    }
    fn market(&mut self, ev: MarketEvent<InstrumentIndex, DataKind>) {
        match self {
            Sink::State(s) => s.update_from_market(&ev),
            Sink::Engine(e) => {
                let _ = e.process(EngineEvent::Market(MarketStreamEvent::Item(ev)));
            }
        }
    }
    fn state(&self) -> &EState {
        match self {
            Sink::State(s) => s,
            Sink::Engine(e) => &e.state,
        }
    }
    fn state_mut(&mut self) -> &mut EState {
        match self {
            Sink::State(s) => s,
            Sink::Engine(e) => &mut e.state,
        }
    }
}

impl Model for M {
    type State = St;
    type Action = Act;

    fn init(&self) -> Vec<St> {
        vec![St(vec![ItemSt::default(); N_ITEMS])]
    }

    fn actions(&self, s: &St) -> Vec<Act> {
        let mut v = Vec::new();
        for &i in &self.active {
            for t in 1..=3u8 {
                for val in 0..self.n_values(i) {
                    v.push(Act::Msg(i, t, val));
                }
            }
            // offered in every state: a cancel request may be re-sent while one is in flight
            if ORD.contains(&i) {
                v.push(Act::CancelSent(i));
            }
        }
        // full snapshots: per exchange w, any (balance?, order?) combination with one (t,v) each
        for w in 0..2 {
            let b = BAL[w];
            let o = ORD[w];
            let ba = self.active.contains(&b);
            let oa = self.active.contains(&o);
            let tv: Vec<(u8, u8)> = (1..=3u8).flat_map(|t| (0..2u8).map(move |v| (t, v))).collect();
            if ba {
                for &(t, val) in &tv {
                    v.push(Act::Full(vec![(b, t, val)]));
                }
            }
            if oa {
                for &(t, val) in &tv {
                    v.push(Act::Full(vec![(o, t, val)]));
                }
            }
            if ba && oa {
                for &(t1, v1) in &tv {
                    for &(t2, v2) in &tv {
                        v.push(Act::Full(vec![(b, t1, v1), (o, t2, v2)]));
                    }
                }
            }
        }
        v
    }

    fn step(&self, s: &St, a: &Act, out: &mut Vec<Viol>) -> Option<St> {
        let state = self.build(s);
        let mut sink = match self.via_engine {
            None => Sink::State(Box::new(state)),
            Some(trading) => {
                let (mut engine, _) = build_engine(&self.instruments, trading, &[]);
                engine.state = EState { trading, ..state };
                Sink::Engine(Box::new(engine))
            }
        };
        let applied = crate::core::guarded(|| self.apply(&mut sink, a));
        let Ok(msgs) = applied else {
            out.push(("C09/panic/update".to_string(), format!("action={a:?}: the code under test panicked")));
            return None;
        };
        self.judge(s, a, sink.state(), msgs, out)
    }

    fn impl_hash(&self, s: &St) -> Option<u64> {
        let v: Vec<_> = s.0.iter().map(|i| (i.held, i.cancelling)).collect();
        Some(hash_of(&v))
    }
}

impl M {
    fn apply(&self, state: &mut Sink, a: &Act) -> Vec<(usize, u8, u8)> {
        let msgs: Vec<(usize, u8, u8)> = match a {
            Act::Msg(i, t, v) => {
                self.deliver(state, *i, *t, *v);
                vec![(*i, *t, *v)]
            }
            Act::Full(items) => {
                let w = items[0].0 % 2;
                let mut balances = Vec::new();
                let mut instruments = Vec::new();
                for (i, t, v) in items {
                    if BAL.contains(i) {
                        balances.push(AssetBalance { asset: self.bal_assets[w], balance: Self::balance(*v), time_exchange: time_of(*t) });
                    } else {
                        instruments.push(InstrumentAccountSnapshot {
                            instrument: inst(w),
                            orders: vec![self.order_with(w, OrderState::active(self.open(w, *t, *v)))],
                        });
                    }
                }
                state.account(AccountEvent {
                    exchange: ExchangeIndex(w),
                    kind: AccountEventKind::Snapshot(AccountSnapshot { exchange: ExchangeIndex(w), balances, instruments }),
                });
                items.clone()
            }
            Act::CancelSent(i) => {
                let w = i % 2;
                state.state_mut().record_in_flight_cancel(&OrderRequestCancel { key: self.order_key(w), state: RequestCancel { id: None } });
                vec![]
            }
        };
        msgs
    }

    fn judge(&self, s: &St, a: &Act, state: &EState, msgs: Vec<(usize, u8, u8)>, out: &mut Vec<Viol>) -> Option<St> {
        let via = match a {
            Act::Msg(..) => "single",
            Act::Full(_) => "full-snapshot",
            Act::CancelSent(_) => "cancel-sent",
        };
        let got = self.read(state);
        let mut next = s.0.clone();
        for i in 0..N_ITEMS {
            let before = s.0[i];
            let (held, cancelling, readable) = got[i];
            let kind = item_kind(i);
            if !readable {
                out.push((format!("C09/{kind}/{via}/held-value-not-a-delivered-value"), format!("item={i} action={a:?} held={held:?}")));
                return None;
            }
            match msgs.iter().find(|(mi, _, _)| *mi == i) {
                Some(&(_, t, v)) => {
                    // monitor update
                    let (max_t, mask) = if t > before.max_t {
                        (t, 1u8 << v)
                    } else if t == before.max_t {
                        (before.max_t, before.mask | (1 << v))
                    } else {
                        (before.max_t, before.mask)
                    };
                    let rel = if t > before.max_t { "newer" } else if t == before.max_t { "equal-time" } else { "older" };
                    let ok = matches!(held, Some((ht, hv)) if ht == max_t && (mask >> hv) & 1 == 1);
                    if !ok {
                        let what = match held {
                            None => "nothing-held",
                            Some((ht, _)) if ht < max_t => "holds-older-timestamp",
                            Some((ht, _)) if ht > max_t => "holds-timestamp-never-delivered",
                            Some(_) => "value-not-delivered-with-held-timestamp",
                        };
                        out.push((
                            format!("C09/{kind}/{via}/message-{rel}-than-held/{what}"),
                            format!("item={i} before(held={:?},max_t={},mask={:#b}) message=(t={t},v={v}) after held={held:?}; expected t={max_t} with a value in mask {mask:#b}", before.held, before.max_t, before.mask),
                        ));
                        // re-synchronise the monitor with the implementation
                        next[i] = match held {
                            Some((ht, hv)) => ItemSt { held, max_t: ht, mask: 1 << hv, cancelling },
                            None => ItemSt { held: None, max_t: 0, mask: 0, cancelling },
                        };
                    } else {
                        next[i] = ItemSt { held, max_t, mask, cancelling };
                    }
                    if cancelling != before.cancelling {
                        out.push((format!("C09/{kind}/{via}/cancel-marker-changed-by-report"), format!("item={i} action={a:?}")));
                    }
                }
                None => {
                    let want_cancelling = match a {
                        Act::CancelSent(ci) if *ci == i => before.held.is_some() || before.cancelling,
                        _ => before.cancelling,
                    };
                    if held != before.held {
                        out.push((
                            format!("C09/{kind}/{via}/item-not-named-by-message-changed"),
                            format!("item={i} action={a:?} before={:?} after={held:?}", before.held),
                        ));
                        next[i] = match held {
                            Some((ht, hv)) => ItemSt { held, max_t: ht, mask: 1 << hv, cancelling },
                            None => ItemSt { held: None, max_t: 0, mask: 0, cancelling },
                        };
                    } else {
                        next[i] = ItemSt { cancelling, ..before };
                    }
                    if cancelling != want_cancelling {
                        out.push((format!("C09/{kind}/{via}/cancel-marker-unexpected"), format!("item={i} action={a:?} cancelling={cancelling} expected={want_cancelling}")));
                    }
                }
            }
        }
        Some(St(next))
    }
}

struct Spec {
    label: &'static str,
    active: Vec<usize>,
    via: Option<TradingState>,
    l1_values: u8,
}

fn models(tier: crate::core::Tier) -> Vec<Spec> {
    let sp = |label, active: &[usize], via, l1_values| Spec { label, active: active.to_vec(), via, l1_values };
    let mut v = vec![
        sp("balances", &[BAL[0], BAL[1]], None, 2),
        sp("market-data/4-items", &[L1[0], L1[1], TRD[0], TRD[1]], None, 2),
        sp("orders+balance", &[ORD[0], ORD[1], BAL[0]], None, 2),
        sp("one-exchange-mixed", &[BAL[1], ORD[1], L1[1], TRD[1]], None, 2),
        // top of book with a third value: a one-sided book
        sp("top-of-book-one-sided-or-empty", &[L1[0], L1[1], TRD[0]], None, 4),
        // the engine's own entry point (Engine::process), trading disabled and enabled
        // (items are independent in the code; their interplay is covered by the models above, so the engine
        // wrapper is driven with small item sets: every item kind under both trading states)
        sp("engine-process/trading=disabled/account-items", &[BAL[0], ORD[0]], Some(TradingState::Disabled), 2),
        sp("engine-process/trading=disabled/market-items", &[L1[0], TRD[0]], Some(TradingState::Disabled), 4),
        sp("engine-process/trading=enabled/account-items", &[BAL[1], ORD[1]], Some(TradingState::Enabled), 2),
        sp("engine-process/trading=enabled/market-items", &[L1[1], TRD[1]], Some(TradingState::Enabled), 4),
    ];
    if tier == crate::core::Tier::Thorough {
        v.push(sp("account-items/4", &[BAL[0], BAL[1], ORD[0], ORD[1]], None, 2));
        v.push(sp("cross-exchange-mixed/5", &[BAL[0], ORD[0], L1[0], TRD[1], ORD[1]], None, 2));
        v.push(sp("engine-process/trading=disabled/exchange-0-mixed", &[BAL[0], ORD[0], L1[0], TRD[0]], Some(TradingState::Disabled), 2));
        v.push(sp("engine-process/trading=enabled/cross-exchange", &[BAL[1], ORD[0], L1[1], TRD[0]], Some(TradingState::Enabled), 3));
    }
    v
}

fn model(sp: &Spec) -> M {
    let mut m = M::new(&sp.active);
    m.l1_values = sp.l1_values;
    match sp.via {
        None => m,
        Some(t) => m.via_engine(t),
    }
}

pub fn run(ctx: &Ctx) -> Outcome {
    let (mut states, mut transitions, mut max_depth, mut impl_states) = (0usize, 0u64, 0usize, 0usize);
    let mut parts = Vec::new();
    let mut samples = Vec::new();
    for sp in models(ctx.tier) {
        let (label, active, via) = (sp.label.to_string(), sp.active.clone(), sp.via);
        let m = model(&sp);
        let st = bfs::run(ctx, &m, &label, None, 30_000_000);
        if !st.fixpoint {
            eprintln!("MACHINERY: C09 BFS {label} did not reach its fixpoint");
            std::process::exit(2);
        }
        states += st.states;
        transitions += st.transitions;
        max_depth = max_depth.max(st.max_depth);
        impl_states += st.distinct_impl_states;
        parts.push(json!({"model": label, "entry_point": if via.is_some() { "Engine::process" } else { "EngineState::update_from_account / update_from_market" }, "active_items": active, "top_of_book_values": sp.l1_values, "states": st.states, "transitions": st.transitions, "max_depth": st.max_depth,
            "distinct_impl_states": st.distinct_impl_states, "steps_with_oracle_violation": st.oracle_violation_steps}));
        samples.extend(st.samples);
    }
    Outcome {
        level: "model_checking",
        coverage: json!({
            "states": states,
            "transitions": transitions,
            "traces_validated_against_impl": transitions,
            "max_depth": max_depth,
            "fixpoint_reached": true,
            "exhaustive": true,
            "distinct_impl_states": impl_states,
            "models": parts,
            "samples": samples,
            "rule": "BFS to fixpoint; items: 0,1 balances; 2,3 orders; 4,5 top of book; 6,7 last trade; messages (item, t in 1..3, value in 2; top of book: up to 4 values, the third a one-sided book, the fourth an empty book) + full account snapshots + cancel-sent, all offered in every state; each transition rebuilds the real EngineState and applies the message through update_from_account / update_from_market, or (engine-process models) rebuilds a real Engine around that state and applies it through Engine::process",
        }),
        assumptions: vec![
            "L1 events carry last_update_time == time_exchange (as every connector builds them)".into(),
            "order reports keep quantity remaining > 0 (terminal reports belong to C01)".into(),
            "three exchange instants (+1 s, +1 s + 1 us, +2.5 s), two values per item (up to four for top of book: two two-sided, one one-sided, one empty)".into(),
        ],
    }
}

pub fn replay(ctx: &Ctx, case: &Value) {
    let label = case["label"].as_str().unwrap_or("");
    for sp in models(crate::core::Tier::Thorough) {
        if sp.label == label {
            let m = model(&sp);
            for (sig, detail) in bfs::replay(&m, case) {
                ctx.violate(sig, detail, case.clone());
            }
            return;
        }
    }
    eprintln!("MACHINERY: unknown model label {label}");
    std::process::exit(2);
}
