//! C12 — Reconnecting streams deliver every item once, in order, with one notice per drop.
//!
//! Three exhaustive layers, every one of them driving the REAL code:
//!
//! 1. **reconnect** (E-ENV): the real composition
//!    `init_reconnecting_stream(script_init).await? .with_reconnect_backoff(policy, key)
//!    .with_termination_on_error(is_terminal, key) .with_reconnection_events(origin)`
//!    (+ `with_error_handler`, + `forward_to`) is polled by hand on a paused current-thread tokio runtime;
//!    the harness owns the waker; whenever the subject is quiescent the paused clock jumps to the next timer
//!    deadline (of the subject's backoff sleep or of the scripted latencies), never further; every output, every
//!    call of the init closure and every completion of an init attempt is stamped with the virtual
//!    `tokio::time::Instant`. Enumerated: ALL connection scripts (attempt = `Fail` | `Ok(sigma)`, sigma a word
//!    over {I item, R recoverable error, T terminal error} followed by end-of-stream) up to the tier's bounds
//!    x backoff policies x timings (init latency, inner-stream pacing) x observation modes. After the script
//!    every further attempt fails and `extra` of them are observed (growth, cap and "never ends").
//! 2. **merge**: all interleavings (<= depth steps) of {poll, push L, push R, close L, close R} against
//!    `barter_integration::stream::merge::merge` over two real `mpsc_unbounded` receivers.
//! 3. **forward_to**: all interleavings of {poll, push, close source, drop receiver} against
//!    `ReconnectingStream::forward_to` into the real `UnboundedTx` and into a scripted `Tx` that starts
//!    failing at the f-th send.
//!
//! Added by the hardening rounds: (a) `Mode::Market` - barter-data's own consumer composition, the real
//! `init_market_stream(policy, subscriptions)`, driven through a scripted `Connector` / `MarketStream`
//! (`ScriptVenue`): the configured policy must be the one that governs the waits, the termination predicate is
//! `DataError::is_terminal`, the notice carries the connector's `ExchangeId`; (b) long runs - 70..1100 consecutive
//! failures (also with the default policy (125,x2,60000) and one beyond 65 s), hundreds of connections, one
//! connection of thousands of symbols; (c) merge / forward_to: a consumer that was told `Pending` must be woken
//! when an item arrives or an input ends (otherwise the item never reaches anybody awaiting the stream).
//!
//! Second hardening round - further compositions of the same combinators that the repository itself builds
//! (`Mode::Account`, `Mode::Builder`, `Mode::MultiBuilder`): (d) barter's account stream, the real
//! `ExecutionManager::init(.., client, indexer, policy)` over a scripted `ExecutionClient` - attempts are
//! `account_stream` + `account_snapshot` (either may fail), a connection is the snapshot followed by the updates,
//! merged with the manager's response channel; the policy handed to `init` must govern the waits; (e) barter-data's
//! public entry `Streams::builder().subscribe(..).init()` (and the same builder inside `Streams::builder_multi()`):
//! validate / de-duplicate, `init_market_stream` with the crate's constant policy, a spawned `forward_to` into the
//! exchange channel, observed at `Streams::select_all()` - with and without a second `subscribe` call for the same
//! exchange (two connections feeding one exchange channel); (f) a policy whose waits exceed 2^32 ms.
//!
//! (g) layer 4: two arms of `DynamicStreams::init` (Binance spot / futures public trades) against a scripted venue on
//! loopback (real sockets; see `dynamic_exec`).
//!
//! The oracle is written from the statement (see `judge`, `merge_exec`, `forward_exec`); where the statement
//! is silent (is the terminal error itself passed on? how long after a dropped connection is the next attempt
//! made? are items of the *other* merge input that were ready when one input ended still delivered? does
//! `forward_to` stop after a failed send?) every behaviour is accepted (the last two are counted as
//! informational observations).

use crate::core::{Ctx, Distinct, Outcome, Samples, hash_of};
use crate::explore::{
    choice::{self, Chooser},
    env::{flag_waker, paused_rt},
};
use barter_data::{
    Identifier, MarketStream, NoInitialSnapshots, SnapshotFetcher,
    error::DataError,
    event::MarketEvent,
    exchange::{Connector, StreamSelector, subscription::ExchangeSub},
    instrument::InstrumentData,
    streams::{
        consumer::{MarketStreamResult, StreamKey, init_market_stream},
        reconnect::{
            Event,
            stream::{ReconnectingStream, ReconnectionBackoffPolicy, init_reconnecting_stream},
        },
    },
    subscriber::{WebSocketSubscriber, validator::WebSocketSubValidator},
    subscription::{
        Subscription,
        trade::{PublicTrade, PublicTrades},
    },
};
use barter::execution::{AccountStreamEvent, manager::ExecutionManager, request::ExecutionRequest};
use barter_data::streams::{Streams, consumer::STREAM_RECONNECTION_POLICY};
use barter_execution::{
    AccountEventKind, UnindexedAccountEvent, UnindexedAccountSnapshot,
    balance::{AssetBalance, Balance},
    client::ExecutionClient,
    error::{ConnectivityError, UnindexedClientError, UnindexedOrderError},
    indexer::AccountEventIndexer,
    map::generate_execution_instrument_map,
    order::{
        Order,
        request::{OrderRequestCancel, OrderRequestOpen, UnindexedOrderResponseCancel},
        state::Open,
    },
    trade::Trade,
};
use barter_instrument::{
    Side,
    asset::{QuoteAsset, name::AssetNameExchange},
    exchange::{ExchangeId, ExchangeIndex},
    index::IndexedInstruments,
    instrument::{InstrumentIndex, market_data::kind::MarketDataInstrumentKind, name::InstrumentNameExchange},
};
use barter_integration::snapshot::Snapshot;
use rust_decimal::{Decimal, prelude::ToPrimitive};
use barter_integration::{
    Unrecoverable, Validator,
    channel::{Tx, UnboundedTx, mpsc_unbounded},
    error::SocketError,
    protocol::websocket::WsMessage,
    stream::merge::merge,
};
use futures::{Stream, StreamExt};
use rayon::prelude::*;
use serde::{Deserialize, Serialize};
use serde_json::{Value, json};
use std::{
    future::Future,
    pin::Pin,
    sync::{
        Arc, Mutex,
        atomic::{AtomicBool, AtomicU64, Ordering},
    },
    task::{Context, Poll},
    time::Duration,
};
use tokio::time::Instant;

const ORIGIN: u32 = 77;
/// ids: item / error number `pos` of connection (= attempt) `conn` is `conn * STRIDE + pos`; the ids pushed into
/// the side channel of `MergedPlain` start at `SIDE_BASE`.
const STRIDE: u32 = 10_000;
const SIDE_BASE: u32 = 4_000_000_000;
type Viol = (String, String);

// =====================================================================================================
// Layer 1: reconnecting stream
// =====================================================================================================

#[derive(Debug, Clone, Copy, PartialEq, Eq, Hash, Serialize, Deserialize)]
pub enum Mode {
    /// events observed directly; recoverable errors are passed through as `Event::Item(Err(_))`
    Pass,
    /// + `with_error_handler`: recoverable errors go to the handler and are filtered out
    Handler,
    /// + `with_error_handler` + `forward_to(real UnboundedTx)`, observed at the receiver
    ForwardChan,
    /// + `with_error_handler` + `forward_to(scripted Tx failing from send number fail_at on)`
    ForwardScript,
    /// the composition of `ExecutionManager::init`: no termination predicate (every error is an ordinary,
    /// non-terminal item), `with_reconnect_backoff` + `with_reconnection_events`, merged by
    /// `barter_integration::stream::merge::merge` with a channel stream the harness feeds every 4 virtual ms
    MergedPlain,
    /// barter-data's own consumer composition: the real `init_market_stream::<ScriptVenue, _, PublicTrades>(policy,
    /// subscriptions)` over a scripted `MarketStream` (see `ScriptVenue`); items are `MarketEvent`s, errors are
    /// `DataError`s (R = `DataError::Socket`, T = `DataError::InvalidSequence`), the termination predicate is
    /// whatever the consumer configures, the notice's origin is the connector's `ExchangeId`
    Market,
    /// barter's own account-stream composition: the real `ExecutionManager::init(requests, timeout, client, indexer,
    /// policy)` over a scripted `ExecutionClient` (`ScriptAcct`): every connection attempt is `account_stream` +
    /// `account_snapshot` (failing attempts fail in the one or the other), a connection is the account snapshot
    /// followed by the scripted balance updates (words over {I}: the account stream has no error items); the
    /// reconnecting stream is merged with the manager's response channel; the configured policy must govern the waits
    Account,
    /// the public entry of barter-data: `Streams::builder().subscribe([..]).init()` (validate, de-duplicate,
    /// `init_market_stream(STREAM_RECONNECTION_POLICY, ..)`, a spawned `forward_to` into the exchange channel),
    /// observed at `Streams::select_all()`; the policy is the crate's constant (125,x2,60000)
    Builder,
    /// the same builder added to `Streams::builder_multi()` (a second spawned `forward_to` hop per exchange)
    MultiBuilder,
}

/// Position (inside a connection's id space) of the account snapshot that starts every `Mode::Account` connection.
const SNAP_POS: usize = STRIDE as usize - 1;

/// One execution of layer 1 (this is also the replay artefact).
#[derive(Debug, Clone, PartialEq, Eq, Hash, Serialize, Deserialize)]
pub struct Case {
    pub layer: String,
    /// (backoff_ms_initial, backoff_multiplier, backoff_ms_max)
    pub policy: (u64, u8, u64),
    /// attempt k: `None` = init fails, `Some(word over I/R/T)` = init ok, stream yields the word then ends.
    /// Attempts beyond the script all fail.
    pub script: Vec<Option<String>>,
    /// virtual ms every init attempt takes
    pub lat: u64,
    /// virtual ms a connection stays `Pending` before every symbol and before its end
    pub pace: u64,
    pub mode: Mode,
    /// ForwardScript only: sends number >= fail_at fail
    pub fail_at: Option<usize>,
    /// number of failing attempts observed after the script
    pub extra: usize,
    /// Builder / MultiBuilder only: a second `subscribe` call for the same exchange runs the fixed `twin_script`
    /// over its own connection into the same exchange channel
    #[serde(default)]
    pub twin: bool,
}

/// The twin connection (instrument key 1) of the builder modes: one connection that yields an item every
/// `TWIN_PACE` virtual ms for longer than any observation lasts (so it contributes no notice and no error - those
/// name the exchange only and could not be told from the main connection's); its ids are shifted by `TWIN_BASE`.
const TWIN_BASE: u32 = 3_000_000_000;
const TWIN_PACE: u64 = 50;
fn twin_script() -> Vec<Option<String>> {
    vec![Some("I".repeat(STRIDE as usize - 2))]
}

/// The error type of the scripted connections.
#[derive(Debug, Clone, PartialEq, Eq, Hash)]
pub struct ErrK {
    id: u32,
    terminal: bool,
}

#[derive(Debug)]
pub struct InitErr(#[allow(dead_code)] usize);

/// Normalised observation of one output of the composed stream.
#[derive(Debug, Clone, PartialEq, Eq, Hash)]
pub enum Obs {
    Item(u32),
    Err(u32, bool),
    Notice(u32),
}

fn id_of(conn: usize, pos: usize) -> u32 {
    assert!(pos < STRIDE as usize && conn < (SIDE_BASE / STRIDE) as usize, "C12 id space");
    conn as u32 * STRIDE + pos as u32
}

#[derive(Debug, Clone, PartialEq, Eq, Hash)]
struct Call {
    start: u64,
    end: Option<u64>,
    ok: bool,
}

#[derive(Default)]
struct Log {
    calls: Vec<Call>,
    handled: Vec<ErrK>,
    sends: Vec<(u64, Obs, bool)>,
}

struct Shared {
    t0: Instant,
    log: Mutex<Log>,
    /// builder modes (the reconnecting stream runs in a spawned task, the harness only holds the channel receiver):
    /// the harness' waker, woken at the start of every connection attempt so that the environment loop notices
    /// that the script has been consumed
    poke: Mutex<Option<std::task::Waker>>,
}
impl Shared {
    fn now(&self) -> u64 {
        (Instant::now() - self.t0).as_millis() as u64
    }
}

/// A scripted connection: yields its word (I -> Ok(id), R/T -> Err) and then ends. It keeps yielding the
/// symbols that follow a terminal error if it is polled again, so an implementation that does not stop at the
/// terminal error is observable.
struct Conn {
    conn: usize,
    syms: Vec<u8>,
    pos: usize,
    pace: u64,
    sleep: Option<Pin<Box<tokio::time::Sleep>>>,
}

impl Stream for Conn {
    type Item = Result<u32, ErrK>;
    fn poll_next(mut self: Pin<&mut Self>, cx: &mut Context<'_>) -> Poll<Option<Self::Item>> {
        let me = &mut *self;
        if me.pos > me.syms.len() {
            return Poll::Ready(None);
        }
        if me.pace > 0 {
            let pace = me.pace;
            let s = me
                .sleep
                .get_or_insert_with(|| Box::pin(tokio::time::sleep(Duration::from_millis(pace))));
            match s.as_mut().poll(cx) {
                Poll::Pending => return Poll::Pending,
                Poll::Ready(()) => me.sleep = None,
            }
        }
        let p = me.pos;
        me.pos += 1;
        if p == me.syms.len() {
            return Poll::Ready(None);
        }
        let id = id_of(me.conn, p);
        Poll::Ready(Some(match me.syms[p] {
            b'I' => Ok(id),
            b'R' => Err(ErrK { id, terminal: false }),
            _ => Err(ErrK { id, terminal: true }),
        }))
    }
}

type InitFut = Pin<Box<dyn Future<Output = Result<Conn, InitErr>> + Send>>;

/// One scripted connection attempt: stamped when it STARTS (= when this function is called), takes `lat` virtual
/// ms, then succeeds with the scripted connection or fails.
fn attempt(script: &[Option<String>], lat: u64, pace: u64, sh: &Arc<Shared>) -> InitFut {
    let k = {
        let mut g = sh.log.lock().unwrap();
        let start = sh.now();
        g.calls.push(Call { start, end: None, ok: false });
        g.calls.len() - 1
    };
    if let Some(w) = sh.poke.lock().unwrap().as_ref() {
        w.wake_by_ref();
    }
    let entry: Option<String> = script.get(k).cloned().flatten();
    let sh = sh.clone();
    Box::pin(async move {
        if lat > 0 {
            tokio::time::sleep(Duration::from_millis(lat)).await;
        }
        {
            let mut g = sh.log.lock().unwrap();
            let now = sh.now();
            g.calls[k].end = Some(now);
            g.calls[k].ok = entry.is_some();
        }
        match entry {
            Some(word) => Ok(Conn { conn: k, syms: word.into_bytes(), pos: 0, pace, sleep: None }),
            None => Err(InitErr(k)),
        }
    })
}

fn make_init(case: &Case, sh: Arc<Shared>) -> impl Fn() -> InitFut + Send + 'static {
    let script = case.script.clone();
    let (lat, pace) = (case.lat, case.pace);
    move || attempt(&script, lat, pace, &sh)
}

// ---------------------------------------------------------------------------------------------------
// Mode::Market: a scripted venue behind barter-data's real `init_market_stream`
// ---------------------------------------------------------------------------------------------------

/// A `Connector` whose `MarketStream` is the scripted connection. Nothing of the WebSocket machinery is used:
/// `init_market_stream` only calls `<Exchange::Stream as MarketStream>::init(&subscriptions)`.
#[derive(Clone, Default, Debug, PartialEq, Eq, PartialOrd, Ord, Serialize, Deserialize)]
pub struct ScriptVenue;
#[derive(Clone, Debug)]
pub struct VStr(&'static str);
impl AsRef<str> for VStr {
    fn as_ref(&self) -> &str {
        self.0
    }
}
#[derive(Debug, Deserialize)]
pub struct VResp;
impl Validator for VResp {
    fn validate(self) -> Result<Self, SocketError> {
        Ok(self)
    }
}
impl Connector for ScriptVenue {
    const ID: ExchangeId = ExchangeId::Other;
    type Channel = VStr;
    type Market = VStr;
    type Subscriber = WebSocketSubscriber;
    type SubValidator = WebSocketSubValidator;
    type SubResponse = VResp;
    fn url() -> Result<url::Url, SocketError> {
        Err(SocketError::Subscribe("the scripted venue has no url".into()))
    }
    fn requests(_: Vec<ExchangeSub<VStr, VStr>>) -> Vec<WsMessage> {
        vec![]
    }
}
/// The subscribed "instrument" carries the script and the shared log to the static `MarketStream::init`.
#[derive(Clone)]
pub struct ScriptInst {
    sh: Arc<Shared>,
    script: Arc<Vec<Option<String>>>,
    lat: u64,
    pace: u64,
    key: u32,
    kind: MarketDataInstrumentKind,
}
impl std::fmt::Debug for ScriptInst {
    fn fmt(&self, f: &mut std::fmt::Formatter<'_>) -> std::fmt::Result {
        write!(f, "ScriptInst({})", self.key)
    }
}
impl std::fmt::Display for ScriptInst {
    fn fmt(&self, f: &mut std::fmt::Formatter<'_>) -> std::fmt::Result {
        write!(f, "script-{}", self.key)
    }
}
// (the builder sorts and de-duplicates subscriptions: instruments are compared by key)
impl PartialEq for ScriptInst {
    fn eq(&self, o: &Self) -> bool {
        self.key == o.key
    }
}
impl Eq for ScriptInst {}
impl PartialOrd for ScriptInst {
    fn partial_cmp(&self, o: &Self) -> Option<std::cmp::Ordering> {
        Some(self.cmp(o))
    }
}
impl Ord for ScriptInst {
    fn cmp(&self, o: &Self) -> std::cmp::Ordering {
        self.key.cmp(&o.key)
    }
}
impl InstrumentData for ScriptInst {
    type Key = u32;
    fn key(&self) -> &u32 {
        &self.key
    }
    fn kind(&self) -> &MarketDataInstrumentKind {
        &self.kind
    }
}
impl Identifier<VStr> for Subscription<ScriptVenue, ScriptInst, PublicTrades> {
    fn id(&self) -> VStr {
        VStr("script")
    }
}
/// How the symbols R / T are rendered as `DataError`s.
fn market_error(id: u32, t: bool) -> DataError {
    if t {
        DataError::InvalidSequence { prev_last_update_id: id as u64, first_update_id: 0 }
    } else {
        DataError::Socket(id.to_string())
    }
}
pub struct MarketConn(Conn, u32);
impl Stream for MarketConn {
    type Item = Result<MarketEvent<u32, PublicTrade>, DataError>;
    fn poll_next(mut self: Pin<&mut Self>, cx: &mut Context<'_>) -> Poll<Option<Self::Item>> {
        let key = self.1;
        Pin::new(&mut self.0).poll_next(cx).map(|o| {
            o.map(|r| match r {
                Ok(id) => Ok(MarketEvent {
                    time_exchange: chrono::DateTime::UNIX_EPOCH,
                    time_received: chrono::DateTime::UNIX_EPOCH,
                    exchange: ScriptVenue::ID,
                    instrument: key,
                    kind: PublicTrade { id: id.to_string(), price: 1.0, amount: 1.0, side: Side::Buy },
                }),
                Err(e) => Err(market_error(e.id, e.terminal)),
            })
        })
    }
}
#[async_trait::async_trait]
impl MarketStream<ScriptVenue, ScriptInst, PublicTrades> for MarketConn {
    async fn init<SnapFetcher>(subscriptions: &[Subscription<ScriptVenue, ScriptInst, PublicTrades>]) -> Result<Self, DataError>
    where
        SnapFetcher: SnapshotFetcher<ScriptVenue, PublicTrades>,
    {
        let i = &subscriptions[0].instrument;
        match attempt(&i.script, i.lat, i.pace, &i.sh).await {
            Ok(conn) => Ok(MarketConn(conn, i.key)),
            Err(_) => Err(DataError::Socket("scripted connection attempt failed".into())),
        }
    }
}
impl StreamSelector<ScriptInst, PublicTrades> for ScriptVenue {
    type SnapFetcher = NoInitialSnapshots;
    type Stream = MarketConn;
}
fn market_obs(e: MarketStreamResult<u32, PublicTrade>) -> Obs {
    match e {
        Event::Reconnecting(ex) => Obs::Notice(if ex == ScriptVenue::ID { ORIGIN } else { 0 }),
        Event::Item(Ok(ev)) => Obs::Item(ev.kind.id.parse().unwrap_or(u32::MAX)),
        Event::Item(Err(DataError::InvalidSequence { prev_last_update_id, .. })) => Obs::Err(prev_last_update_id as u32, true),
        Event::Item(Err(DataError::Socket(s))) => Obs::Err(s.parse().unwrap_or(u32::MAX), false),
        Event::Item(Err(_)) => Obs::Err(u32::MAX, false),
    }
}

// ---------------------------------------------------------------------------------------------------
// Mode::Account: a scripted `ExecutionClient` behind barter's real `ExecutionManager::init`
// ---------------------------------------------------------------------------------------------------

const ACCOUNT_EXCHANGE: ExchangeId = ExchangeId::BinanceSpot;

/// Attempt k consists of (at most) one call of `account_stream` and one call of `account_snapshot` - in either order
/// or concurrently: the statement says nothing about how an attempt is put together. A client call opens a new
/// attempt when there is none yet or when the current attempt has already seen a call of that method; the attempt
/// is stamped (like every other attempt) when it is opened. `account_stream` takes the scripted latency,
/// `account_snapshot` none. A failing attempt with odd k fails in `account_stream`, one with even k in
/// `account_snapshot` (the stream of such an attempt comes up and is never polled). The attempt's end stamp is the
/// instant its outcome is known: the failure of the failing call, else the later of the two completions. The
/// snapshot of attempt k carries k as its balance, the updates carry their item id.
#[derive(Clone)]
pub struct ScriptAcct {
    sh: Arc<Shared>,
    script: Arc<Vec<Option<String>>>,
    lat: u64,
    pace: u64,
    /// (account_stream called, account_snapshot called) in the current attempt
    seen: Arc<Mutex<(bool, bool)>>,
}
impl ScriptAcct {
    /// The attempt this client call belongs to (opens - and stamps - a new one if need be).
    fn attempt_of_call(&self, is_stream: bool) -> usize {
        let mut seen = self.seen.lock().unwrap();
        let mut g = self.sh.log.lock().unwrap();
        let already = if is_stream { seen.0 } else { seen.1 };
        if g.calls.is_empty() || already {
            let start = self.sh.now();
            g.calls.push(Call { start, end: None, ok: false });
            *seen = (false, false);
            if let Some(w) = self.sh.poke.lock().unwrap().as_ref() {
                w.wake_by_ref();
            }
        }
        if is_stream { seen.0 = true } else { seen.1 = true }
        g.calls.len() - 1
    }
    fn scripted(&self, k: usize) -> Option<String> {
        self.script.get(k).cloned().flatten()
    }
}
pub struct AcctConn(Conn, AssetNameExchange);
impl Stream for AcctConn {
    type Item = UnindexedAccountEvent;
    fn poll_next(mut self: Pin<&mut Self>, cx: &mut Context<'_>) -> Poll<Option<Self::Item>> {
        let asset = self.1.clone();
        Pin::new(&mut self.0).poll_next(cx).map(|o| {
            o.map(|r| match r {
                Ok(id) => UnindexedAccountEvent {
                    exchange: ACCOUNT_EXCHANGE,
                    kind: AccountEventKind::BalanceSnapshot(Snapshot(account_balance(asset, id))),
                },
                Err(e) => unreachable!("account connections are words over I, got {e:?}"),
            })
        })
    }
}
fn account_balance(asset: AssetNameExchange, n: u32) -> AssetBalance<AssetNameExchange> {
    AssetBalance { asset, balance: Balance { total: Decimal::from(n), free: Decimal::from(n) }, time_exchange: chrono::DateTime::UNIX_EPOCH }
}
impl ExecutionClient for ScriptAcct {
    const EXCHANGE: ExchangeId = ExchangeId::Mock;
    type Config = ScriptAcct;
    type AccountStream = AcctConn;
    fn new(config: ScriptAcct) -> Self {
        config
    }
    fn account_snapshot(
        &self,
        assets: &[AssetNameExchange],
        _: &[InstrumentNameExchange],
    ) -> impl Future<Output = Result<UnindexedAccountSnapshot, UnindexedClientError>> + Send {
        let k = self.attempt_of_call(false);
        let now = self.sh.now();
        let r = if self.scripted(k).is_none() && k % 2 == 0 {
            // the attempt's outcome is known now
            self.sh.log.lock().unwrap().calls[k].end = Some(now);
            Err(UnindexedClientError::AccountSnapshot("scripted snapshot failure".into()))
        } else {
            // (the later of the two completions ends the attempt)
            let mut g = self.sh.log.lock().unwrap();
            if g.calls[k].end.is_some() {
                g.calls[k].end = Some(now);
            }
            Ok(UnindexedAccountSnapshot { exchange: ACCOUNT_EXCHANGE, balances: vec![account_balance(assets[0].clone(), k as u32)], instruments: vec![] })
        };
        std::future::ready(r)
    }
    fn account_stream(
        &self,
        assets: &[AssetNameExchange],
        _: &[InstrumentNameExchange],
    ) -> impl Future<Output = Result<AcctConn, UnindexedClientError>> + Send {
        let asset = assets[0].clone();
        let k = self.attempt_of_call(true);
        let entry = self.scripted(k);
        let (sh, lat, pace) = (self.sh.clone(), self.lat, self.pace);
        async move {
            if lat > 0 {
                tokio::time::sleep(Duration::from_millis(lat)).await;
            }
            {
                let mut g = sh.log.lock().unwrap();
                let now = sh.now();
                g.calls[k].end = Some(now);
                g.calls[k].ok = entry.is_some();
            }
            match entry {
                Some(word) => Ok(AcctConn(Conn { conn: k, syms: word.into_bytes(), pos: 0, pace, sleep: None }, asset)),
                // the stream comes up (and is never polled), fetching the snapshot fails
                None if k % 2 == 0 => Ok(AcctConn(Conn { conn: k, syms: vec![], pos: 0, pace: 0, sleep: None }, asset)),
                None => Err(UnindexedClientError::Connectivity(ConnectivityError::Socket("scripted connection attempt failed".into()))),
            }
        }
    }
    fn cancel_order(&self, _: OrderRequestCancel<ExchangeId, &InstrumentNameExchange>) -> impl Future<Output = UnindexedOrderResponseCancel> + Send {
        std::future::pending()
    }
    fn open_order(
        &self,
        _: OrderRequestOpen<ExchangeId, &InstrumentNameExchange>,
    ) -> impl Future<Output = Order<ExchangeId, InstrumentNameExchange, Result<Open, UnindexedOrderError>>> + Send {
        std::future::pending()
    }
    async fn fetch_balances(&self) -> Result<Vec<AssetBalance<AssetNameExchange>>, UnindexedClientError> {
        Ok(vec![])
    }
    async fn fetch_open_orders(&self) -> Result<Vec<Order<ExchangeId, InstrumentNameExchange, Open>>, UnindexedClientError> {
        Ok(vec![])
    }
    async fn fetch_trades(&self, _: chrono::DateTime<chrono::Utc>) -> Result<Vec<Trade<QuoteAsset, InstrumentNameExchange>>, UnindexedClientError> {
        Ok(vec![])
    }
}
fn account_obs(e: AccountStreamEvent) -> Obs {
    match e {
        Event::Reconnecting(ex) => Obs::Notice(if ex == ACCOUNT_EXCHANGE { ORIGIN } else { 0 }),
        Event::Item(ev) => match ev.kind {
            AccountEventKind::BalanceSnapshot(Snapshot(b)) => Obs::Item(b.balance.total.to_u32().unwrap_or(u32::MAX)),
            AccountEventKind::Snapshot(s) => match s.balances.first().and_then(|b| b.balance.total.to_usize()) {
                Some(k) => Obs::Item(id_of(k, SNAP_POS)),
                None => Obs::Item(u32::MAX),
            },
            _ => Obs::Item(u32::MAX),
        },
    }
}

/// Builder modes: two scripted instruments share the exchange channel; the twin's (instrument key 1) ids are
/// shifted by `TWIN_BASE`.
fn market_obs_keyed(e: MarketStreamResult<u32, PublicTrade>) -> Obs {
    let twin = matches!(&e, Event::Item(Ok(ev)) if ev.instrument == 1);
    match market_obs(e) {
        Obs::Item(i) if twin => Obs::Item(i + TWIN_BASE),
        o => o,
    }
}

/// Scripted transmitter: records every send, fails from send number `fail_at` on.
#[derive(Clone)]
struct ScriptTx {
    sh: Arc<Shared>,
    fail_at: usize,
}
impl std::fmt::Debug for ScriptTx {
    fn fmt(&self, f: &mut std::fmt::Formatter<'_>) -> std::fmt::Result {
        write!(f, "ScriptTx(fail_at={})", self.fail_at)
    }
}
#[derive(Debug)]
struct SendFail;
impl Unrecoverable for SendFail {
    fn is_unrecoverable(&self) -> bool {
        true
    }
}
impl Tx for ScriptTx {
    type Item = Event<u32, u32>;
    type Error = SendFail;
    fn send<Item: Into<Self::Item>>(&self, item: Item) -> Result<(), Self::Error> {
        let mut g = self.sh.log.lock().unwrap();
        let ok = g.sends.len() < self.fail_at;
        let now = self.sh.now();
        g.sends.push((now, obs_of(item.into()), ok));
        if ok { Ok(()) } else { Err(SendFail) }
    }
}

fn obs_of(e: Event<u32, u32>) -> Obs {
    match e {
        Event::Reconnecting(o) => Obs::Notice(o),
        Event::Item(i) => Obs::Item(i),
    }
}

#[derive(Debug, Clone, PartialEq, Eq, Hash, Default)]
struct Observation {
    /// (virtual ms, output) in order of delivery (Pass/Handler: stream outputs; ForwardChan: receiver side;
    /// ForwardScript: successful sends)
    outputs: Vec<(u64, Obs)>,
    calls: Vec<Call>,
    handled: Vec<(u32, bool)>,
    sends: Vec<(u64, Obs, bool)>,
    /// the stream returned None / the forward_to future completed, at this virtual ms
    ended: Option<u64>,
    /// virtual ms at which the run stopped
    stop: u64,
    horizon_hit: bool,
    /// MergedPlain: ids pushed into the side channel
    side_pushed: Vec<u32>,
    /// Builder modes with `twin`: what the twin connection delivered (ids shifted by `TWIN_BASE`)
    twin_outputs: Vec<Obs>,
}

enum Subject {
    S(Pin<Box<dyn Stream<Item = Obs> + Send>>),
    F(Pin<Box<dyn Future<Output = ()> + Send>>),
}

fn horizon(case: &Case) -> u64 {
    let n = case.script.len() as u64;
    let fails = case.script.iter().filter(|a| a.is_none()).count() as u64 + case.extra as u64;
    let syms: u64 = case.script.iter().flatten().map(|w| w.len() as u64 + 1).sum();
    // The statement does not say how soon after a dropped connection the next attempt is made: the observation
    // allows every scripted connection one maximum backoff between its end and the attempt that follows it (an
    // observation has to stop somewhere; this is the machinery's bound, stated in `assumptions`).
    let oks = n - case.script.iter().filter(|a| a.is_none()).count() as u64;
    (n + case.extra as u64) * case.lat + syms * case.pace + (fails + oks) * case.policy.2.max(case.policy.0) + 10
}

/// Run one case against the real code.
fn execute(case: &Case) -> Observation {
    let rt = paused_rt();
    let fw = Arc::new(FwdWaker { flag: AtomicBool::new(true), outer: Mutex::new(None) });
    let waker = std::task::Waker::from(fw.clone());
    rt.block_on(async {
        let sh = Arc::new(Shared { t0: Instant::now(), log: Mutex::new(Log::default()), poke: Mutex::new(None) });
        let key = StreamKey::new_general("c12", ExchangeId::Mock);
        let policy = ReconnectionBackoffPolicy::new(case.policy.0, case.policy.1, case.policy.2);
        let hz = horizon(case);

        if case.mode == Mode::Market {
            let inst = ScriptInst {
                sh: sh.clone(),
                script: Arc::new(case.script.clone()),
                lat: case.lat,
                pace: case.pace,
                key: 0,
                kind: MarketDataInstrumentKind::Spot,
            };
            let subs = vec![Subscription::new(ScriptVenue, inst, PublicTrades)];
            let stream = init_market_stream(policy, subs).await.expect("scripts start with a successful attempt");
            return drive(case, &sh, &fw, &waker, Subject::S(Box::pin(stream.map(market_obs))), None, None).await;
        }
        if matches!(case.mode, Mode::Builder | Mode::MultiBuilder) {
            // (the builder's policy is the crate's constant; the case records it so that the judge reads it there)
            assert_eq!(policy, STREAM_RECONNECTION_POLICY, "builder cases carry the crate's constant policy");
            *sh.poke.lock().unwrap() = Some(waker.clone());
            let inst = |key: u32, sh: &Arc<Shared>, script: &[Option<String>]| ScriptInst {
                sh: sh.clone(),
                script: Arc::new(script.to_vec()),
                lat: case.lat,
                pace: if key == 0 { case.pace } else { TWIN_PACE },
                key,
                kind: MarketDataInstrumentKind::Spot,
            };
            let mut builder = Streams::<PublicTrades>::builder::<u32, PublicTrades>()
                .subscribe([Subscription::new(ScriptVenue, inst(0, &sh, &case.script), PublicTrades)]);
            // a second `subscribe` for the same exchange (its own connection, the same exchange channel)
            let twin_sh = Arc::new(Shared { t0: sh.t0, log: Mutex::new(Log::default()), poke: Mutex::new(None) });
            if case.twin {
                builder = builder.subscribe([Subscription::new(ScriptVenue, inst(1, &twin_sh, &twin_script()), PublicTrades)]);
            }
            let stream: Pin<Box<dyn Stream<Item = MarketStreamResult<u32, PublicTrade>> + Send>> = if case.mode == Mode::Builder {
                Box::pin(builder.init().await.expect("scripts start with a successful attempt").select_all())
            } else {
                let multi = Streams::<MarketStreamResult<u32, PublicTrade>>::builder_multi().add(builder);
                Box::pin(multi.init().await.expect("scripts start with a successful attempt").select_all())
            };
            let mut o = drive(case, &sh, &fw, &waker, Subject::S(Box::pin(stream.map(market_obs_keyed))), None, None).await;
            // the twin connection's outputs are judged on their own (see `judge_generic`)
            let (twin, own): (Vec<_>, Vec<_>) = o.outputs.drain(..).partition(|x| matches!(&x.1, Obs::Item(i) if *i >= TWIN_BASE));
            o.outputs = own;
            o.twin_outputs = twin.into_iter().map(|x| x.1).collect();
            return o;
        }
        if case.mode == Mode::Account {
            let instruments = IndexedInstruments::builder()
                .add_instrument(super::common::spot(ACCOUNT_EXCHANGE, "b_btc_usdt", "BTCUSDT", "btc", "usdt"))
                .add_instrument(super::common::spot(ExchangeId::Kraken, "k_btc_usdt", "XBT/USDT", "btc", "usdt"))
                .build();
            let map = generate_execution_instrument_map(&instruments, ACCOUNT_EXCHANGE).expect("execution instrument map");
            let client = ScriptAcct {
                sh: sh.clone(),
                script: Arc::new(case.script.clone()),
                lat: case.lat,
                pace: case.pace,
                seen: Arc::new(Mutex::new((false, false))),
            };
            let requests = futures::stream::pending::<ExecutionRequest<ExchangeIndex, InstrumentIndex>>();
            // (the manager owns the response channel that is merged into the account stream: it is kept alive, as a
            // running system does, for the whole observation)
            let (_manager, stream) = ExecutionManager::init(requests, Duration::from_secs(1), Arc::new(client), AccountEventIndexer::new(Arc::new(map)), policy)
                .await
                .expect("scripts start with a successful attempt");
            return drive(case, &sh, &fw, &waker, Subject::S(Box::pin(stream.map(account_obs))), None, None).await;
        }
        // attempt 0 is awaited by init_reconnecting_stream itself (its latency elapses by auto-advance)
        let base = init_reconnecting_stream(make_init(case, sh.clone())).await;
        let base = base.expect("scripts start with a successful attempt");
        let to_obs = |e: Event<u32, Result<u32, ErrK>>| match e {
            Event::Reconnecting(o) => Obs::Notice(o),
            Event::Item(Ok(i)) => Obs::Item(i),
            Event::Item(Err(e)) => Obs::Err(e.id, e.terminal),
        };
        let mut side_tx = None;
        if case.mode == Mode::MergedPlain {
            let (tx, side_rx) = mpsc_unbounded::<Event<u32, Result<u32, ErrK>>>();
            side_tx = Some(tx);
            let merged = merge(
                side_rx.into_stream(),
                base.with_reconnect_backoff::<_, InitErr>(policy, key).with_reconnection_events(ORIGIN),
            );
            return drive(case, &sh, &fw, &waker, Subject::S(Box::pin(merged.map(to_obs))), None, side_tx).await;
        }
        let events = base
            .with_reconnect_backoff(policy, key)
            .with_termination_on_error(|e: &ErrK| e.terminal, key)
            .with_reconnection_events(ORIGIN);

        let handler = {
            let sh = sh.clone();
            move |e: ErrK| sh.log.lock().unwrap().handled.push(e)
        };
        let mut rx = None;
        let subject = match case.mode {
            Mode::MergedPlain | Mode::Market | Mode::Account | Mode::Builder | Mode::MultiBuilder => unreachable!(),
            Mode::Pass => Subject::S(Box::pin(events.map(to_obs))),
            Mode::Handler => Subject::S(Box::pin(events.with_error_handler(handler).map(obs_of))),
            Mode::ForwardChan => {
                let (tx, r) = mpsc_unbounded::<Event<u32, u32>>();
                rx = Some(r);
                Subject::F(Box::pin(events.with_error_handler(handler).forward_to(tx)))
            }
            Mode::ForwardScript => {
                let tx = ScriptTx { sh: sh.clone(), fail_at: case.fail_at.unwrap_or(usize::MAX) };
                Subject::F(Box::pin(events.with_error_handler(handler).forward_to(tx)))
            }
        };

        drive(case, &sh, &fw, &waker, subject, rx, side_tx).await
    })
}

/// The harness' waker: remembers that the subject was woken and passes the wake-up on to the task that runs
/// the environment loop (so that the paused runtime, when idle, auto-advances the virtual clock exactly to the
/// next timer deadline of the subject or of the harness and the loop resumes there).
struct FwdWaker {
    flag: AtomicBool,
    outer: Mutex<Option<std::task::Waker>>,
}
impl std::task::Wake for FwdWaker {
    fn wake(self: Arc<Self>) {
        self.wake_by_ref()
    }
    fn wake_by_ref(self: &Arc<Self>) {
        self.flag.store(true, Ordering::SeqCst);
        if let Some(w) = self.outer.lock().unwrap().as_ref() {
            w.wake_by_ref();
        }
    }
}

enum Idle {
    Woken,
    SideTick,
    Horizon,
}

/// The environment loop: poll the subject by hand (own waker) to quiescence, collect what came out (stamped
/// with the virtual clock), then let the virtual clock jump to the next timer deadline; until the script plus
/// `extra` failing attempts have been started (or the horizon is reached).
async fn drive(
    case: &Case,
    sh: &Arc<Shared>,
    fw: &Arc<FwdWaker>,
    waker: &std::task::Waker,
    mut subject: Subject,
    mut rx: Option<barter_integration::channel::UnboundedRx<Event<u32, u32>>>,
    side_tx: Option<UnboundedTx<Event<u32, Result<u32, ErrK>>>>,
) -> Observation {
    let flag = fw;
    let mut deadline = Box::pin(tokio::time::sleep_until(sh.t0 + Duration::from_millis(horizon(case))));
    let mut side_timer = side_tx.as_ref().map(|_| tokio::time::interval(Duration::from_millis(4)));
    {
        let mut o = Observation::default();
        let target_calls = case.script.len() + case.extra;
        loop {
            // poll to quiescence
            let mut spins = 0usize;
            loop {
                flag.flag.store(false, Ordering::SeqCst);
                let mut cx = Context::from_waker(waker);
                let pending = match &mut subject {
                    Subject::S(s) => match s.as_mut().poll_next(&mut cx) {
                        Poll::Ready(Some(ob)) => {
                            o.outputs.push((sh.now(), ob));
                            false
                        }
                        Poll::Ready(None) => {
                            o.ended = Some(sh.now());
                            break;
                        }
                        Poll::Pending => true,
                    },
                    Subject::F(f) => match f.as_mut().poll(&mut cx) {
                        Poll::Ready(()) => {
                            o.ended = Some(sh.now());
                            break;
                        }
                        Poll::Pending => true,
                    },
                };
                if pending {
                    if !flag.flag.load(Ordering::SeqCst) {
                        break;
                    }
                    spins += 1;
                    assert!(spins < 100_000, "livelock: subject re-woke itself 100000 times");
                    if spins % 32 == 0 {
                        tokio::task::yield_now().await; // refresh the cooperative budget
                    }
                }
            }
            if let Some(r) = rx.as_mut() {
                while let Ok(ev) = r.rx.try_recv() {
                    o.outputs.push((sh.now(), obs_of(ev)));
                }
            }
            let calls = sh.log.lock().unwrap().calls.len();
            if o.ended.is_some() || calls >= target_calls {
                break;
            }
            // idle: wait (in virtual time) for the subject to be woken, the side-channel tick or the horizon
            let idle = std::future::poll_fn(|cx| {
                *fw.outer.lock().unwrap() = Some(cx.waker().clone());
                if fw.flag.load(Ordering::SeqCst) {
                    return Poll::Ready(Idle::Woken);
                }
                if let Some(iv) = side_timer.as_mut() {
                    if iv.poll_tick(cx).is_ready() {
                        return Poll::Ready(Idle::SideTick);
                    }
                }
                if deadline.as_mut().poll(cx).is_ready() {
                    return Poll::Ready(Idle::Horizon);
                }
                Poll::Pending
            })
            .await;
            match idle {
                Idle::Woken => {}
                Idle::SideTick => {
                    let id = SIDE_BASE + o.side_pushed.len() as u32;
                    let tx = side_tx.as_ref().unwrap();
                    tx.tx.send(Event::Item(Ok(id))).expect("merged stream holds the side receiver");
                    o.side_pushed.push(id);
                }
                Idle::Horizon => {
                    o.horizon_hit = true;
                    break;
                }
            }
        }
        o.stop = sh.now();
        drop(subject);
        let g = sh.log.lock().unwrap();
        o.calls = g.calls.clone();
        o.handled = g.handled.iter().map(|e| (e.id, e.terminal)).collect();
        o.sends = g.sends.clone();
        if case.mode == Mode::ForwardScript {
            // what "arrived": the sends up to and including the first failed one
            let n = g.sends.iter().position(|s| !s.2).map(|f| f + 1).unwrap_or(g.sends.len());
            o.outputs = g.sends[..n].iter().map(|s| (s.0, s.1.clone())).collect();
        }
        o
    }
}

// ---------------------------------------------------------------------------------------------------
// Oracle for layer 1
// ---------------------------------------------------------------------------------------------------

#[derive(Debug, Clone, PartialEq)]
enum Tok {
    Must(Obs),
    /// the statement does not say whether the terminal error itself is passed on: accepted if present
    May(Obs),
}

/// What the statement allows the consumer to see, from the script: for every successfully initialised
/// connection, in attempt order: its items and recoverable errors in order up to its end or first terminal
/// error, then one notice. Failed attempts contribute nothing.
fn expected(case: &Case, errors_in_output: bool) -> (Vec<Tok>, Vec<Tok>) {
    let mut out = Vec::new();
    let mut handled = Vec::new();
    for (c, a) in case.script.iter().enumerate() {
        let Some(word) = a else { continue };
        if case.mode == Mode::Account {
            // "every item of each successfully initialised connection": the manager's connection is the account
            // snapshot followed by the account stream
            out.push(Tok::Must(Obs::Item(id_of(c, SNAP_POS))));
        }
        for (p, s) in word.bytes().enumerate() {
            let id = id_of(c, p);
            // (the flag of `Obs::Err` is the symbol class: false = R, true = T)
            match s {
                b'I' => out.push(Tok::Must(Obs::Item(id))),
                s if !sym_terminal(case, s) => {
                    if errors_in_output {
                        out.push(Tok::Must(Obs::Err(id, s == b'T')))
                    } else {
                        handled.push(Tok::Must(Obs::Err(id, s == b'T')))
                    }
                }
                s => {
                    if errors_in_output {
                        out.push(Tok::May(Obs::Err(id, s == b'T')))
                    } else {
                        handled.push(Tok::May(Obs::Err(id, s == b'T')))
                    }
                    break;
                }
            }
        }
        out.push(Tok::Must(Obs::Notice(ORIGIN)));
    }
    (out, handled)
}

/// Does the error symbol `s` (R or T) end the connection in this composition? `Pass`/`Handler`/`Forward*` configure
/// the predicate "T is terminal"; `MergedPlain` configures none; in `Market` the consumer's predicate is
/// `DataError::is_terminal` - the statement does not say which `DataError`s are terminal, so the real function is
/// asked about the two errors the symbols are rendered as.
fn sym_terminal(case: &Case, s: u8) -> bool {
    match case.mode {
        Mode::MergedPlain | Mode::Account => false,
        Mode::Market | Mode::Builder | Mode::MultiBuilder => market_error(0, s == b'T').is_terminal(),
        _ => s == b'T',
    }
}

/// Is (conn,pos) behind the first terminal error of its connection (or not part of the script at all)?
fn after_terminal(case: &Case, id: u32) -> bool {
    let (c, p) = ((id / STRIDE) as usize, (id % STRIDE) as usize);
    match case.script.get(c).and_then(|a| a.as_ref()) {
        Some(w) => w.bytes().take(p).any(|s| s != b'I' && sym_terminal(case, s)),
        None => true,
    }
}

/// Compare an observed sequence with the expected token sequence; `complete` = the observed sequence is
/// supposed to contain everything (false: only a prefix, e.g. sends before the first failed send).
/// Returns the abstract cause of the first divergence.
fn match_seq(case: &Case, exp: &[Tok], obs: &[Obs], complete: bool) -> Option<(String, String)> {
    let kind = |o: &Obs| match o {
        Obs::Item(_) => "item",
        Obs::Err(_, false) => "recoverable-error",
        Obs::Err(_, true) => "terminal-error",
        Obs::Notice(_) => "notice",
    };
    let ido = |o: &Obs| match o {
        Obs::Item(i) | Obs::Err(i, _) => Some(*i),
        Obs::Notice(_) => None,
    };
    let mut j = 0usize;
    for (i, x) in obs.iter().enumerate() {
        // skip optional tokens that are not there
        while j < exp.len() && matches!(&exp[j], Tok::May(e) if e != x) {
            j += 1;
        }
        let want = exp.get(j);
        let hit = match want {
            Some(Tok::Must(e)) | Some(Tok::May(e)) => e == x,
            None => false,
        };
        if hit {
            j += 1;
            continue;
        }
        let detail = format!("output #{i} is {x:?}, allowed next: {want:?}; observed={obs:?}");
        if let Obs::Notice(o) = x {
            if *o != ORIGIN {
                return Some(("notice-with-wrong-origin".into(), detail));
            }
        }
        let notices = |v: &mut dyn Iterator<Item = &Obs>| v.filter(|o| matches!(o, Obs::Notice(_))).count();
        let too_many_notices = notices(&mut obs.iter())
            > exp.iter().filter(|t| matches!(t, Tok::Must(Obs::Notice(_)))).count();
        let cause = match (x, want) {
            // a notice that no ended connection accounts for (second notice, notice for a failed attempt, ...)
            (Obs::Notice(_), None) => "spurious-notice".to_string(),
            (Obs::Notice(_), Some(_)) => {
                // a notice while the current connection still has deliverables
                let at_conn_start = j == 0 || matches!(&exp[j - 1], Tok::Must(Obs::Notice(_)));
                if at_conn_start && (too_many_notices || !complete) {
                    "spurious-notice".to_string()
                } else {
                    // did a recoverable error precede in this connection?
                    let mut k = j;
                    let mut rec = false;
                    while k > 0 && !matches!(&exp[k - 1], Tok::Must(Obs::Notice(_))) {
                        if matches!(&exp[k - 1], Tok::Must(Obs::Err(_, false))) {
                            rec = true;
                        }
                        k -= 1;
                    }
                    // (with a handler the error is not in `exp`; look at the script instead)
                    let cur = match want {
                        Some(Tok::Must(o)) | Some(Tok::May(o)) => ido(o),
                        None => None,
                    };
                    if let Some(id) = cur {
                        let (c, p) = ((id / STRIDE) as usize, (id % STRIDE) as usize);
                        if let Some(Some(w)) = case.script.get(c) {
                            rec |= w.bytes().take(p).any(|s| s == b'R');
                        }
                    }
                    if rec {
                        "notice-before-connection-end/after-recoverable-error".to_string()
                    } else {
                        "notice-before-connection-end".to_string()
                    }
                }
            }
            (x, want) => {
                let id = ido(x).unwrap();
                if obs[..i].contains(x) {
                    format!("duplicate-{}", kind(x))
                } else if after_terminal(case, id) {
                    "delivered-after-terminal-error".to_string()
                } else {
                    match want {
                        // output of the next connection although this connection's notice has not been seen
                        Some(Tok::Must(Obs::Notice(_))) => "lost-notice".to_string(),
                        Some(Tok::Must(w)) | Some(Tok::May(w)) => {
                            let wid = ido(w).unwrap();
                            if id > wid { format!("lost-{}", kind(w)) } else { "out-of-order".to_string() }
                        }
                        None => format!("unexpected-{}", kind(x)),
                    }
                }
            }
        };
        return Some((cause, detail));
    }
    if complete {
        while j < exp.len() {
            if let Tok::Must(m) = &exp[j] {
                return Some((
                    format!("lost-{}", kind(m)),
                    format!("never delivered: {m:?} (expected token #{j}); observed={obs:?}"),
                ));
            }
            j += 1;
        }
    }
    None
}

/// The wait the statement prescribes after the r-th consecutive failed attempt (r >= 1).
fn wait_ms(policy: (u64, u8, u64), r: u32) -> u64 {
    let mut w = policy.0;
    for _ in 1..r {
        w = (w.saturating_mul(policy.1 as u64)).min(policy.2);
    }
    w
}

fn judge_generic(case: &Case, o: &Observation) -> Vec<Viol> {
    let mut v: Vec<Viol> = Vec::new();
    let forward = matches!(case.mode, Mode::ForwardChan | Mode::ForwardScript);
    let failed_send = o.sends.iter().position(|s| !s.2);

    // R-never-ends: "the stream never ends by itself" (forward_to: it can only stop because a send failed)
    if let Some(t) = o.ended {
        if !forward {
            v.push(("C12/never-ends/stream-returned-none".into(), format!("the composed stream ended at {t} ms; calls={:?}", o.calls)));
        } else if failed_send.is_none() {
            v.push((
                "C12/forward-to/completed-without-failed-send".into(),
                format!("forward_to completed at {t} ms although no send failed; calls={:?}", o.calls),
            ));
        }
    }

    // R-delivery: items once, in order, up to end / first terminal error; one notice per ended connection
    // before anything of the next; recoverable errors passed through; failed attempts deliver nothing.
    let errors_in_output = !matches!(case.mode, Mode::Handler | Mode::ForwardChan | Mode::ForwardScript);
    let (exp, exp_handled) = expected(case, errors_in_output);
    let outs: Vec<Obs> = o.outputs.iter().map(|x| x.1.clone()).collect();
    let stopped_by_failed_send = case.mode == Mode::ForwardScript && failed_send.is_some();
    let (side, outs): (Vec<Obs>, Vec<Obs>) = outs.into_iter().partition(|x| matches!(x, Obs::Item(i) if *i >= SIDE_BASE));
    // "everything must have arrived" is only judged for runs that got to the end of the script: a run that ended
    // by itself or ran into the horizon is reported by the never-ends / backoff / progress rules instead
    let complete = !stopped_by_failed_send && o.ended.is_none() && !o.horizon_hit;
    if let Some((cause, detail)) = match_seq(case, &exp, &outs, complete) {
        if case.mode == Mode::ForwardScript {
            // (the observed sequence is: every successful send, then the first failed one)
            v.push(("C12/forward-to/lost-before-failed-send".into(), format!("{cause}: {detail}")));
        } else {
            v.push((format!("C12/delivery/{cause}"), detail));
        }
    }
    // merge in the account-stream composition: the channel input arrives completely and in order as well
    if case.mode == Mode::MergedPlain {
        let want: Vec<Obs> = o.side_pushed.iter().map(|i| Obs::Item(*i)).collect();
        if side != want {
            v.push((
                "C12/merge/channel-input-not-preserved-next-to-reconnecting-stream".into(),
                format!("pushed into the channel input: {want:?}, came out of the merged stream: {side:?}"),
            ));
        }
    }

    // a second connection forwarded into the same exchange channel (builder modes): its items arrive in order, each
    // exactly once, next to whatever the main connection does; it produced its first item `TWIN_PACE` ms after it
    // came up, so a run that lasted longer has seen at least one
    if case.twin {
        let want: Vec<Obs> = (0..o.twin_outputs.len() as u32).map(|i| Obs::Item(TWIN_BASE + i)).collect();
        if o.twin_outputs != want {
            v.push((
                "C12/delivery/second-connection-of-the-exchange/not-in-order-exactly-once".into(),
                format!("the twin connection yields items {TWIN_BASE}+0,1,2,...; the exchange channel delivered {:?}", o.twin_outputs),
            ));
        } else if o.twin_outputs.is_empty() && o.stop > 2 * case.lat + 2 * TWIN_PACE {
            v.push((
                "C12/delivery/second-connection-of-the-exchange/nothing-delivered".into(),
                format!("the twin connection has been yielding an item every {TWIN_PACE} ms, none arrived by {} ms", o.stop),
            ));
        }
    }

    // R-handler: recoverable errors are handed to the handler (exactly once, in order)
    if !errors_in_output {
        let h: Vec<Obs> = o.handled.iter().map(|(i, t)| Obs::Err(*i, *t)).collect();
        if let Some((cause, detail)) = match_seq(case, &exp_handled, &h, complete) {
            let cause = match cause.split('-').next().unwrap_or("") {
                "lost" => "recoverable-error-not-handed-over",
                "duplicate" => "called-twice-for-one-error",
                "delivered" => "called-for-error-after-terminal-error",
                _ => "unexpected-call",
            };
            v.push((format!("C12/error-handler/{cause}"), format!("handler calls: {detail}")));
        }
    }

    // R-backoff: after the r-th consecutive failed attempt the next attempt starts exactly
    // min(initial * mult^(r-1), max) later; r restarts after a success. Nothing is demanded about the delay
    // between a dropped connection and the next attempt.
    if !stopped_by_failed_send && o.ended.is_none() {
        let mut run = 0u32;
        let mut had_earlier_run = false;
        for (k, c) in o.calls.iter().enumerate() {
            let scripted_ok = case.script.get(k).map(|a| a.is_some()).unwrap_or(false);
            let Some(end) = c.end else { break };
            if c.ok != scripted_ok {
                v.push(("C12/machinery/attempt-result-mismatch".into(), format!("call {k}: {c:?}")));
            }
            if c.ok {
                if run > 0 {
                    had_earlier_run = true;
                }
                run = 0;
                continue;
            }
            run += 1;
            let want = wait_ms(case.policy, run);
            let which = if run == 1 {
                if had_earlier_run { "first-wait-after-success" } else { "first-wait" }
            } else if want == case.policy.2 && wait_ms(case.policy, run - 1) == case.policy.2 {
                "wait-at-maximum"
            } else {
                "grown-wait"
            };
            match o.calls.get(k + 1) {
                Some(next) => {
                    let got = next.start.saturating_sub(end);
                    if got != want {
                        let dir = if got < want { "too-short" } else { "too-long" };
                        v.push((
                            format!("C12/backoff/{which}/{dir}"),
                            format!(
                                "attempt {k} failed at {end} ms (failure #{run} in a row), attempt {} started at {} ms: waited {got} ms, statement says {want} ms; policy={:?} calls={:?}",
                                k + 1, next.start, case.policy, o.calls
                            ),
                        ));
                        break;
                    }
                }
                None => {
                    if k + 1 < case.script.len() + case.extra {
                        v.push((
                            format!("C12/backoff/{which}/next-attempt-not-observed"),
                            format!(
                                "attempt {k} failed at {end} ms; no further attempt until {} ms (allowed wait {want} ms); calls={:?}",
                                o.stop, o.calls
                            ),
                        ));
                    }
                    break;
                }
            }
        }
    }
    if o.horizon_hit && v.is_empty() {
        v.push((
            "C12/progress/script-not-consumed-within-horizon".into(),
            format!(
                "only {} init calls by {} ms, expected {}; outputs={:?} calls={:?}",
                o.calls.len(), o.stop, case.script.len() + case.extra, o.outputs, o.calls
            ),
        ));
    }
    v
}

// ---------------------------------------------------------------------------------------------------
// Enumeration of layer 1
// ---------------------------------------------------------------------------------------------------

/// all words over {I,R,T} of length <= l, shortest first
fn words(l: usize) -> Vec<String> {
    let mut all = vec![String::new()];
    let mut last = vec![String::new()];
    for _ in 0..l {
        let mut next = Vec::new();
        for w in &last {
            for s in ["I", "R", "T"] {
                next.push(format!("{w}{s}"));
            }
        }
        all.extend(next.iter().cloned());
        last = next;
    }
    all
}

/// Canonical scripts with exactly n attempts: first and last attempt succeed (trailing failures are
/// covered by the failing attempts that follow every script), the middle ones are anything.
fn scripts_n(n: usize, ws: &[String]) -> Vec<Vec<Option<String>>> {
    let s = ws.len();
    let any: Vec<Option<String>> = std::iter::once(None).chain(ws.iter().cloned().map(Some)).collect();
    let mut out: Vec<Vec<Option<String>>> = ws.iter().map(|w| vec![Some(w.clone())]).collect();
    if n == 1 {
        return out;
    }
    for _ in 0..n.saturating_sub(2) {
        let mut next = Vec::with_capacity(out.len() * (s + 1));
        for pre in &out {
            for a in &any {
                let mut p = pre.clone();
                p.push(a.clone());
                next.push(p);
            }
        }
        out = next;
    }
    let mut fin = Vec::with_capacity(out.len() * s);
    for pre in &out {
        for w in ws {
            let mut p = pre.clone();
            p.push(Some(w.clone()));
            fin.push(p);
        }
    }
    fin
}

struct Block {
    n_max: usize,
    l_max: usize,
    policies: Vec<(u64, u8, u64)>,
    timings: Vec<(u64, u64)>,
    modes: Vec<Mode>,
}

/// number of canonical scripts with exactly n attempts over s words
fn script_count(n: usize, s: usize) -> u64 {
    let s = s as u64;
    match n {
        0 => 0,
        1 => s,
        _ => s * (s + 1).pow(n as u32 - 2) * s,
    }
}

/// the i-th canonical script with exactly n attempts (mixed-radix decoding; same set as `scripts_n`)
fn script_at(n: usize, ws: &[String], mut i: u64) -> Vec<Option<String>> {
    let s = ws.len() as u64;
    let mut out = Vec::with_capacity(n);
    out.push(Some(ws[(i % s) as usize].clone()));
    i /= s;
    if n == 1 {
        return out;
    }
    for _ in 0..n - 2 {
        let d = (i % (s + 1)) as usize;
        i /= s + 1;
        out.push(if d == 0 { None } else { Some(ws[d - 1].clone()) });
    }
    out.push(Some(ws[(i % s) as usize].clone()));
    out
}

struct Tally {
    scripts: AtomicU64,
    evals: AtomicU64,
    outputs: AtomicU64,
    attempts: AtomicU64,
    distinct: Distinct,
    samples: Samples,
    /// signatures reported by executions of the generic compositions (every mode but `Market`)
    generic_sigs: Mutex<std::collections::BTreeSet<String>>,
}

fn run_case(ctx: &Ctx, case: &Case, t: &Tally) {
    let o = execute(case);
    t.evals.fetch_add(1, Ordering::Relaxed);
    t.outputs.fetch_add(o.outputs.len() as u64, Ordering::Relaxed);
    t.attempts.fetch_add(o.calls.len() as u64, Ordering::Relaxed);
    t.distinct.add(&o);
    for (sig, detail) in judge(case, &o) {
        // `Market` executions run after the generic ones (see `run`): a rule already broken by the generic
        // combinators is that defect again, not a defect of `init_market_stream`
        if let Some(suffix) = composition_suffix(case.mode) {
            if t.generic_sigs.lock().unwrap().contains(sig.trim_end_matches(suffix)) {
                continue;
            }
        } else {
            t.generic_sigs.lock().unwrap().insert(sig.clone());
        }
        ctx.violate(sig, detail, serde_json::to_value(case).unwrap());
    }
}

fn composition_suffix(mode: Mode) -> Option<&'static str> {
    match mode {
        Mode::Market => Some("/init_market_stream"),
        Mode::Account => Some("/ExecutionManager::init"),
        Mode::Builder => Some("/StreamBuilder"),
        Mode::MultiBuilder => Some("/MultiStreamBuilder"),
        _ => None,
    }
}

/// `judge` + the composition as part of the signature where it is not the generic one: a rule broken only by
/// barter-data's `init_market_stream` composition is a different defect from one in the generic combinators.
fn judge(case: &Case, o: &Observation) -> Vec<Viol> {
    let mut v = judge_generic(case, o);
    if let Some(suffix) = composition_suffix(case.mode) {
        for x in &mut v {
            x.0.push_str(suffix);
        }
    }
    v
}

// =====================================================================================================
// Layer 2: merge — all interleavings of pushes, closes and polls
// =====================================================================================================

/// Poll with the harness' waker, again while the subject wakes itself. When this returns `Pending` the flag is
/// clear and the subject holds the waker: whatever makes an item (or the end) available afterwards has to set it.
fn poll_one<S: Stream + ?Sized>(s: &mut Pin<Box<S>>, flag: &Arc<crate::explore::env::FlagWaker>, waker: &std::task::Waker) -> Poll<Option<S::Item>> {
    let mut cx = Context::from_waker(waker);
    let mut spins = 0;
    loop {
        flag.0.store(false, Ordering::SeqCst);
        match s.as_mut().poll_next(&mut cx) {
            Poll::Ready(x) => return Poll::Ready(x),
            Poll::Pending => {
                if !flag.0.load(Ordering::SeqCst) {
                    return Poll::Pending;
                }
                spins += 1;
                assert!(spins < 10_000, "merge livelock");
            }
        }
    }
}

#[derive(Default)]
struct MergeInfo {
    /// executions in which the merged stream ended while the other input still held items that had been
    /// pushed before the ending input was closed (statement silent -> informational)
    other_ready_dropped: bool,
    ended: bool,
}

/// One execution. `variant` 0: inputs are `UnboundedRx::into_stream()`, 1: `UnboundedRx` itself.
/// Oracle (statement: "merging two streams preserves each input's order and every item up to the point either
/// input ends"; doc of merge: "terminate when either Stream terminates ... fused"):
///  * every delivered item is the NEXT undelivered item of its input (order kept, nothing skipped, no duplicate);
///  * a poll may only stay pending when no input has ended and nothing pushed is undelivered (nothing withheld);
///  * the merged stream ends only when an input has ended and everything that input held was delivered;
///  * once an input has ended the merged stream must end (not wait for the other input), and it stays ended;
///  * a consumer that was told `Pending` is woken when an item is pushed / an input ends (otherwise the item is
///    never delivered to anybody who awaits the merged stream).
fn merge_exec(ch: &mut Chooser, variant: usize, depth: usize, out: &mut Vec<Viol>) -> (u64, MergeInfo) {
    let (ltx, lrx) = mpsc_unbounded::<u32>();
    let (rtx, rrx) = mpsc_unbounded::<u32>();
    let mut s: Pin<Box<dyn Stream<Item = u32>>> = if variant == 0 {
        Box::pin(merge(lrx.into_stream(), rrx.into_stream()))
    } else {
        Box::pin(merge(lrx, rrx))
    };
    let mut tx = [Some(ltx), Some(rtx)];
    let mut pushed = [0u32; 2];
    let mut delivered = [0u32; 2];
    let mut pushed_at_close = [[0u32; 2]; 2]; // [closed side] -> pushed counts at that moment
    let mut info = MergeInfo::default();
    let mut trace: Vec<String> = Vec::new();
    let (flag, waker) = flag_waker();
    // the last poll returned Pending (the subject holds the harness' waker, the flag is clear)
    let mut armed = false;

    let on_poll = |r: Poll<Option<u32>>,
                       tx: &[Option<UnboundedTx<u32>>; 2],
                       pushed: &[u32; 2],
                       delivered: &mut [u32; 2],
                       info: &mut MergeInfo,
                       trace: &mut Vec<String>,
                       out: &mut Vec<Viol>| {
        let closed = [tx[0].is_none(), tx[1].is_none()];
        let mut bad = |cause: &str, trace: &Vec<String>| {
            out.push((format!("C12/merge/{cause}"), format!("steps={trace:?} pushed={pushed:?} closed={closed:?}")));
        };
        match r {
            Poll::Ready(Some(x)) => {
                trace.push(format!("poll->{x}"));
                let side = if x / 100 == 1 { 0 } else { 1 };
                let idx = x % 100;
                if info.ended {
                    bad("item-after-end", trace);
                } else if idx < delivered[side] {
                    bad("duplicate-item", trace);
                } else if idx >= pushed[side] {
                    bad("unknown-item", trace);
                } else if idx > delivered[side] {
                    bad("item-skipped-or-out-of-order", trace);
                    delivered[side] = idx + 1;
                } else {
                    delivered[side] += 1;
                }
            }
            Poll::Ready(None) => {
                trace.push("poll->end".into());
                if !info.ended {
                    let complete = |s: usize| closed[s] && delivered[s] == pushed[s];
                    if !closed[0] && !closed[1] {
                        bad("ended-although-no-input-ended", trace);
                    } else if !complete(0) && !complete(1) {
                        bad("ended-before-items-of-ended-input-delivered", trace);
                    }
                    info.ended = true;
                }
            }
            Poll::Pending => {
                trace.push("poll->pending".into());
                if info.ended {
                    bad("pending-after-end", trace);
                } else if closed[0] || closed[1] {
                    bad("pending-although-an-input-ended", trace);
                } else if delivered != pushed {
                    bad("item-withheld", trace);
                }
            }
        }
    };

    for _ in 0..depth {
        // enabled actions: 0 poll, then per open side push / close
        let mut acts: Vec<(u8, usize)> = vec![(0, 0)];
        for side in 0..2 {
            if tx[side].is_some() {
                acts.push((1, side));
                acts.push((2, side));
            }
        }
        let (a, side) = acts[ch.choose(acts.len())];
        match a {
            0 => {
                let r = poll_one(&mut s, &flag, &waker);
                armed = r.is_pending();
                on_poll(r, &tx, &pushed, &mut delivered, &mut info, &mut trace, out);
            }
            1 => {
                let id = (side as u32 + 1) * 100 + pushed[side];
                let _ = tx[side].as_ref().unwrap().send(id); // fails only after the merged stream has ended and dropped its inputs
                pushed[side] += 1;
                trace.push(format!("push{}", ["L", "R"][side]));
                if armed && !flag.0.load(Ordering::SeqCst) {
                    out.push(("C12/merge/pending-consumer-not-woken/item-pushed".into(), format!("steps={trace:?}")));
                    armed = false;
                }
            }
            _ => {
                tx[side] = None;
                pushed_at_close[side] = pushed;
                trace.push(format!("close{}", ["L", "R"][side]));
                if armed && !flag.0.load(Ordering::SeqCst) {
                    out.push(("C12/merge/pending-consumer-not-woken/input-ended".into(), format!("steps={trace:?}")));
                    armed = false;
                }
            }
        }
    }
    // final drain: poll until the stream stops yielding items
    for _ in 0..(pushed[0] + pushed[1] + 2) {
        let r = poll_one(&mut s, &flag, &waker);
        let stop = !matches!(r, Poll::Ready(Some(_)));
        on_poll(r, &tx, &pushed, &mut delivered, &mut info, &mut trace, out);
        if stop {
            break;
        }
    }
    if info.ended {
        // informational: items of the other input that were ready before the ended input was closed
        for side in 0..2 {
            let other = 1 - side;
            if tx[side].is_none() && delivered[side] == pushed[side] && delivered[other] < pushed_at_close[side][other] {
                info.other_ready_dropped = true;
            }
        }
        // stays ended, whatever arrives afterwards
        for side in 0..2 {
            if let Some(t) = tx[side].as_ref() {
                let _ = t.send((side as u32 + 1) * 100 + pushed[side]);
                pushed[side] += 1;
                trace.push(format!("push{}", ["L", "R"][side]));
            }
        }
        for _ in 0..2 {
            let r = poll_one(&mut s, &flag, &waker);
            on_poll(r, &tx, &pushed, &mut delivered, &mut info, &mut trace, out);
        }
    }
    (hash_of(&trace), info)
}

// =====================================================================================================
// Layer 3: forward_to — all interleavings of pushes, polls, source close, receiver drop
// =====================================================================================================

/// `variant` 0: real `UnboundedTx`, the harness holds (and may drop) the receiver; 1: scripted `Tx` whose
/// first choice is the number of the first failing send.
/// Oracle ("forward_to loses nothing before the first failed send"): after every quiescent poll everything
/// pushed so far (up to the first failed send) has arrived, in order, exactly once; the send that fails carries
/// the next item; the future completes only when the source ended or a send failed; a forwarder that returned
/// `Pending` is woken when the next item is pushed.
fn forward_exec(ch: &mut Chooser, variant: usize, depth: usize, out: &mut Vec<Viol>) -> (u64, bool) {
    let (src_tx, src_rx) = mpsc_unbounded::<u32>();
    let sh = Arc::new(Shared { t0: Instant::now(), log: Mutex::new(Log::default()), poke: Mutex::new(None) });
    let mut rx = None;
    let mut fail_at = usize::MAX;
    let mut fut: Pin<Box<dyn Future<Output = ()> + Send>> = if variant == 0 {
        let (tx, r) = mpsc_unbounded::<u32>();
        rx = Some(r);
        Box::pin(src_rx.forward_to(tx))
    } else {
        fail_at = ch.choose(4);
        Box::pin(src_rx.forward_to(NumTx { sh: sh.clone(), fail_at }))
    };
    let mut src = Some(src_tx);
    let mut pushed = 0u32;
    let mut received = 0u32; // variant 0: taken from the receiver; variant 1: successful sends
    let mut forwarded_at_drop: Option<u32> = None;
    let mut done = false;
    let mut stopped_after_failure = false;
    let mut trace: Vec<String> = Vec::new();
    let (flag, waker) = flag_waker();
    // the last poll returned Pending (the future holds the harness' waker, the flag is clear)
    let mut armed = false;

    for _ in 0..depth {
        let mut acts = vec![0u8];
        if src.is_some() {
            acts.push(1);
            acts.push(2);
        }
        if rx.is_some() {
            acts.push(3);
        }
        match acts[ch.choose(acts.len())] {
            0 => {
                if done {
                    trace.push("poll(done)".into());
                    continue;
                }
                let mut cx = Context::from_waker(&waker);
                let mut spins = 0;
                let r = loop {
                    flag.0.store(false, Ordering::SeqCst);
                    match fut.as_mut().poll(&mut cx) {
                        Poll::Ready(()) => break true,
                        Poll::Pending => {
                            if !flag.0.load(Ordering::SeqCst) {
                                break false;
                            }
                            spins += 1;
                            assert!(spins < 10_000, "forward livelock");
                        }
                    }
                };
                trace.push(format!("poll->{}", if r { "done" } else { "pending" }));
                armed = !r;
                let mut bad = |cause: &str, what: String| {
                    out.push((format!("C12/forward-to/{cause}"), format!("{what}; steps={trace:?}")));
                };
                // what arrived
                let mut failed = false;
                if variant == 0 {
                    if let Some(rcv) = rx.as_mut() {
                        while let Ok(x) = rcv.rx.try_recv() {
                            if x != received {
                                bad(if x < received { "duplicate-item" } else { "item-lost" }, format!("received {x}, expected {received}"));
                            }
                            received = x + 1;
                        }
                        if received != pushed {
                            bad("item-lost", format!("pushed {pushed}, arrived {received}"));
                        }
                    } else {
                        failed = pushed > forwarded_at_drop.unwrap();
                    }
                } else {
                    let g = sh.log.lock().unwrap();
                    let oks: Vec<u32> = g.sends.iter().take_while(|s| s.2).map(|s| if let Obs::Item(i) = s.1 { i } else { 0 }).collect();
                    let want: Vec<u32> = (0..pushed.min(fail_at as u32)).collect();
                    if oks != want {
                        bad("lost-before-failed-send", format!("successful sends {oks:?}, pushed before the first failing send {want:?}"));
                    }
                    received = oks.len() as u32;
                    if let Some(f) = g.sends.iter().find(|s| !s.2) {
                        failed = true;
                        if f.1 != Obs::Item(fail_at as u32) {
                            bad("lost-before-failed-send", format!("failed send carried {:?}, expected item {fail_at}", f.1));
                        }
                    }
                }
                if r {
                    done = true;
                    if src.is_some() && !failed {
                        bad("completed-without-failed-send", format!("source open, pushed {pushed}, arrived {received}"));
                    }
                }
                if failed && r {
                    stopped_after_failure = true;
                }
            }
            1 => {
                let _ = src.as_ref().unwrap().send(pushed);
                pushed += 1;
                trace.push("push".into());
                // a pending forwarder is woken by a new item (demanded only while no send can have failed yet)
                let no_failure_yet = if variant == 0 { rx.is_some() } else { (pushed as usize) <= fail_at };
                if armed && !done && no_failure_yet && !flag.0.load(Ordering::SeqCst) {
                    out.push(("C12/forward-to/pending-forwarder-not-woken/item-pushed".into(), format!("steps={trace:?}")));
                    armed = false;
                }
            }
            2 => {
                src = None;
                trace.push("close-source".into());
            }
            _ => {
                rx = None;
                forwarded_at_drop = Some(received);
                trace.push("drop-receiver".into());
            }
        }
    }
    (hash_of(&trace), stopped_after_failure)
}

/// Scripted `Tx` over plain numbers (layer 3).
#[derive(Clone)]
struct NumTx {
    sh: Arc<Shared>,
    fail_at: usize,
}
impl std::fmt::Debug for NumTx {
    fn fmt(&self, f: &mut std::fmt::Formatter<'_>) -> std::fmt::Result {
        write!(f, "NumTx(fail_at={})", self.fail_at)
    }
}
impl Tx for NumTx {
    type Item = u32;
    type Error = SendFail;
    fn send<Item: Into<u32>>(&self, item: Item) -> Result<(), SendFail> {
        let mut g = self.sh.log.lock().unwrap();
        let ok = g.sends.len() < self.fail_at;
        g.sends.push((0, Obs::Item(item.into()), ok));
        if ok { Ok(()) } else { Err(SendFail) }
    }
}

// =====================================================================================================
// Layer 4: barter-data's `DynamicStreams::init` arms (Binance connectors) against a scripted venue on loopback
// =====================================================================================================
//
// Every (exchange, kind) arm of `DynamicStreams::init` is its own copy of "init_market_stream(constant policy,
// re-wrapped subscriptions) -> tokio::spawn(stream.forward_to(channel of that exchange and kind))". The arms open
// WebSocket connections, so they can only be driven where a connector's URL can be pointed at loopback: the
// Binance connectors (`--cfg barter_rs_barter_rs_verif`, env BARTER_VERIF_BINANCE_WS_URL). Real sockets, real
// clock - therefore no wait is measured here, only what arrives at `DynamicStreams::select_trades(exchange)`.
//
// Script: connection 1 = confirm the subscription, trades 1, 2, a payload that is no trade (-> a non-terminal error
// item), trade 3, close; then one connection attempt that is dropped before the WebSocket handshake (a failed
// re-initialisation); connection 2 = confirm, trade 4, held open.
// Oracle (statement): trades 1,2,3 then 4 in order, exactly once; the non-terminal error is passed through between 2
// and 3 and does not end the connection (no notice before trade 3); exactly one notice, naming the arm's exchange,
// between trade 3 and trade 4 (the failed attempt adds none and delivers nothing). Error items caused by the venue
// closing connection 1 (after trade 3, before the notice) are accepted in any number.

const DYNAMIC_ARMS: [(ExchangeId, &str); 2] = [(ExchangeId::BinanceSpot, "spot"), (ExchangeId::BinanceFuturesUsd, "perpetual")];

fn dynamic_trade_json(futures: bool, id: u64) -> String {
    if futures {
        json!({"e": "trade", "E": 1649839266194u64 + id, "T": 1749354825200u64 + id, "s": "BTCUSDT", "t": id, "p": "10000.19", "q": "0.239000", "X": "MARKET", "m": true}).to_string()
    } else {
        json!({"e": "trade", "E": 1649324825173u64 + id, "s": "BTCUSDT", "t": id, "p": "10000.19", "q": "0.239000", "b": 10108767791u64, "a": 10108764858u64, "T": 1749354825200u64 + id, "m": false, "M": true}).to_string()
    }
}

/// Runs one arm; returns the trace of what arrived, or Err(machinery trouble).
fn dynamic_exec(arm: usize, out: &mut Vec<Viol>) -> Result<Vec<String>, String> {
    use barter_data::{streams::builder::dynamic::DynamicStreams, subscription::SubKind};
    use barter_instrument::instrument::market_data::MarketDataInstrument;
    use futures::SinkExt;
    let (exchange, kind_name) = DYNAMIC_ARMS[arm];
    let futures_arm = exchange == ExchangeId::BinanceFuturesUsd;
    let rt = tokio::runtime::Builder::new_current_thread().enable_all().build().map_err(|e| e.to_string())?;
    rt.block_on(async {
        let listener = tokio::net::TcpListener::bind("127.0.0.1:0").await.map_err(|e| format!("bind: {e}"))?;
        let port = listener.local_addr().map_err(|e| e.to_string())?.port();
        // SAFETY: single writer; the worker threads of the harness do not read the environment at this point.
        unsafe { std::env::set_var("BARTER_VERIF_BINANCE_WS_URL", format!("ws://127.0.0.1:{port}")) };
        let server = tokio::spawn(async move {
            let mut n = 0usize;
            loop {
                let (stream, _) = listener.accept().await.map_err(|e| format!("accept: {e}"))?;
                n += 1;
                if n == 2 {
                    drop(stream); // a failed re-initialisation attempt
                    continue;
                }
                let mut ws = tokio_tungstenite::accept_async(stream).await.map_err(|e| format!("ws accept: {e}"))?;
                let req = ws.next().await.ok_or("no subscribe request")?.map_err(|e| format!("ws read: {e}"))?;
                let req_text = req.into_text().map_err(|e| e.to_string())?.to_string();
                if !req_text.contains("btcusdt@trade") {
                    return Err(format!("unexpected subscribe request {req_text}"));
                }
                let text = |t: String| tokio_tungstenite::tungstenite::Message::text(t);
                ws.send(text(r#"{"result":null,"id":1}"#.to_string())).await.map_err(|e| e.to_string())?;
                if n == 1 {
                    for m in [dynamic_trade_json(futures_arm, 1), dynamic_trade_json(futures_arm, 2), r#"{"e":"trade","this":"is no trade"}"#.to_string(), dynamic_trade_json(futures_arm, 3)] {
                        ws.send(text(m)).await.map_err(|e| e.to_string())?;
                    }
                    let _ = ws.close(None).await;
                    while let Some(Ok(_)) = ws.next().await {}
                } else {
                    // (later connections, should the subject re-initialise more often than scripted, get trade 4 too)
                    let _ = ws.send(text(dynamic_trade_json(futures_arm, 4))).await;
                    while let Some(Ok(_)) = ws.next().await {}
                }
            }
            #[allow(unreachable_code)]
            Ok::<(), String>(())
        });
        let client = async {
            let kind = if futures_arm { MarketDataInstrumentKind::Perpetual } else { MarketDataInstrumentKind::Spot };
            let sub: Subscription<ExchangeId, MarketDataInstrument, SubKind> = Subscription::new(exchange, MarketDataInstrument::from(("btc", "usdt", kind)), SubKind::PublicTrades);
            let mut streams = tokio::time::timeout(Duration::from_secs(30), DynamicStreams::init([[sub]]))
                .await
                .map_err(|_| "DynamicStreams::init timed out".to_string())?
                .map_err(|e| format!("DynamicStreams::init failed (is the harness built with --cfg barter_rs_barter_rs_verif?): {e}"))?;
            let mut trades = streams.select_trades(exchange).ok_or("no trades stream for the arm's exchange")?;
            let mut trace: Vec<String> = Vec::new();
            let sig = |cause: &str| format!("C12/delivery/{cause}/DynamicStreams");
            // `expect`: the id of the next trade; notices seen so far
            let (mut expect, mut notices, mut errors_between_2_and_3) = (1u64, 0u32, 0u32);
            loop {
                let next = match tokio::time::timeout(Duration::from_secs(30), trades.next()).await {
                    Err(_) => {
                        // nothing for 30 s although the venue serves connections: what is missing?
                        let cause = if expect <= 3 { "lost-item" } else if notices == 0 { "lost-notice" } else { "lost-item" };
                        out.push((sig(cause), format!("{exchange} {kind_name}: nothing arrived for 30 s while waiting for trade {expect}; arrived {trace:?}")));
                        break;
                    }
                    Ok(None) => {
                        out.push(("C12/never-ends/stream-returned-none/DynamicStreams".into(), format!("{exchange} {kind_name}: the trades stream ended; arrived {trace:?}")));
                        break;
                    }
                    Ok(Some(e)) => e,
                };
                match next {
                    Event::Reconnecting(ex) => {
                        trace.push(format!("notice({ex})"));
                        notices += 1;
                        if ex != exchange {
                            out.push((sig("notice-with-wrong-origin"), format!("{exchange} {kind_name}: arrived {trace:?}")));
                            break;
                        }
                        if expect <= 3 {
                            let cause = if errors_between_2_and_3 > 0 { "notice-before-connection-end/after-recoverable-error" } else { "notice-before-connection-end" };
                            out.push((sig(cause), format!("{exchange} {kind_name}: a notice although connection 1 has not delivered trade {expect} yet; arrived {trace:?}")));
                            break;
                        }
                        if notices > 1 {
                            out.push((sig("spurious-notice"), format!("{exchange} {kind_name}: one connection ended, one attempt failed, {notices} notices; arrived {trace:?}")));
                            break;
                        }
                    }
                    Event::Item(Ok(ev)) => {
                        let id: u64 = ev.kind.id.parse().unwrap_or(u64::MAX);
                        trace.push(format!("trade({id})"));
                        if id != expect {
                            let cause = if id < expect { "duplicate-item" } else if expect == 4 && notices == 0 { "lost-notice" } else { "lost-item" };
                            out.push((sig(cause), format!("{exchange} {kind_name}: trade {id} arrived, the next one is {expect}; arrived {trace:?}")));
                            break;
                        }
                        if id == 3 && errors_between_2_and_3 == 0 {
                            out.push((sig("lost-recoverable-error"), format!("{exchange} {kind_name}: the payload between trades 2 and 3 is no trade, no error item was passed through; arrived {trace:?}")));
                            break;
                        }
                        if id == 4 && notices == 0 {
                            out.push((sig("lost-notice"), format!("{exchange} {kind_name}: trade 4 belongs to the second connection, no notice preceded it; arrived {trace:?}")));
                            break;
                        }
                        expect += 1;
                        if id == 4 {
                            break; // script complete
                        }
                    }
                    Event::Item(Err(e)) => {
                        trace.push(format!("error({})", if e.is_terminal() { "terminal" } else { "non-terminal" }));
                        if expect == 3 {
                            errors_between_2_and_3 += 1;
                        }
                    }
                }
                if trace.len() > 40 {
                    return Err(format!("runaway stream; arrived {trace:?}"));
                }
            }
            Ok::<_, String>(trace)
        };
        let trace = client.await;
        server.abort();
        trace
    })
}

// =====================================================================================================
// run / replay
// =====================================================================================================

const POLICIES: [(u64, u8, u64); 4] = [(1, 2, 4), (2, 3, 5), (3, 1, 3), (5, 2, 5)];

pub fn run(ctx: &Ctx) -> Outcome {
    let thorough = ctx.tier == crate::core::Tier::Thorough;

    // ---------------- layer 1 ----------------
    // The enumerated script space is the union of the blocks; a script that already fits an earlier block is
    // skipped in the later ones, so every (script, policy, timing, mode) is executed once.
    let p4: Vec<(u64, u8, u64)> = POLICIES.to_vec();
    let p6: Vec<(u64, u8, u64)> = POLICIES.iter().copied().chain([(2, 2, 3), (1, 3, 10)]).collect();
    let t3 = vec![(0u64, 0u64), (7, 0), (0, 3)];
    let t5 = vec![(0u64, 0u64), (7, 0), (0, 3), (7, 3), (2, 1)];
    let m4 = vec![Mode::Pass, Mode::Handler, Mode::ForwardChan, Mode::MergedPlain];
    let extra = 5usize;
    let blk = |n_max, l_max, policies: &[(u64, u8, u64)], timings: &[(u64, u64)], modes: &[Mode]| Block {
        n_max,
        l_max,
        policies: policies.to_vec(),
        timings: timings.to_vec(),
        modes: modes.to_vec(),
    };
    let blocks: Vec<Block> = if thorough {
        vec![
            blk(4, 2, &p6, &t5, &m4),
            blk(7, 1, &p6, &t5, &m4),
            blk(3, 3, &p4, &t3, &m4),
            blk(5, 2, &p4, &t3, &m4),
            blk(4, 3, &p4[..1], &[(7, 0)], &[Mode::Pass, Mode::ForwardChan]),
        ]
    } else {
        vec![
            blk(4, 2, &p4, &t3, &m4),
            blk(6, 1, &p4, &t3, &m4),
            blk(3, 3, &p4[..1], &[(7, 3)], &m4),
        ]
    };
    let tally = Tally {
        evals: AtomicU64::new(0),
        outputs: AtomicU64::new(0),
        attempts: AtomicU64::new(0),
        scripts: AtomicU64::new(0),
        distinct: Distinct::default(),
        samples: Samples::new(6),
        generic_sigs: Mutex::new(Default::default()),
    };
    let mk = |script: &Vec<Option<String>>, policy, (lat, pace), mode, fail_at| Case {
        layer: "reconnect".into(),
        policy,
        script: script.clone(),
        lat,
        pace,
        mode,
        fail_at,
        extra,
        twin: false,
    };

    // determinism self-check: a fixed sample of cases executed twice must give identical observations
    {
        let ws = words(2);
        let total = script_count(4, ws.len());
        for i in (0..total).step_by((total / 60).max(1) as usize) {
            let script = script_at(4, &ws, i);
            for mode in [Mode::Pass, Mode::ForwardChan, Mode::MergedPlain] {
                let c = mk(&script, POLICIES[1], (7, 3), mode, None);
                if execute(&c) != execute(&c) {
                    eprintln!("MACHINERY: C12 nondeterministic observation for {c:?}");
                    std::process::exit(2);
                }
            }
        }
    }

    let mut block_report = Vec::new();
    for (bi, b) in blocks.iter().enumerate() {
        let ws = words(b.l_max);
        let before = (tally.scripts.load(Ordering::Relaxed), tally.evals.load(Ordering::Relaxed));
        for n in 1..=b.n_max {
            let total = script_count(n, ws.len());
            (0..total).into_par_iter().for_each(|i| {
                let script = script_at(n, &ws, i);
                let wl = script.iter().flatten().map(|w| w.len()).max().unwrap_or(0);
                if blocks[..bi].iter().any(|e| n <= e.n_max && wl <= e.l_max) {
                    return; // already enumerated with an earlier block
                }
                tally.scripts.fetch_add(1, Ordering::Relaxed);
                for policy in &b.policies {
                    for timing in &b.timings {
                        for mode in &b.modes {
                            let c = mk(&script, *policy, *timing, *mode, None);
                            run_case(ctx, &c, &tally);
                        }
                    }
                }
            });
        }
        block_report.push(json!({
            "max_attempts": b.n_max, "max_word_len": b.l_max,
            "policies_(initial_ms,multiplier,max_ms)": b.policies, "timings_(init_latency_ms,pace_ms)": b.timings, "modes": b.modes,
            "new_scripts": tally.scripts.load(Ordering::Relaxed) - before.0,
            "executions": tally.evals.load(Ordering::Relaxed) - before.1,
        }));
    }
    // barter-data's own consumer composition (`init_market_stream`) over the scripted venue: its own (smaller) block
    let mb = if thorough { blk(4, 2, &p4, &t3, &[Mode::Market]) } else { blk(3, 2, &p4, &t3, &[Mode::Market]) };
    {
        let ws = words(mb.l_max);
        let before = (tally.scripts.load(Ordering::Relaxed), tally.evals.load(Ordering::Relaxed));
        for n in 1..=mb.n_max {
            (0..script_count(n, ws.len())).into_par_iter().for_each(|i| {
                let script = script_at(n, &ws, i);
                tally.scripts.fetch_add(1, Ordering::Relaxed);
                for policy in &mb.policies {
                    for timing in &mb.timings {
                        run_case(ctx, &mk(&script, *policy, *timing, Mode::Market, None), &tally);
                    }
                }
            });
        }
        block_report.push(json!({
            "max_attempts": mb.n_max, "max_word_len": mb.l_max,
            "policies_(initial_ms,multiplier,max_ms)": mb.policies, "timings_(init_latency_ms,pace_ms)": mb.timings, "modes": mb.modes,
            "scripts_(again,_for_this_mode)": tally.scripts.load(Ordering::Relaxed) - before.0,
            "executions": tally.evals.load(Ordering::Relaxed) - before.1,
        }));
    }

    // barter's account-stream composition (`ExecutionManager::init` over a scripted `ExecutionClient`): connections are
    // words over {I} (the account stream carries no error items), every policy, every timing
    {
        let ws: Vec<String> = (0..=if thorough { 3 } else { 2 }).map(|l| "I".repeat(l)).collect();
        let n_max = if thorough { 5 } else { 4 };
        let before = (tally.scripts.load(Ordering::Relaxed), tally.evals.load(Ordering::Relaxed));
        for n in 1..=n_max {
            (0..script_count(n, ws.len())).into_par_iter().for_each(|i| {
                let script = script_at(n, &ws, i);
                tally.scripts.fetch_add(1, Ordering::Relaxed);
                for policy in &p6 {
                    for timing in &t3 {
                        run_case(ctx, &mk(&script, *policy, *timing, Mode::Account, None), &tally);
                    }
                }
            });
        }
        block_report.push(json!({
            "max_attempts": n_max, "connection_words": ws,
            "policies_(initial_ms,multiplier,max_ms)": p6, "timings_(init_latency_ms,pace_ms)": t3, "modes": [Mode::Account],
            "scripts_(again,_for_this_mode)": tally.scripts.load(Ordering::Relaxed) - before.0,
            "executions": tally.evals.load(Ordering::Relaxed) - before.1,
        }));
    }
    // barter-data's public entry (`Streams::builder().subscribe(..).init()`, also added to `builder_multi()`): the
    // policy is the crate's constant; with and without a second `subscribe` for the same exchange
    let builder_policy = (STREAM_RECONNECTION_POLICY.backoff_ms_initial, STREAM_RECONNECTION_POLICY.backoff_multiplier, STREAM_RECONNECTION_POLICY.backoff_ms_max);
    {
        let ws = words(2);
        let n_max = if thorough { 3 } else { 2 };
        let before = (tally.scripts.load(Ordering::Relaxed), tally.evals.load(Ordering::Relaxed));
        let mut scripts: Vec<Vec<Option<String>>> = (1..=n_max).flat_map(|n| scripts_n(n, &ws)).collect();
        // + failures between two connections (the waits of the constant policy, reset after the success)
        scripts.push(vec![Some("IR".to_string()), None, None, Some("RI".to_string())]);
        scripts.push(vec![Some("T".to_string()), None, Some("".to_string()), None, None, Some("I".to_string())]);
        scripts.par_iter().for_each(|script| {
            tally.scripts.fetch_add(1, Ordering::Relaxed);
            for timing in &t3 {
                for mode in [Mode::Builder, Mode::MultiBuilder] {
                    for twin in [false, true] {
                        let mut c = mk(script, builder_policy, *timing, mode, None);
                        c.twin = twin;
                        run_case(ctx, &c, &tally);
                    }
                }
            }
        });
        block_report.push(json!({
            "max_attempts": n_max, "max_word_len": 2, "plus_scripts_with_failures": 2,
            "policies_(initial_ms,multiplier,max_ms)": [builder_policy], "timings_(init_latency_ms,pace_ms)": t3, "modes": [Mode::Builder, Mode::MultiBuilder],
            "second_subscribe_for_the_same_exchange": [false, true],
            "scripts_(again,_for_these_modes)": tally.scripts.load(Ordering::Relaxed) - before.0,
            "executions": tally.evals.load(Ordering::Relaxed) - before.1,
        }));
    }

    // Long runs (length-dependent behaviour: counters, exponent arithmetic, attempt limits, buffers): long failure
    // runs (the wait must stay at the maximum, the stream must not give up), many connections, one long connection.
    let long_before = tally.evals.load(Ordering::Relaxed);
    let long_cases: Vec<Case> = {
        let mut v = Vec::new();
        let all5 = [Mode::Pass, Mode::Handler, Mode::ForwardChan, Mode::MergedPlain, Mode::Market, Mode::Account];
        let big: [(u64, u8, u64); 2] = [(125, 2, 60_000), (40_000, 2, 100_000)];
        for k in if thorough { vec![70usize, 300, 1100] } else { vec![70, 300] } {
            let mut script = vec![Some("I".to_string())];
            script.extend(std::iter::repeat(None).take(k));
            script.push(Some("I".to_string()));
            for policy in p6.iter().chain(&big) {
                for timing in [(0u64, 0u64), (7, 0)] {
                    for mode in all5 {
                        // (the side channel of MergedPlain ticks every 4 virtual ms: small policies only)
                        if mode == Mode::MergedPlain && policy.2 > 10 {
                            continue;
                        }
                        v.push(mk(&script, *policy, timing, mode, None));
                    }
                }
            }
        }
        // many connections with failures in between
        let many: Vec<Option<String>> = (0..if thorough { 1200 } else { 300 })
            .map(|i| match i % 8 {
                0 | 7 => Some("I"),
                1 => Some(""),
                3 => Some("RI"),
                4 => Some("IT"),
                _ => None,
            })
            .map(|w| w.map(str::to_string))
            .chain([Some("I".to_string())])
            .collect();
        // one long connection: an item stream with a recoverable error every 97 symbols, with and without a
        // terminal error (followed by symbols that must not be delivered) at the end
        let long_word: String = (0..if thorough { 6000 } else { 1500 }).map(|p| if p % 97 == 96 { 'R' } else { 'I' }).collect();
        for script in [many, vec![Some(long_word.clone()), Some("I".to_string())], vec![Some(format!("{long_word}TIRI")), Some("I".to_string())]] {
            for policy in &p4[..2] {
                for timing in [(0u64, 0u64), (2, 1)] {
                    for mode in all5 {
                        // (account connections are words over I)
                        if mode == Mode::Account && script.iter().flatten().any(|w| w.bytes().any(|b| b != b'I')) {
                            continue;
                        }
                        v.push(mk(&script, *policy, timing, mode, None));
                    }
                }
            }
        }
        // a policy whose waits exceed 2^32 ms (the configured waits are u64 milliseconds); few failures only: the
        // virtual clock's timer wheel spans 2^36 ms
        for mode in [Mode::Pass, Mode::Handler, Mode::ForwardChan, Mode::Market, Mode::Account] {
            let script = vec![Some("I".to_string()), None, None, None, Some("I".to_string())];
            v.push(mk(&script, (2_500_000_000, 2, 4_500_000_000), (7, 0), mode, None));
        }
        // the builder path through a long failure run (its constant policy reaches the 60 s cap after 10 failures)
        for mode in [Mode::Builder, Mode::MultiBuilder] {
            let mut script = vec![Some("I".to_string())];
            script.extend(std::iter::repeat(None).take(70));
            script.push(Some("I".to_string()));
            v.push(mk(&script, builder_policy, (7, 0), mode, None));
        }
        v
    };
    // (generic compositions first, then `Market`: see `run_case`)
    long_cases.par_iter().filter(|c| composition_suffix(c.mode).is_none()).for_each(|c| run_case(ctx, c, &tally));
    long_cases.par_iter().filter(|c| composition_suffix(c.mode).is_some()).for_each(|c| run_case(ctx, c, &tally));
    let long_execs = tally.evals.load(Ordering::Relaxed) - long_before;

    for (script, policy, timing, mode) in [
        (vec![Some("IR".to_string()), None, None, Some("ITI".to_string())], POLICIES[0], (7u64, 0u64), Mode::Pass),
        (vec![Some("RI".to_string()), Some("".to_string()), None, Some("T".to_string())], POLICIES[1], (0, 3), Mode::Handler),
        (vec![Some("I".to_string()), None, None, None, Some("II".to_string())], POLICIES[3], (7, 0), Mode::ForwardChan),
    ] {
        let c = mk(&script, policy, timing, mode, None);
        let o = execute(&c);
        tally.samples.offer(|| json!({"case": c, "outputs_(ms,event)": format!("{:?}", o.outputs), "init_calls": format!("{:?}", o.calls), "handler_calls": format!("{:?}", o.handled)}));
    }
    let reconnect_main = tally.evals.load(Ordering::Relaxed);

    // forward_to with a transmitter that starts failing at every possible position
    let fs_bound = if thorough { (3usize, 3usize) } else { (3, 2) };
    let ws = words(fs_bound.1);
    let fs_scripts: Vec<Vec<Option<String>>> = (1..=fs_bound.0).flat_map(|n| scripts_n(n, &ws)).collect();
    fs_scripts.par_iter().for_each(|script| {
        let probe = mk(script, POLICIES[0], (0, 0), Mode::ForwardScript, None);
        let total = expected(&probe, false).0.len();
        for fail_at in 0..=total {
            for timing in [(0u64, 0u64), (7, 3)] {
                let c = mk(script, POLICIES[0], timing, Mode::ForwardScript, Some(fail_at));
                run_case(ctx, &c, &tally);
            }
        }
    });
    let reconnect_all = tally.evals.load(Ordering::Relaxed);

    // ---------------- layer 2: merge ----------------
    let merge_depth = ctx.tier.pick(9usize, 11usize);
    let merge_distinct = Distinct::default();
    let merge_dropped = AtomicU64::new(0);
    let merge_ended = AtomicU64::new(0);
    let mut merge_stats = Vec::new();
    // (depth bound iterated 1, 2, ... so that the retained counter-example is the shortest)
    for (variant, merge_depth) in (0..2usize).flat_map(|v| (1..=merge_depth).map(move |d| (v, d))) {
        let st = choice::explore(None, |ch| {
            let mut out = Vec::new();
            let (h, info) = merge_exec(ch, variant, merge_depth, &mut out);
            merge_distinct.add_hash(h);
            if info.other_ready_dropped {
                merge_dropped.fetch_add(1, Ordering::Relaxed);
            }
            if info.ended {
                merge_ended.fetch_add(1, Ordering::Relaxed);
            }
            for (sig, detail) in out {
                ctx.violate(sig, detail, json!({"layer": "merge", "variant": variant, "depth": merge_depth, "choices": ch.choices()}));
            }
        });
        merge_stats.push(json!({"variant": (["UnboundedRx::into_stream", "UnboundedRx"][variant]), "schedules": st.executions, "choice_points": st.choice_points, "depth": merge_depth}));
    }
    let merge_execs: u64 = merge_stats.iter().map(|s| s["schedules"].as_u64().unwrap()).sum();

    // ---------------- layer 3: forward_to ----------------
    let fwd_depth = ctx.tier.pick(10usize, 12usize);
    let fwd_distinct = Distinct::default();
    let fwd_stopped = AtomicU64::new(0);
    let mut fwd_stats = Vec::new();
    for (variant, fwd_depth) in (0..2usize).flat_map(|v| (1..=fwd_depth).map(move |d| (v, d))) {
        let st = choice::explore(None, |ch| {
            let mut out = Vec::new();
            let (h, stopped) = forward_exec(ch, variant, fwd_depth, &mut out);
            fwd_distinct.add_hash(h);
            if stopped {
                fwd_stopped.fetch_add(1, Ordering::Relaxed);
            }
            for (sig, detail) in out {
                ctx.violate(sig, detail, json!({"layer": "forward", "variant": variant, "depth": fwd_depth, "choices": ch.choices()}));
            }
        });
        fwd_stats.push(json!({"variant": (["UnboundedTx", "scripted Tx failing from send f in 0..=3"][variant]), "schedules": st.executions, "choice_points": st.choice_points, "depth": fwd_depth}));
    }
    let fwd_execs: u64 = fwd_stats.iter().map(|s| s["schedules"].as_u64().unwrap()).sum();

    // ---------------- layer 4: DynamicStreams arms on loopback ----------------
    let mut dynamic_traces = Vec::new();
    for arm in 0..DYNAMIC_ARMS.len() {
        let mut out = Vec::new();
        match dynamic_exec(arm, &mut out) {
            Ok(trace) => dynamic_traces.push(json!({"arm": format!("{} PublicTrades", DYNAMIC_ARMS[arm].0), "arrived": trace})),
            // a loopback layer that cannot complete is a machinery failure - unless violations were already recorded
            Err(e) if ctx.violations.len() > 0 || !out.is_empty() => dynamic_traces.push(json!({"arm": format!("{} PublicTrades", DYNAMIC_ARMS[arm].0), "not_completed": e})),
            Err(e) => {
                eprintln!("MACHINERY: C12 DynamicStreams loopback layer failed: {e}");
                std::process::exit(2);
            }
        }
        for (sig, detail) in out {
            ctx.violate(sig, detail, json!({"layer": "dynamic", "arm": arm}));
        }
    }
    let dynamic_execs = DYNAMIC_ARMS.len() as u64;

    let distinct = tally.distinct.len() + merge_distinct.len() + fwd_distinct.len();
    Outcome {
        level: "exploration",
        coverage: json!({
            "evaluations": reconnect_all + merge_execs + fwd_execs + dynamic_execs,
            "dynamic_streams_loopback": {
                "what": "real DynamicStreams::init arms (BinanceSpot PublicTrades, BinanceFuturesUsd PublicTrades) against a scripted venue on loopback, real sockets and clock (no wait is measured): connection 1 = trades 1,2, a payload that is no trade, trade 3, close; one attempt dropped before the handshake; connection 2 = trade 4; read at DynamicStreams::select_trades",
                "executions": dynamic_execs,
                "arrived": dynamic_traces,
            },
            "distinct_nontrivial": distinct,
            "exhaustive": true,
            "rule": "E-ENV: every connection script within the bounds x backoff policy x timing x observation mode executed on the real init_reconnecting_stream/with_reconnect_backoff/with_termination_on_error/with_reconnection_events(/with_error_handler/forward_to) composition - and on barter-data's own init_market_stream over a scripted Connector/MarketStream, on barter's ExecutionManager::init account stream over a scripted ExecutionClient, and on barter-data's StreamBuilder / MultiStreamBuilder (spawned forward_to into the exchange channel, read at Streams::select_all) - under a paused tokio clock (subject polled by hand with the harness' waker; the virtual clock jumps from timer deadline to timer deadline; every output and init call stamped), compared with the trace the statement allows; all interleavings of push/close/poll for merge and of push/close/poll/drop-receiver for forward_to",
            "reconnect": {
                "scripts": tally.scripts.load(Ordering::Relaxed),
                "blocks": block_report,
                "failing_attempts_observed_after_script": extra,
                "long_runs": {
                    "executions": long_execs,
                    "what": "[ok, k failures, ok] for k in 70, 300 (thorough: + 1100) x 8 policies incl. (125,2,60000) and (40000,2,100000) x init latency 0/7 x 6 modes (incl. Account); [ok, 3 failures, ok] with the policy (2500000000,2,4500000000) whose waits exceed 2^32 ms x 5 modes; [ok, 70 failures, ok] through StreamBuilder / MultiStreamBuilder; 300 (1200) connections with failures in between; one connection of 1500 (6000) symbols with and without a terminal error - x 2 policies x 2 timings x 5 modes",
                },
                "executions_main": reconnect_main,
                "executions_forward_failing_tx": reconnect_all - reconnect_main,
                "forward_failing_tx_bounds_(max_attempts,max_word_len)": [fs_bound.0, fs_bound.1],
                "outputs_checked": tally.outputs.load(Ordering::Relaxed),
                "init_attempts_observed": tally.attempts.load(Ordering::Relaxed),
                "distinct_observations": tally.distinct.len(),
            },
            "merge": {
                "per_variant": merge_stats,
                "distinct_traces": merge_distinct.len(),
                "schedules_in_which_merged_stream_ended": merge_ended.load(Ordering::Relaxed),
                "informational_schedules_where_ready_items_of_other_input_were_not_delivered_at_end": merge_dropped.load(Ordering::Relaxed),
            },
            "forward_to": {
                "per_variant": fwd_stats,
                "distinct_traces": fwd_distinct.len(),
                "informational_schedules_where_future_completed_after_failed_send": fwd_stopped.load(Ordering::Relaxed),
            },
            "samples": tally.samples.take(),
        }),
        assumptions: vec![
            "the first connection attempt succeeds (init_reconnecting_stream returns Err otherwise; the statement speaks about re-initialisation)".into(),
            "backoff policies have 1 <= initial <= max and multiplier >= 1; waits are compared exactly in virtual milliseconds".into(),
            "connections are finite words over {item, recoverable error, terminal error} followed by end-of-stream; all attempts after the script fail".into(),
            "the statement is silent on (a) whether the terminal error itself is passed on, (b) the delay between a dropped connection and the next attempt (the observation allows up to the configured maximum backoff per connection before it reports missing progress), (c) ready items of the other merge input when one input ends, (d) whether forward_to stops after a failed send: all accepted, (c) and (d) counted as informational".into(),
            "merge / forward_to inputs are barter_integration mpsc_unbounded channels; a 'poll' is repeated while the subject wakes itself; wake-ups are synchronous with the push / close that causes them (no runtime is involved in layers 2 and 3)".into(),
            "Account mode: the connection the manager initialises is the account snapshot followed by the account stream, so the snapshot is the first item of every connection; an attempt is one account_stream call and one account_snapshot call in either order or concurrently; a failing attempt fails in account_stream (odd attempts) or in account_snapshot (even attempts); account connections carry no error items; the notice names the ExchangeId of the instrument map".into(),
            "Builder modes: the configured policy is the crate's constant STREAM_RECONNECTION_POLICY; the reconnecting stream runs in the task the builder spawns (on the paused current-thread runtime), the harness reads the exchange channel; the second subscription's connection yields an item every 50 virtual ms for longer than the observation lasts (errors and notices name only the exchange and could not be attributed, so it has none)".into(),
            "DynamicStreams layer: only the arms of connectors whose URL can be pointed at loopback (Binance, cfg hook) and that need no REST snapshot are driven (2 of 21); real sockets and clock, so only order / multiplicity of what arrives is judged; error items caused by the venue closing a connection are accepted in any number".into(),
            "Market mode: which DataErrors are terminal is not part of the statement - the real DataError::is_terminal is asked about the two errors the script symbols are rendered as (Socket, InvalidSequence); a rule broken in Market mode only is reported with the suffix /init_market_stream".into(),
        ],
    }
}

pub fn replay(ctx: &Ctx, case: &Value) {
    match case["layer"].as_str().unwrap_or("") {
        "reconnect" => {
            let c: Case = serde_json::from_value(case.clone()).expect("C12 reconnect case");
            let o = execute(&c);
            println!("observed outputs: {:?}\ninit calls: {:?}\nhandler: {:?}\nsends: {:?}\nended: {:?}", o.outputs, o.calls, o.handled, o.sends, o.ended);
            for (sig, detail) in judge(&c, &o) {
                ctx.violate(sig, detail, case.clone());
            }
        }
        layer @ ("merge" | "forward") => {
            let variant = case["variant"].as_u64().unwrap_or(0) as usize;
            let depth = case["depth"].as_u64().unwrap_or(0) as usize;
            let prefix: Vec<usize> = case["choices"].as_array().map(|a| a.iter().map(|x| x.as_u64().unwrap() as usize).collect()).unwrap_or_default();
            let mut ch = Chooser::new(prefix);
            let mut out = Vec::new();
            if layer == "merge" {
                merge_exec(&mut ch, variant, depth, &mut out);
            } else {
                forward_exec(&mut ch, variant, depth, &mut out);
            }
            for (sig, detail) in out {
                ctx.violate(sig, detail, case.clone());
            }
        }
        "dynamic" => {
            let arm = case["arm"].as_u64().unwrap_or(0) as usize;
            let mut out = Vec::new();
            match dynamic_exec(arm, &mut out) {
                Ok(trace) => println!("arrived: {trace:?}"),
                Err(e) if !out.is_empty() => println!("not completed: {e}"),
                Err(e) => {
                    eprintln!("MACHINERY: {e}");
                    std::process::exit(2);
                }
            }
            for (sig, detail) in out {
                ctx.violate(sig, detail, case.clone());
            }
        }
        other => {
            eprintln!("MACHINERY: unknown C12 layer {other:?}");
            std::process::exit(2);
        }
    }
}
