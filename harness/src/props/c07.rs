//! C07 — Every execution request is answered exactly once (response or timeout).
//!
//! E-ENV. Subject: the real `ExecutionManager::new(request_stream, T, response_tx, Arc<ScriptClient>,
//! indexer).run()`, polled manually on a paused current-thread tokio runtime. The harness owns the
//! request channel, the response channel, the clock and every client response future (oneshots).
//!
//! One execution = one *batch* of n requests (kind open/cancel x client order id, colliding cids
//! between an open and a cancel, two instruments) + one *schedule*, a sequence of environment
//! choices drawn with the `choice` explorer at the instants of a small virtual time line:
//!   * hand the next request (or a burst of two) to the manager – only up to `deliver_until`,
//!   * complete the client future of any handed request with one of its behaviours (Ok / Err /
//!     fully-filled) – before, exactly at, or after its deadline, in any order relative to the others,
//!     also after its timeout has already been reported (late response),
//!   * advance the clock to the next instant; when a pending request's deadline is exactly that instant
//!     the environment also chooses whether the manager runs before or after the next action (the only
//!     place where "response or timeout" is a legitimate race),
//!   * finally: `Shutdown` or closing the request channel.
//! After every action the manager is polled to quiescence and the response channel is drained.
//!
//! Oracle (from the statement), evaluated per accepted request at the end of the execution
//! (= last instant + 2T, far beyond every deadline):
//!   R-answer       exactly one account event for (request kind, cid): the client's response if it was
//!                  completed strictly before `handed + T`, a timeout failure if later / never, either
//!                  – but one – if completed exactly at the deadline. ("never both, never neither")
//!   R-attribution  the event carries the request's exchange index, instrument index, strategy, cid
//!                  (and for opens side/price/quantity/kind/time-in-force).
//!   R-content      a response event carries the client's own answer (Ok -> open / fully filled,
//!                  Err -> the client's error, indexed).
//!   R-unsolicited  no account event for a (kind, cid) that was never requested.
//!
//! Repeated requests ("repeat" plans): batches in which the same (kind, cid) occurs two or more times –
//! the same cancel / open re-issued after the first one was answered, after it timed out (these plans
//! keep handing requests over beyond the first deadline) or while it is still outstanding. The
//! statement speaks about every *accepted request*, so every request INSTANCE needs exactly one answer;
//! it neither demands nor forbids that the manager forwards a repeated request to the client. Events
//! of instances of one (kind, cid) can be indistinguishable by key, therefore they are matched per
//! (kind, cid) group:
//!   * an event that echoes something only one instance can have produced is attributed to exactly
//!     that instance: the scripted client's answer carries the instance number (order id `xid-<i>` /
//!     exchange time in an Ok answer, `#<i>` in the rejection text), an open event echoes the
//!     request's side/price/quantity (distinct per instance);
//!   * the remaining events (cancel timeouts carry nothing but the key) are distributed over the
//!     instances that still lack an answer such that as many instances as possible get an answer of a
//!     class their expectation allows (strict expectations first, then "either at the deadline") –
//!     i.e. the check is on the multiset of answer classes of the group; no violation is reported
//!     when some distribution satisfies every instance.
//! Violations of R-answer in such a group are reported as `C07/answer/repeated-request/...`.
//!
//! Soundness correction (red-team round): the statement quantifies over the requests the manager ACCEPTS and keys
//! the answer on the client order id. A request for a (kind, cid) that is still OUTSTANDING at the manager (an
//! earlier instance was forwarded to the client and was neither answered nor timed out when this one was handed
//! over) need not be accepted: if the manager never calls the client for it, it may stay without an event of its
//! own (coalesced with the outstanding request, whose single answer resolves the order) or be refused at once
//! with one failure event (not compared with any client answer). Everything else is unchanged: an instance handed
//! over after the earlier one was answered or timed out must be answered; an instance that was forwarded must be
//! answered; a request with another cid is never excused. Client calls are attributed to instances by content AND
//! by the hand-over after which they were made. Where such a request meets the due timeout of its twin in one
//! instant, select!'s start branch decides which the manager sees first - both outcomes are allowed, and the
//! determinism self-check does not count such a schedule as a machinery failure.
//!
//! Further dimensions (hardening rounds):
//!   * builder path (cfg 2, 3): the same schedules with the subject built by `ExecutionBuilder::add_live` for two
//!     exchanges -> `ExecutionManager::init` (account stream + snapshot, response channel merged with the
//!     account stream) -> `run` + `forward_to`; requests are routed through the `MultiExchangeTxMap`, events read
//!     from the merged multi-exchange account channel. The request timeout handed to the builder is the T of
//!     the oracle, so a timeout changed on the way, a lost / duplicated event in the merge or a wrong route shows.
//!   * a request timeout with whole seconds and a sub-second part (T = 1.5 s).
//!   * opens answered PARTLY filled (0 < filled < quantity): the client's own answer is an open order with
//!     that filled quantity, not a fully filled one.
//!   * "same terms" plans: every request names the same instrument and strategy and carries identical order
//!     terms, so the requests differ in nothing but kind and client order id (the only thing the statement keys
//!     answers on).
//!   * load layer: every number n <= bound of requests outstanding TOGETHER (all opens / all cancels /
//!     alternating, pairwise distinct cids; handed over one by one or all before the manager runs), the client
//!     answering newest-first, all at once (the manager finds every answer ready in one poll), never (n timeouts
//!     due at one instant) or mixed - "independent of how many requests are outstanding". Scripted schedules,
//!     same oracle.
//!
//! Second hardening round:
//!   * builder path: the exchange that is NOT under test is added with a different request timeout (3T + 70 ms);
//!     a builder that hands one exchange's timeout to another one shows as a timeout at the wrong instant.
//!   * request timeouts far outside the everyday range: T = 36 h (a clamp from above is invisible with T <= 1.5 s)
//!     and T = 2 ms (a clamp from below), direct and through the builder.
//!   * error classes: the client may also answer with a connectivity-class error (`OrderError::Connectivity(Socket)`,
//!     not the timeout failure): it is the client's own answer like any other and must be forwarded as such.
//!   * builder path with an exchange WITHOUT execution manager placed before the linked ones (cfg 4): the request
//!     links are found by exchange index, so the position of every link in the built map matters.
//!
//! Determinism self-check: a fixed subset of the schedules is executed twice. Different (each time
//! allowed) observations are a machinery failure (exit 2) when the run finds no violation at all;
//! when it does, the subject itself is schedule-dependent beyond what the harness controls and the
//! violations stand (decided at the end of `run`, so that the verdict is not cut short).
//!
//! The order of events is not part of the property and is ignored (this also makes the verdict
//! independent of `select!`'s random start branch). When a timeout failure is emitted is not bounded
//! by the statement beyond "eventually", hence the generous horizon.

use crate::core::{Ctx, Distinct, Outcome, Samples, hash_of};
use crate::explore::{
    choice::{self, Chooser},
    env::{flag_waker, paused_rt, poll_quiesce},
};
use barter::{
    engine::execution_tx::{ExecutionTxMap, MultiExchangeTxMap},
    execution::{
        AccountStreamEvent,
        builder::{ExecutionBuild, ExecutionBuilder},
        manager::ExecutionManager,
        request::ExecutionRequest,
    },
};
use barter_data::streams::reconnect::Event as RcEvent;
use barter_execution::{
    AccountEvent, AccountEventKind, UnindexedAccountEvent, UnindexedAccountSnapshot,
    balance::AssetBalance,
    client::ExecutionClient,
    error::{ApiError, ConnectivityError, OrderError, UnindexedClientError, UnindexedOrderError},
    indexer::AccountEventIndexer,
    map::{ExecutionInstrumentMap, generate_execution_instrument_map},
    order::{
        Order, OrderEvent, OrderKey, OrderKind, TimeInForce,
        id::{ClientOrderId, OrderId, StrategyId},
        request::{
            OrderRequestCancel, OrderRequestOpen, RequestCancel, RequestOpen,
            UnindexedOrderResponseCancel,
        },
        state::{ActiveOrderState, Cancelled, InactiveOrderState, Open, OrderState},
    },
    trade::Trade,
};
use barter_instrument::{
    Keyed, Side,
    asset::{AssetIndex, QuoteAsset, name::AssetNameExchange},
    exchange::{ExchangeId, ExchangeIndex},
    index::IndexedInstruments,
    instrument::{InstrumentIndex, name::{InstrumentNameExchange, InstrumentNameInternal}},
};
use barter_integration::{
    channel::{Tx, mpsc_unbounded},
    snapshot::Snapshot,
};
use chrono::{DateTime, Utc};
use rayon::prelude::*;
use rust_decimal::Decimal;
use serde::{Deserialize, Serialize};
use serde_json::{Value, json};
use std::{
    future::Future,
    panic::{AssertUnwindSafe, catch_unwind},
    sync::{
        Arc, Mutex,
        atomic::{AtomicU64, Ordering},
    },
    task::Poll,
    time::Duration,
};
use tokio::sync::oneshot;

use super::common::{spot, t_plus};

// ------------------------------------------------------------------------------------------------
// batch alphabet
// ------------------------------------------------------------------------------------------------

#[derive(Debug, Clone, Copy, PartialEq, Eq, Hash, PartialOrd, Ord, Serialize, Deserialize)]
pub enum Kind {
    Open,
    Cancel,
}
impl Kind {
    fn s(&self) -> &'static str {
        match self {
            Kind::Open => "open",
            Kind::Cancel => "cancel",
        }
    }
}

/// One request of a batch: kind + cid label (0='A', 1='B', ...). Everything else is derived from the
/// label (instrument, strategy) and the position in the batch (side, price, quantity, ...), so that
/// every request of a batch differs from every other one in some echoed field.
#[derive(Debug, Clone, Copy, PartialEq, Eq, Hash, Serialize, Deserialize)]
pub struct Req {
    pub kind: Kind,
    pub cid: u8,
}

/// What the scripted client answers.
#[derive(Debug, Clone, Copy, PartialEq, Eq, Hash, PartialOrd, Ord, Serialize, Deserialize)]
pub enum Beh {
    Ok,
    Err,
    /// open only: Ok with filled_quantity == quantity
    Filled,
    /// open only: Ok with 0 < filled_quantity < quantity (half of it)
    Partial,
    /// Err of the connectivity class (a socket error of the client's transport - not the timeout failure)
    ErrConn,
    /// API rejection that names an asset which is NOT one of the assets configured for the exchange (a fee asset,
    /// say): the indexer cannot translate it. It still is the client's answer to the request.
    ErrForeign,
}

/// Bounds of one exploration run (recorded in the case so that a replay rebuilds the same choice tree).
#[derive(Debug, Clone, PartialEq, Serialize, Deserialize)]
pub struct Params {
    /// request timeout T [ms]
    pub timeout_ms: u64,
    /// the virtual instants [ms] an execution steps through
    pub instants: Vec<u64>,
    /// requests are handed to the manager only at instants <= this
    pub deliver_until: u64,
    /// allow handing two requests at once (without running the manager in between)
    pub burst: bool,
    /// include the fully-filled behaviour for opens
    pub filled: bool,
    /// include the partially-filled behaviour for opens (only together with `filled`)
    #[serde(default)]
    pub partial: bool,
    /// all requests of the batch carry identical terms (instrument, strategy, side, price, quantity, kind,
    /// time in force / no order id): only kind and client order id tell them apart (not for repeat plans)
    #[serde(default)]
    pub same_terms: bool,
    /// the client may also answer with a connectivity-class error
    #[serde(default)]
    pub err_classes: bool,
}

/// which exchange the manager serves: 0 = first exchange of a real two-exchange `IndexedInstruments`
/// (map generated by the real `generate_execution_instrument_map`), 1 = exchange index 1 with a map
/// built through `ExecutionInstrumentMap::new` (instrument indices 0,1), so that a constant or
/// foreign exchange index in an answer is observable. 2 / 3 = the builder path (see `build_subject`):
/// `ExecutionBuilder::add_live` x 2 -> `ExecutionManager::init` -> `run` + `forward_to`, the manager under
/// test serving BinanceSpot (exchange index 0, instruments 0, 1) / Kraken (exchange index 1, instruments 2, 3).
/// 4 = like 3, but the instrument set starts with an exchange (BinanceFuturesUsd, sorts first) for which NO execution manager is added:
/// the manager under test serves Kraken as exchange index 2 (instruments 3, 4; exchanges are indexed in `ExchangeId` order) behind an unlinked exchange.
/// 5 = like 3, but BinanceSpot has ONE instrument only: Kraken's instruments carry the engine-wide indices 1, 2 while they sit at
/// positions 0, 1 of the manager's own map - index 1 is in range of the local map but names a different position, so a
/// positional ("fast path") translation with a scan as fall-back answers about the wrong instrument (seeded change C07_4).
type Cfg = u8;

/// `repeats == false`: cid labels in first-occurrence order (restricted growth), (kind, cid) pairwise
/// distinct. `repeats == true`: the complement – every such batch in which at least one (kind, cid)
/// occurs twice or more (a request for an already used client order id is issued again).
fn batches(n: usize, repeats: bool) -> Vec<Vec<Req>> {
    fn rec(n: usize, repeats: bool, cur: &mut Vec<Req>, out: &mut Vec<Vec<Req>>) {
        if cur.len() == n {
            let has_repeat = (0..n).any(|i| cur[..i].contains(&cur[i]));
            if has_repeat == repeats {
                out.push(cur.clone());
            }
            return;
        }
        let max_label = cur.iter().map(|r| r.cid + 1).max().unwrap_or(0);
        for cid in 0..=max_label {
            for kind in [Kind::Open, Kind::Cancel] {
                let r = Req { kind, cid };
                if !repeats && cur.contains(&r) {
                    continue;
                }
                cur.push(r);
                rec(n, repeats, cur, out);
                cur.pop();
            }
        }
    }
    let mut out = Vec::new();
    rec(n, repeats, &mut Vec::new(), &mut out);
    out
}
fn all_batches(n: usize) -> Vec<Vec<Req>> {
    batches(n, false)
}

// ------------------------------------------------------------------------------------------------
// scripted client: every open/cancel call is recorded and answered by the harness through a oneshot
// ------------------------------------------------------------------------------------------------

type OpenResp = Order<ExchangeId, InstrumentNameExchange, Result<Open, UnindexedOrderError>>;

enum PendingTx {
    Open(oneshot::Sender<OpenResp>),
    Cancel(oneshot::Sender<UnindexedOrderResponseCancel>),
}

struct Call {
    kind: Kind,
    key: OrderKey<ExchangeId, InstrumentNameExchange>,
    open: Option<RequestOpen>,
    cancel: Option<RequestCancel>,
    tx: Option<PendingTx>,
    /// number of requests handed over when the client was called (see `ScriptClient::epoch`)
    epoch: usize,
}

#[derive(Clone, Default)]
struct ScriptClient {
    calls: Arc<Mutex<Vec<Call>>>,
    /// number of requests of the batch handed over so far (set by `Sim::hand`): a call made while it reads e
    /// belongs to an instance whose hand-over ended with e requests handed (the manager runs after every hand-over)
    epoch: Arc<std::sync::atomic::AtomicUsize>,
}

fn owned_key(k: &OrderKey<ExchangeId, &InstrumentNameExchange>) -> OrderKey<ExchangeId, InstrumentNameExchange> {
    OrderKey {
        exchange: k.exchange,
        instrument: k.instrument.clone(),
        strategy: k.strategy.clone(),
        cid: k.cid.clone(),
    }
}

impl ExecutionClient for ScriptClient {
    const EXCHANGE: ExchangeId = ExchangeId::Mock;
    type Config = ();
    type AccountStream = futures::stream::Empty<UnindexedAccountEvent>;

    fn new(_: ()) -> Self {
        Self::default()
    }

    async fn account_snapshot(
        &self,
        _: &[AssetNameExchange],
        _: &[InstrumentNameExchange],
    ) -> Result<UnindexedAccountSnapshot, UnindexedClientError> {
        Err(UnindexedClientError::AccountSnapshot("script".into()))
    }

    async fn account_stream(
        &self,
        _: &[AssetNameExchange],
        _: &[InstrumentNameExchange],
    ) -> Result<Self::AccountStream, UnindexedClientError> {
        Ok(futures::stream::empty())
    }

    fn cancel_order(
        &self,
        request: OrderRequestCancel<ExchangeId, &InstrumentNameExchange>,
    ) -> impl Future<Output = UnindexedOrderResponseCancel> + Send {
        let (tx, rx) = oneshot::channel();
        self.calls.lock().unwrap().push(Call {
            kind: Kind::Cancel,
            key: owned_key(&request.key),
            open: None,
            cancel: Some(request.state.clone()),
            tx: Some(PendingTx::Cancel(tx)),
            epoch: self.epoch.load(Ordering::SeqCst),
        });
        async move {
            match rx.await {
                Ok(v) => v,
                Err(_) => std::future::pending().await,
            }
        }
    }

    fn open_order(
        &self,
        request: OrderRequestOpen<ExchangeId, &InstrumentNameExchange>,
    ) -> impl Future<Output = OpenResp> + Send {
        let (tx, rx) = oneshot::channel();
        self.calls.lock().unwrap().push(Call {
            kind: Kind::Open,
            key: owned_key(&request.key),
            open: Some(request.state.clone()),
            cancel: None,
            tx: Some(PendingTx::Open(tx)),
            epoch: self.epoch.load(Ordering::SeqCst),
        });
        async move {
            match rx.await {
                Ok(v) => v,
                Err(_) => std::future::pending().await,
            }
        }
    }

    async fn fetch_balances(&self) -> Result<Vec<AssetBalance<AssetNameExchange>>, UnindexedClientError> {
        Ok(vec![])
    }

    async fn fetch_open_orders(
        &self,
    ) -> Result<Vec<Order<ExchangeId, InstrumentNameExchange, Open>>, UnindexedClientError> {
        Ok(vec![])
    }

    async fn fetch_trades(
        &self,
        _: DateTime<Utc>,
    ) -> Result<Vec<Trade<QuoteAsset, InstrumentNameExchange>>, UnindexedClientError> {
        Ok(vec![])
    }
}

// ------------------------------------------------------------------------------------------------
// world: index maps + concrete requests; the subject (direct or through the builder path)
// ------------------------------------------------------------------------------------------------

struct World {
    exchange: ExchangeIndex,
    /// the two instruments of the manager's exchange a request can name (cid label parity picks one)
    instruments: [InstrumentIndex; 2],
}

/// How requests reach the manager.
enum Link {
    /// the request channel handed to `ExecutionManager::new`
    Direct(barter_integration::channel::UnboundedTx<ExecutionRequest>),
    /// the `MultiExchangeTxMap` the builder made; requests are routed the way the engine routes them
    Built(MultiExchangeTxMap, ExchangeIndex),
    /// the subject could not be built (it panicked): requests go nowhere
    Dead,
    Closed,
}
impl Link {
    /// false: there is no route to the manager (builder path only)
    fn send(&self, r: ExecutionRequest) -> bool {
        match self {
            Link::Direct(tx) => {
                let _ = tx.send(r);
                true
            }
            Link::Built(map, ex) => match map.find(ex) {
                Ok(tx) => {
                    let _ = tx.send(r);
                    true
                }
                Err(_) => false,
            },
            Link::Dead => true,
            Link::Closed => unreachable!("request after the channel was closed"),
        }
    }
    fn shutdown(&self) {
        match self {
            Link::Direct(tx) => {
                let _ = tx.send(ExecutionRequest::Shutdown);
            }
            Link::Built(map, _) => {
                for tx in map.iter() {
                    let _ = tx.send(ExecutionRequest::Shutdown);
                }
            }
            Link::Dead | Link::Closed => {}
        }
    }
}

/// Client TYPE of the builder path (`ExecutionBuilder::add_live::<Live<K>>`: `EXCHANGE` is an associated
/// const, so one type per exchange). Opens / cancels are delegated to the shared `ScriptClient`; the account
/// stream never yields nor ends (the reconnect logic stays idle) and the initial snapshot is empty.
#[derive(Clone)]
struct Live<const K: u8>(ScriptClient);

impl<const K: u8> ExecutionClient for Live<K> {
    const EXCHANGE: ExchangeId = if K == 0 { ExchangeId::BinanceSpot } else { ExchangeId::Kraken };
    type Config = ScriptClient;
    type AccountStream = futures::stream::Pending<UnindexedAccountEvent>;

    fn new(c: ScriptClient) -> Self {
        Live(c)
    }
    async fn account_snapshot(
        &self,
        _: &[AssetNameExchange],
        _: &[InstrumentNameExchange],
    ) -> Result<UnindexedAccountSnapshot, UnindexedClientError> {
        Ok(UnindexedAccountSnapshot { exchange: Self::EXCHANGE, balances: vec![], instruments: vec![] })
    }
    async fn account_stream(
        &self,
        _: &[AssetNameExchange],
        _: &[InstrumentNameExchange],
    ) -> Result<Self::AccountStream, UnindexedClientError> {
        Ok(futures::stream::pending())
    }
    fn cancel_order(
        &self,
        request: OrderRequestCancel<ExchangeId, &InstrumentNameExchange>,
    ) -> impl Future<Output = UnindexedOrderResponseCancel> + Send {
        self.0.cancel_order(request)
    }
    fn open_order(
        &self,
        request: OrderRequestOpen<ExchangeId, &InstrumentNameExchange>,
    ) -> impl Future<Output = OpenResp> + Send {
        self.0.open_order(request)
    }
    async fn fetch_balances(&self) -> Result<Vec<AssetBalance<AssetNameExchange>>, UnindexedClientError> {
        Ok(vec![])
    }
    async fn fetch_open_orders(
        &self,
    ) -> Result<Vec<Order<ExchangeId, InstrumentNameExchange, Open>>, UnindexedClientError> {
        Ok(vec![])
    }
    async fn fetch_trades(
        &self,
        _: DateTime<Utc>,
    ) -> Result<Vec<Trade<QuoteAsset, InstrumentNameExchange>>, UnindexedClientError> {
        Ok(vec![])
    }
}

type SubjectFut = std::pin::Pin<Box<dyn Future<Output = ()>>>;

/// Build the subject for `cfg`:
///  0 / 1  `ExecutionManager::new(..).run()` (see `Cfg`);
///  2 / 3  the whole builder path – `ExecutionBuilder::new(&instruments).add_live::<BinanceSpot client>(T)
///         .add_live::<Kraken client>(T).build()`, its init futures (`ExecutionManager::init`: account
///         stream + snapshot, response channel merged with the account stream) and then every manager's
///         `run()` and every `forward_to(merged account channel)` future, polled as ONE subject future. The
///         manager under test serves BinanceSpot (2) / Kraken (3, exchange index 1, instrument indices 2, 3);
///         requests go through the `MultiExchangeTxMap`, events are read from the merged account channel.
fn build_subject(
    cfg: Cfg,
    timeout: Duration,
    client: &ScriptClient,
) -> (World, Link, barter_integration::channel::UnboundedRx<AccountStreamEvent>, SubjectFut) {
    if cfg <= 1 {
        // the (immutable) index map is built once per configuration and shared
        static MAPS: [std::sync::OnceLock<Arc<ExecutionInstrumentMap>>; 2] = [std::sync::OnceLock::new(), std::sync::OnceLock::new()];
        let map = MAPS[cfg as usize]
            .get_or_init(|| {
                Arc::new(if cfg == 0 {
                    let instruments = IndexedInstruments::builder()
                        .add_instrument(spot(ExchangeId::BinanceSpot, "b_btc_usdt", "BTCUSDT", "btc", "usdt"))
                        .add_instrument(spot(ExchangeId::BinanceSpot, "b_eth_usdt", "ETHUSDT", "eth", "usdt"))
                        .add_instrument(spot(ExchangeId::Kraken, "k_btc_usdt", "XBT/USDT", "btc", "usdt"))
                        .build();
                    generate_execution_instrument_map(&instruments, ExchangeId::BinanceSpot).expect("map")
                } else {
                    ExecutionInstrumentMap::new(
                        Keyed::new(ExchangeIndex(1), ExchangeId::Kraken),
                        [
                            (AssetIndex(0), AssetNameExchange::new("XBT")),
                            (AssetIndex(1), AssetNameExchange::new("USDT")),
                        ]
                        .into_iter()
                        .collect(),
                        [
                            (InstrumentIndex(0), InstrumentNameExchange::new("XBT/USDT")),
                            (InstrumentIndex(1), InstrumentNameExchange::new("ETH/USDT")),
                        ]
                        .into_iter()
                        .collect(),
                    )
                })
            })
            .clone();
        let w = World { exchange: map.exchange.key, instruments: [InstrumentIndex(0), InstrumentIndex(1)] };
        let (req_tx, req_rx) = mpsc_unbounded::<ExecutionRequest>();
        let (resp_tx, resp_rx) = mpsc_unbounded::<AccountStreamEvent>();
        let manager = ExecutionManager::new(
            req_rx.into_stream(),
            timeout,
            resp_tx,
            Arc::new(client.clone()),
            AccountEventIndexer::new(map),
        );
        // `unconstrained`: the subject is polled outside a tokio task; keep tokio's cooperative budget out.
        let fut: SubjectFut = Box::pin(tokio::task::unconstrained(manager.run()));
        return (w, Link::Direct(req_tx), resp_rx, fut);
    }
    let mut instruments = IndexedInstruments::builder();
    if cfg == 4 {
        // an exchange without execution link placed BEFORE the linked ones
        instruments = instruments.add_instrument(spot(ExchangeId::BinanceFuturesUsd, "bf_btc_usdt", "BTCUSDT", "btc", "usdt"));
    }
    let mut instruments = instruments
        .add_instrument(spot(ExchangeId::BinanceSpot, "b_btc_usdt", "BTCUSDT", "btc", "usdt"));
    if cfg != 5 {
        instruments = instruments.add_instrument(spot(ExchangeId::BinanceSpot, "b_eth_usdt", "ETHUSDT", "eth", "usdt"));
    }
    let instruments = instruments
        .add_instrument(spot(ExchangeId::Kraken, "k_btc_usdt", "XBT/USDT", "btc", "usdt"))
        .add_instrument(spot(ExchangeId::Kraken, "k_eth_usdt", "ETH/USDT", "eth", "usdt"))
        .build();
    let (served, names) = if cfg == 2 {
        (ExchangeId::BinanceSpot, ["b_btc_usdt", "b_eth_usdt"])
    } else {
        (ExchangeId::Kraken, ["k_btc_usdt", "k_eth_usdt"])
    };
    let inst = |n: &str| instruments.find_instrument_index(served, &InstrumentNameInternal::new(n)).expect("instrument index");
    let w = World {
        exchange: instruments.find_exchange_index(served).expect("exchange index"),
        instruments: [inst(names[0]), inst(names[1])],
    };
    // the exchange that is not under test gets its own (never inspected) client
    let other = ScriptClient::default();
    let (c0, c1) = if cfg == 2 { (client.clone(), other) } else { (other, client.clone()) };
    // ... and its own, different request timeout: every exchange is added with the timeout meant for it
    let other_timeout = timeout * 3 + Duration::from_millis(70);
    let (t0, t1) = if cfg == 2 { (timeout, other_timeout) } else { (other_timeout, timeout) };
    let build = ExecutionBuilder::new(&instruments)
        .add_live::<Live<0>>(c0, t0)
        .unwrap_or_else(|e| panic!("ExecutionBuilder::add_live: {e:?}"))
        .add_live::<Live<1>>(c1, t1)
        .unwrap_or_else(|e| panic!("ExecutionBuilder::add_live: {e:?}"))
        .build();
    let ExecutionBuild { execution_tx_map, account_channel, futures: build_futures } = build;
    let inits = build_futures.execution_init_futures;
    let fut: SubjectFut = Box::pin(tokio::task::unconstrained(async move {
        match futures::future::try_join_all(inits).await {
            Ok(pairs) => {
                futures::future::join_all(pairs.into_iter().flat_map(|(run, forward)| [run, forward])).await;
            }
            Err(e) => panic!("ExecutionManager::init failed: {e:?}"),
        }
    }));
    let exchange = w.exchange;
    (w, Link::Built(execution_tx_map, exchange), account_channel.rx, fut)
}

thread_local! {
    /// `Params::same_terms` of the execution running on this thread (an execution never leaves its thread)
    static SAME_TERMS: std::cell::Cell<bool> = const { std::cell::Cell::new(false) };
}

fn cid_of(label: u8) -> ClientOrderId {
    if label < 26 { ClientOrderId::new(format!("cid-{}", (b'A' + label) as char)) } else { ClientOrderId::new(format!("cid-{label}")) }
}
/// Instrument and strategy follow the cid label - unless the plan asks for `same_terms`: then every request
/// names the same instrument and strategy and differs from the others in nothing but kind and client order id.
fn key_of(w: &World, r: &Req) -> OrderKey<ExchangeIndex, InstrumentIndex> {
    let label = if SAME_TERMS.with(|f| f.get()) { 0 } else { r.cid };
    OrderKey {
        exchange: w.exchange,
        instrument: w.instruments[(label % 2) as usize],
        strategy: if label < 26 { StrategyId::new(format!("strat-{}", (b'a' + label) as char)) } else { StrategyId::new(format!("strat-{label}")) },
        cid: cid_of(r.cid),
    }
}

fn open_state(pos: usize) -> RequestOpen {
    let pos = if SAME_TERMS.with(|f| f.get()) { 1 } else { pos };
    RequestOpen {
        side: if pos % 2 == 0 { Side::Buy } else { Side::Sell },
        price: Decimal::from(100 + pos as i64),
        quantity: Decimal::from(1 + pos as i64),
        kind: if pos % 2 == 0 { OrderKind::Limit } else { OrderKind::Market },
        time_in_force: if pos % 2 == 0 {
            TimeInForce::GoodUntilCancelled { post_only: false }
        } else {
            TimeInForce::ImmediateOrCancel
        },
    }
}
fn cancel_state(pos: usize) -> RequestCancel {
    let pos = if SAME_TERMS.with(|f| f.get()) { 1 } else { pos };
    RequestCancel { id: if pos % 2 == 0 { Some(OrderId::new(format!("oid-{pos}"))) } else { None } }
}
fn exec_request(w: &World, r: &Req, pos: usize) -> ExecutionRequest {
    match r.kind {
        Kind::Open => ExecutionRequest::Open(OrderEvent { key: key_of(w, r), state: open_state(pos) }),
        Kind::Cancel => ExecutionRequest::Cancel(OrderEvent { key: key_of(w, r), state: cancel_state(pos) }),
    }
}
/// Do the requests at positions `i` and `j` of the batch look the same to the client (same kind, cid
/// and request content)? Only two cancels without an order id (odd positions) can.
fn same_content(batch: &[Req], i: usize, j: usize) -> bool {
    batch[i] == batch[j]
        && match batch[i].kind {
            Kind::Open => open_state(i) == open_state(j),
            Kind::Cancel => cancel_state(i) == cancel_state(j),
        }
}


// ------------------------------------------------------------------------------------------------
// one execution
// ------------------------------------------------------------------------------------------------

thread_local! {
    /// set while the subject is being polled under catch_unwind: its panics are reported as violations,
    /// not printed (a panic anywhere else is a machinery failure and keeps the default report)
    static IN_SUBJECT: std::cell::Cell<bool> = const { std::cell::Cell::new(false) };
}

fn install_quiet_hook() {
    static ONCE: std::sync::Once = std::sync::Once::new();
    ONCE.call_once(|| {
        let default = std::panic::take_hook();
        std::panic::set_hook(Box::new(move |info| {
            if !IN_SUBJECT.with(|f| f.get()) {
                default(info);
            }
        }));
    });
}

#[derive(Debug, Clone, PartialEq, Eq, Hash, PartialOrd, Ord)]
enum Class {
    Response,
    Timeout,
}

#[derive(Debug, Clone, PartialEq, Eq, Hash, PartialOrd, Ord)]
enum Expect {
    Response(Beh),
    Timeout,
    Either(Beh),
}

struct Exec {
    viols: Vec<(String, String)>,
    /// canonical outcome (order-insensitive): per request (expected, observed classes), terminated
    outcome: Vec<(Req, Expect, Vec<Class>)>,
    /// per repeated request instance: (position, state of the previous instance of the same (kind, cid)
    /// at the moment this one was handed over)
    repeats: Vec<(usize, &'static str)>,
    /// a request was handed over at the very instant the timeout of an outstanding request for the same
    /// (kind, cid) fell due, before the manager had run
    twin_race: bool,
    terminated: bool,
    trace: Vec<String>,
}

fn behaviours(kind: Kind, p: &Params) -> Vec<Beh> {
    let mut v = match kind {
        Kind::Open if p.filled && p.partial => vec![Beh::Ok, Beh::Err, Beh::Filled, Beh::Partial],
        Kind::Open if p.filled => vec![Beh::Ok, Beh::Err, Beh::Filled],
        _ => vec![Beh::Ok, Beh::Err],
    };
    if p.err_classes {
        v.push(Beh::ErrConn);
        v.push(Beh::ErrForeign);
    }
    v
}

/// The real subject + everything the environment owns (request link, response channel, clock, client
/// futures) + the log the oracle judges. The schedule explorer (`execute`) and the scripted load layer
/// (`execute_load`) drive it through the same few environment actions.
struct Sim<'a> {
    /// the subject future (dropped inside the runtime context, see `Drop`)
    fut: Option<SubjectFut>,
    w: World,
    cfg: Cfg,
    batch: &'a [Req],
    timeout_ms: u64,
    link: Link,
    resp_rx: barter_integration::channel::UnboundedRx<AccountStreamEvent>,
    client: ScriptClient,
    flag: Arc<crate::explore::env::FlagWaker>,
    waker: std::task::Waker,
    done: bool,
    panicked: Option<String>,
    unroutable: bool,
    events: Vec<(u64, AccountStreamEvent)>,
    initial_snapshots: usize,
    trace: Vec<String>,
    handed_at: Vec<Option<u64>>,
    /// (instant, behaviour, client call existed)
    completed: Vec<Option<(u64, Beh, bool)>>,
    next: usize,
    now: u64,
    /// the current action happens before the manager has seen the new instant
    not_yet_run: bool,
    repeats: Vec<(usize, &'static str)>,
    /// per instance: number of requests handed over when its hand-over (single or burst) ended = the epoch of
    /// its client call, if the manager forwards it
    run_epoch: Vec<usize>,
    /// per instance: the earlier instances of the same (kind, cid) that were still unresolved in time when it
    /// was handed over (not answered by the client, deadline not passed - or due at this very instant with the
    /// manager not yet run)
    twin_outstanding: Vec<Vec<usize>>,
    twin_race: bool,
    /// run() returned (or panicked) before Shutdown / channel close
    stopped_early: bool,
    rt: tokio::runtime::Runtime,
}

impl Drop for Sim<'_> {
    fn drop(&mut self) {
        let _guard = self.rt.enter();
        self.fut.take();
    }
}

impl<'a> Sim<'a> {
    fn new(cfg: Cfg, batch: &'a [Req], timeout_ms: u64, same_terms: bool) -> Self {
        SAME_TERMS.with(|f| f.set(same_terms));
        let rt = paused_rt();
        let client = ScriptClient::default();
        // building the subject runs code under test too (builder path): a panic there is reported like a panic of
        // the manager - every request of the batch stays unanswered
        let mut build_panic = None;
        let (w, link, resp_rx, fut) = {
            let _guard = rt.enter();
            IN_SUBJECT.with(|f| f.set(true));
            let built = catch_unwind(AssertUnwindSafe(|| build_subject(cfg, Duration::from_millis(timeout_ms), &client)));
            IN_SUBJECT.with(|f| f.set(false));
            built.unwrap_or_else(|e| {
                let msg = e.downcast_ref::<String>().cloned().or_else(|| e.downcast_ref::<&str>().map(|s| s.to_string())).unwrap_or_else(|| "?".into());
                build_panic = Some(format!("while the execution infrastructure was being built: {msg}"));
                let dead: SubjectFut = Box::pin(async {});
                (World { exchange: ExchangeIndex(0), instruments: [InstrumentIndex(0), InstrumentIndex(1)] }, Link::Dead, mpsc_unbounded::<AccountStreamEvent>().1, dead)
            })
        };
        let (flag, waker) = flag_waker();
        let n = batch.len();
        Sim {
            fut: Some(fut),
            w,
            cfg,
            batch,
            timeout_ms,
            link,
            resp_rx,
            client,
            flag,
            waker,
            done: build_panic.is_some(),
            panicked: build_panic,
            unroutable: false,
            events: Vec::new(),
            initial_snapshots: 0,
            trace: Vec::new(),
            handed_at: vec![None; n],
            completed: vec![None; n],
            next: 0,
            now: 0,
            not_yet_run: false,
            repeats: Vec::new(),
            run_epoch: vec![0; n],
            twin_outstanding: vec![Vec::new(); n],
            twin_race: false,
            stopped_early: false,
            rt,
        }
    }

    /// run the manager until it is quiescent, then collect what it reported. Like an executor the harness polls
    /// the subject only when it has been WOKEN since its last poll (by a request in its channel, a client answer,
    /// a timer it registered): a deadline nobody registered a wake-up for passes unnoticed, as it would in
    /// production ("an order shown as in flight is always eventually resolved").
    fn run_manager(&mut self) {
        let _guard = self.rt.enter();
        if !self.done && self.flag.0.load(std::sync::atomic::Ordering::SeqCst) {
            let fut = self.fut.as_mut().unwrap();
            IN_SUBJECT.with(|f| f.set(true));
            let polled = catch_unwind(AssertUnwindSafe(|| poll_quiesce(fut.as_mut(), &self.flag, &self.waker)));
            IN_SUBJECT.with(|f| f.set(false));
            match polled {
                Ok(Poll::Ready(())) => self.done = true,
                Ok(Poll::Pending) => {}
                Err(e) => {
                    let msg = e
                        .downcast_ref::<String>()
                        .cloned()
                        .or_else(|| e.downcast_ref::<&str>().map(|s| s.to_string()))
                        .unwrap_or_else(|| "?".into());
                    self.panicked = Some(msg);
                    self.done = true;
                }
            }
        }
        while let Ok(ev) = self.resp_rx.rx.try_recv() {
            // builder path: every manager's account stream starts with its account snapshot - not an answer
            if self.cfg >= 2 && matches!(&ev, RcEvent::Item(AccountEvent { kind: AccountEventKind::Snapshot(_), .. })) {
                self.initial_snapshots += 1;
                continue;
            }
            self.events.push((self.now, ev));
        }
    }

    /// hand the next `k` requests of the batch to the manager (without running it in between)
    fn hand(&mut self, k: usize) {
        let first = self.next;
        for _ in 0..k {
            let i = self.next;
            let (batch, now) = (self.batch, self.now);
            self.twin_outstanding[i] = (0..i)
                .filter(|j| batch[*j] == batch[i] && self.completed[*j].is_none())
                .filter(|j| {
                    let dl = self.handed_at[*j].unwrap() + self.timeout_ms;
                    now < dl || (now == dl && self.not_yet_run)
                })
                .collect();
            self.twin_race |= self.twin_outstanding[i].iter().any(|j| self.handed_at[*j].unwrap() + self.timeout_ms == now);
            if let Some(prev) = (0..i).rev().find(|j| batch[*j] == batch[i]) {
                let dl = self.handed_at[prev].unwrap() + self.timeout_ms;
                self.repeats.push((i, match self.completed[prev] {
                    Some((c, _, true)) if c < dl => "previous-answered",
                    Some((c, _, true)) if c == dl => "previous-answered-at-deadline",
                    Some((_, _, true)) => "previous-timed-out",
                    Some((_, _, false)) => "previous-never-forwarded",
                    None if now < dl => "previous-outstanding",
                    None if now == dl && self.not_yet_run => "previous-timeout-due",
                    None => "previous-timed-out",
                }));
            }
            if !self.link.send(exec_request(&self.w, &batch[i], i)) {
                self.unroutable = true;
            }
            self.handed_at[i] = Some(now);
            self.trace.push(format!("t={now}: hand #{i} {:?}", batch[i]));
            self.next += 1;
        }
        for i in first..self.next {
            self.run_epoch[i] = self.next;
        }
        self.client.epoch.store(self.next, Ordering::SeqCst);
    }

    /// the client answers request instance `i` with `b` (no manager run)
    fn answer(&mut self, i: usize, b: Beh) {
        let existed = complete(&self.client, self.batch, &self.run_epoch, b, i);
        self.completed[i] = Some((self.now, b, existed));
        self.trace.push(format!("t={}: client answers #{i} with {b:?}{}", self.now, if existed { "" } else { " (client was never called: void)" }));
    }

    /// move the virtual clock to `to` [ms] (no manager run)
    fn advance_to(&mut self, to: u64) {
        let delta = to - self.now;
        self.now = to;
        self.rt.block_on(tokio::time::advance(Duration::from_millis(delta)));
    }

    /// is there a pending request whose deadline is exactly now (response and timeout may race)?
    fn race_now(&self) -> bool {
        (0..self.next).any(|i| self.completed[i].is_none() && self.handed_at[i].unwrap() + self.timeout_ms == self.now)
    }

    /// horizon far beyond every deadline, then `Shutdown` / closing the request channel
    fn finish(&mut self, shutdown: bool) {
        self.run_manager();
        self.advance_to(self.now + 2 * self.timeout_ms);
        self.run_manager();
        self.stopped_early = self.done;
        if shutdown {
            self.link.shutdown();
            self.trace.push(format!("t={}: Shutdown", self.now));
        } else {
            self.link = Link::Closed;
            self.trace.push(format!("t={}: request channel closed", self.now));
        }
        self.run_manager();
    }
}

fn execute(cfg: Cfg, batch: &[Req], p: &Params, ch: &mut Chooser) -> Exec {
    let mut s = Sim::new(cfg, batch, p.timeout_ms, p.same_terms);
    let n = batch.len();
    let mut idx = 0usize; // index into p.instants
    assert_eq!(p.instants[0], 0, "time line starts at 0");
    let mut must_act = false; // set after "advance without running the manager": an action must follow
    // the first request is handed over at instant 0 (a later first delivery is a time shift)
    s.hand(1);
    s.run_manager();

    loop {
        // enabled actions at this point
        #[derive(Clone, Copy)]
        enum A {
            Advance,
            Finish,
            Hand(usize),
            Complete(usize, Beh),
        }
        let mut acts: Vec<A> = Vec::new();
        let last = idx + 1 == p.instants.len();
        let may_hand = s.next < n && s.now <= p.deliver_until;
        // all requests of the batch must be handed over: do not leave the delivery window before
        let must_hand = s.next < n && (last || p.instants[idx + 1] > p.deliver_until);
        if !must_act && !must_hand {
            acts.push(if last { A::Finish } else { A::Advance });
        }
        if may_hand {
            acts.push(A::Hand(1));
            if p.burst && n - s.next >= 2 {
                acts.push(A::Hand(2));
            }
        }
        for i in 0..s.next {
            if s.completed[i].is_none() {
                for b in behaviours(batch[i].kind, p) {
                    acts.push(A::Complete(i, b));
                }
            }
        }
        assert!(!acts.is_empty(), "no enabled action");
        let a = acts[ch.choose(acts.len())];
        s.not_yet_run = must_act;
        must_act = false;
        match a {
            A::Hand(k) => {
                s.hand(k);
                s.run_manager();
            }
            A::Complete(i, b) => {
                s.answer(i, b);
                s.run_manager();
            }
            A::Advance => {
                s.run_manager(); // nothing is left unprocessed at the old instant
                idx += 1;
                s.advance_to(p.instants[idx]);
                // a pending request whose deadline is exactly `now`: response and timeout may race
                let race = s.race_now();
                let others = s.next < n && s.now <= p.deliver_until; // a hand-over is possible as next action
                let any_action = others || (0..s.next).any(|i| s.completed[i].is_none());
                if race && any_action && ch.choose(2) == 1 {
                    s.trace.push(format!("t={}: clock advanced, manager not yet run", s.now));
                    must_act = true;
                } else {
                    s.trace.push(format!("t={}: clock advanced, manager run", s.now));
                    s.run_manager();
                }
            }
            A::Finish => {
                s.finish(ch.choose(2) == 0);
                break;
            }
        }
    }
    s.judge()
}

// ------------------------------------------------------------------------------------------------
// load layer: MANY requests outstanding at once (scripted schedules, every n up to the bound)
// ------------------------------------------------------------------------------------------------

/// Which kinds the n requests of a load batch have (client order ids are pairwise distinct).
#[derive(Debug, Clone, Copy, PartialEq, Eq, Hash, Serialize, Deserialize)]
pub enum LoadKinds {
    Opens,
    Cancels,
    Alternating,
}
/// What the client does with the n outstanding requests (T = request timeout, all handed over at t = 0).
#[derive(Debug, Clone, Copy, PartialEq, Eq, Hash, Serialize, Deserialize)]
pub enum LoadMode {
    /// every request answered Ok at T/2, newest first, the manager run after each answer
    AnswerAllReversed,
    /// every request answered (Ok / Err alternating) at T/2 at once: the manager finds all answers ready together
    AnswerAllAtOnce,
    /// nobody answers: n timeouts fall due at the same instant
    AnswerNone,
    /// request i: i%3==0 answered Ok at T/2, i%3==1 answered Err at T/2, i%3==2 never (answers and timeouts mixed)
    Mixed,
}
const LOAD_KINDS: [LoadKinds; 3] = [LoadKinds::Opens, LoadKinds::Cancels, LoadKinds::Alternating];
const LOAD_MODES: [LoadMode; 4] = [LoadMode::AnswerAllReversed, LoadMode::AnswerAllAtOnce, LoadMode::AnswerNone, LoadMode::Mixed];
const LOAD_TIMEOUT_MS: u64 = 200;

fn load_batch(n: usize, kinds: LoadKinds) -> Vec<Req> {
    (0..n)
        .map(|i| Req {
            kind: match kinds {
                LoadKinds::Opens => Kind::Open,
                LoadKinds::Cancels => Kind::Cancel,
                LoadKinds::Alternating => if i % 2 == 0 { Kind::Open } else { Kind::Cancel },
            },
            cid: i as u8,
        })
        .collect()
}

/// One scripted execution with `n` requests outstanding together. `burst`: all n requests are in the request
/// channel before the manager runs (else the manager runs after each hand-over).
fn execute_load(cfg: Cfg, n: usize, kinds: LoadKinds, mode: LoadMode, burst: bool, shutdown: bool) -> Exec {
    assert!(n <= 255, "cid labels are single bytes");
    let batch = load_batch(n, kinds);
    let mut s = Sim::new(cfg, &batch, LOAD_TIMEOUT_MS, false);
    if burst {
        s.hand(n);
        s.run_manager();
    } else {
        for _ in 0..n {
            s.hand(1);
            s.run_manager();
        }
    }
    s.advance_to(LOAD_TIMEOUT_MS / 2);
    s.run_manager();
    match mode {
        LoadMode::AnswerAllReversed => {
            for i in (0..n).rev() {
                s.answer(i, Beh::Ok);
                s.run_manager();
            }
        }
        LoadMode::AnswerAllAtOnce => {
            for i in 0..n {
                s.answer(i, if i % 2 == 0 { Beh::Ok } else { Beh::Err });
            }
            s.run_manager();
        }
        LoadMode::AnswerNone => {}
        LoadMode::Mixed => {
            for i in 0..n {
                match i % 3 {
                    0 => s.answer(i, Beh::Ok),
                    1 => s.answer(i, Beh::Err),
                    _ => continue,
                }
                s.run_manager();
            }
        }
    }
    s.advance_to(LOAD_TIMEOUT_MS);
    s.run_manager();
    s.finish(shutdown);
    s.judge()
}

impl Sim<'_> {
    /// The oracle: judge the finished execution (see the module doc).
    fn judge(&mut self) -> Exec {
        let (w, batch, n) = (&self.w, self.batch, self.batch.len());
        let (handed_at, completed, events) = (&self.handed_at, &self.completed, &self.events);
        let timeout_ms = self.timeout_ms;
        let terminated = self.done && self.panicked.is_none();
        let mut viols: Vec<(String, String)> = Vec::new();
        let mut unanswered: Vec<String> = Vec::new();
        let mut used = vec![false; events.len()];
        let expect_of = |i: usize| -> Expect {
            let deadline = handed_at[i].unwrap() + timeout_ms;
            match completed[i] {
                Some((c, b, true)) if c < deadline => Expect::Response(b),
                Some((c, b, true)) if c == deadline => Expect::Either(b),
                _ => Expect::Timeout,
            }
        };
        // "every open or cancel request it ACCEPTS": a request for a (kind, cid) that is already outstanding at the
        // manager (an earlier instance was forwarded to the client and neither answered nor timed out when this one
        // was handed over) need not be accepted - the statement keys the answer on the client order id, and the
        // outstanding request's answer resolves that order. Such an instance, if the manager never called the
        // client for it, may stay without an event of its own (coalesced) or be refused with one failure event.
        let may_skip: Vec<bool> = {
            let calls = self.client.calls.lock().unwrap();
            let has_call = |i: usize| find_call(&calls, batch, &self.run_epoch, i).is_some();
            (0..n).map(|j| handed_at[j].is_some() && !has_call(j) && self.twin_outstanding[j].iter().any(|i| has_call(*i))).collect()
        };
        let admits = |m: usize, c: &Class| match expect_of(m) {
            Expect::Response(_) => *c == Class::Response,
            // (an instance that need not be accepted has no client call, hence expects "timeout")
            Expect::Timeout => *c == Class::Timeout || may_skip[m],
            Expect::Either(_) => true,
        };
        // events attributed to each request instance
        let mut mine: Vec<Vec<usize>> = vec![Vec::new(); n];
        let mut group_size = vec![1usize; n];
        // which (kind, cid) each event answers + its instance tags (one pass over the events)
        let tags: Vec<_> = events.iter().map(|(_, ev)| event_tags(ev)).collect();
        for (i, r) in batch.iter().enumerate() {
            if handed_at[i].is_none() || batch[..i].contains(r) {
                continue;
            }
            // the group: all handed instances of this (kind, cid), and all events that answer (kind, cid)
            let members: Vec<usize> = (i..n).filter(|j| batch[*j] == *r && handed_at[*j].is_some()).collect();
            let cid = cid_of(r.cid);
            let evs: Vec<(usize, Class, Option<usize>)> = tags
                .iter()
                .enumerate()
                .filter_map(|(e, t)| {
                    let (kind, ev_cid, class, answer_tag, echo) = t.clone()?;
                    if kind != r.kind || *ev_cid != cid {
                        return None;
                    }
                    // instance tag: from the client's own answer, else from the echoed open request
                    let tag = answer_tag
                        .filter(|t| members.contains(t))
                        .or_else(|| echo.and_then(|st| members.iter().copied().find(|m| open_state(*m) == st)));
                    Some((e, class, tag))
                })
                .collect();
            for m in &members {
                group_size[*m] = members.len();
            }
            if members.len() == 1 {
                mine[i] = evs.iter().map(|e| e.0).collect();
                continue;
            }
            // repeated request: tagged events go to their instance ...
            let mut rest = Vec::new();
            for (e, class, tag) in &evs {
                match tag {
                    Some(t) => mine[*t].push(*e),
                    None => rest.push((*e, class.clone())),
                }
            }
            // ... the others to an instance that still lacks an answer and admits the class (strict
            // expectation first: optimal, since only "either" instances are contended between the classes);
            // what is left over is surplus: shown on an unanswered instance if any, else as a duplicate
            for (e, class) in rest {
                let empty = |m: &&usize| mine[**m].is_empty();
                let strict = |m: &&usize| !matches!(expect_of(**m), Expect::Either(_));
                // (an instance that need not be accepted takes an event only when no other instance can)
                let target = members
                    .iter()
                    .filter(empty)
                    .filter(|m| !may_skip[**m] && admits(**m, &class))
                    .find(strict)
                    .or_else(|| members.iter().filter(empty).find(|m| !may_skip[**m] && admits(**m, &class)))
                    .or_else(|| members.iter().filter(empty).find(|m| admits(**m, &class)))
                    .or_else(|| members.iter().find(empty))
                    .or_else(|| members.iter().find(|m| admits(**m, &class)))
                    .unwrap_or(&members[0]);
                mine[*target].push(e);
            }
        }
        let mut outcome = Vec::new();
        for (i, r) in batch.iter().enumerate() {
            let Some(h) = handed_at[i] else { continue };
            let deadline = h + timeout_ms;
            let expect = expect_of(i);
            let key = key_of(w, r);
            let repeated = if group_size[i] > 1 { "repeated-request/" } else { "" };
            let mut classes = Vec::new();
            mine[i].sort();
            for e in &mine[i] {
                let (at, ev) = &events[*e];
                let Some((class, problems)) = judge_event(w, r, i, &key, completed[i].map(|c| c.1), ev) else { continue };
                used[*e] = true;
                // a refusal is the manager's own failure notice, not a client answer: nothing to compare it with
                let refusal = may_skip[i] && class == Class::Response && is_failure(ev);
                for (field, detail) in problems {
                    if refusal && field == "content" {
                        continue;
                    }
                    let c = if class == Class::Timeout { "timeout" } else { "response" };
                    viols.push((
                        if field == "content" {
                            format!("C07/response-content/{}/client-answer={}", r.kind.s(), completed[i].map(|c| format!("{:?}", c.1)).unwrap_or("none".into()))
                        } else {
                            format!("C07/attribution/{}/{c}/{field}", r.kind.s())
                        },
                        format!("request #{i} {r:?} key={key:?}: event at t={at} {detail}; event={ev:?}"),
                    ));
                }
                classes.push(class);
            }
            classes.sort();
            let got = match classes.as_slice() {
                [] => "none",
                [Class::Response] => "response",
                [Class::Timeout] => "timeout",
                cs if cs.iter().all(|c| *c == Class::Response) => "duplicate-response",
                cs if cs.iter().all(|c| *c == Class::Timeout) => "duplicate-timeout",
                _ => "both",
            };
            let (exp_s, ok) = match &expect {
                Expect::Response(_) => ("response", got == "response"),
                Expect::Timeout => ("timeout", got == "timeout"),
                Expect::Either(_) => ("either", got == "response" || got == "timeout"),
            };
            let ok = ok || (may_skip[i] && (got == "none" || got == "response"));
            if !ok && got == "none" && self.stopped_early {
                // consequence of the manager having stopped: folded into one signature below
                unanswered.push(format!("#{i} {r:?} (expected {exp_s})"));
            } else if !ok {
                // a batch is shown in full only when it is small
                let batch_txt = if n <= 8 { format!("{batch:?}") } else { format!("{n} requests") };
                viols.push((
                    format!("C07/answer/{repeated}{}/expected={exp_s}/got={got}{}", r.kind.s(),
                        if matches!(completed[i], Some((_, Beh::ErrForeign, true))) && got == "none" { "/client-rejection-names-an-unconfigured-asset" } else { "" }),
                    format!(
                        "request #{i} {r:?} handed at t={h} (deadline t={deadline}), client answer {:?}: expected exactly one {exp_s}, observed {classes:?}{}{}",
                        completed[i].map(|c| (c.0, c.1)),
                        if group_size[i] > 1 {
                            format!(" [{}one of {} requests for this (kind, cid) in the batch {batch_txt}; events without an instance tag were distributed in favour of the manager]", self.repeats.iter().find(|x| x.0 == i).map(|x| format!("{}; ", x.1)).unwrap_or_default(), group_size[i])
                        } else {
                            String::new()
                        },
                        if terminated { "" } else { " [manager did not terminate normally]" }
                    ),
                ));
            }
            outcome.push((*r, expect, classes));
        }
        if !unanswered.is_empty() {
            let (sig, why) = match &self.panicked {
                Some(msg) => ("C07/manager-panicked/requests-unanswered", format!("ExecutionManager::run panicked: {msg}")),
                None => ("C07/manager-stopped-without-shutdown/requests-unanswered", "ExecutionManager::run returned although neither Shutdown was sent nor the request channel closed".to_string()),
            };
            viols.push((sig.into(), format!("{why}; requests left without any answer: {unanswered:?}")));
        }
        if self.unroutable {
            viols.push((
                "C07/builder-path/no-route-to-the-manager".into(),
                format!("the MultiExchangeTxMap built by ExecutionBuilder has no link for {:?}, for which an execution manager was added", w.exchange),
            ));
        }
        for (e, (at, ev)) in events.iter().enumerate() {
            if !used[e] {
                let what = match ev {
                    RcEvent::Reconnecting(_) => "reconnecting",
                    RcEvent::Item(AccountEvent { kind: AccountEventKind::OrderSnapshot(_), .. }) => "open",
                    RcEvent::Item(AccountEvent { kind: AccountEventKind::OrderCancelled(_), .. }) => "cancel",
                    _ => "other-event",
                };
                viols.push((
                    format!("C07/unsolicited/{what}"),
                    format!("event at t={at} answers no request of the batch{}: {ev:?}", if n <= 8 { format!(" {batch:?}") } else { String::new() }),
                ));
            }
        }
        Exec { viols, outcome, repeats: std::mem::take(&mut self.repeats), twin_race: self.twin_race, terminated, trace: std::mem::take(&mut self.trace) }
    }
}



/// The client call of the request instance at `pos`: same kind, cid and content, made in the manager run that
/// followed the hand-over of `pos` (so that a later instance with the same content - forwarded although `pos`
/// was not - is never taken for it); among instances handed over together that look the same, in batch order.
fn find_call(calls: &[Call], batch: &[Req], run_epoch: &[usize], pos: usize) -> Option<usize> {
    let r = &batch[pos];
    let cid = cid_of(r.cid);
    let ordinal = (0..pos).filter(|j| same_content(batch, *j, pos) && run_epoch[*j] == run_epoch[pos]).count();
    let (open, cancel) = match r.kind {
        Kind::Open => (Some(open_state(pos)), None),
        Kind::Cancel => (None, Some(cancel_state(pos))),
    };
    calls
        .iter()
        .enumerate()
        .filter(|(_, c)| c.kind == r.kind && c.key.cid == cid && c.open == open && c.cancel == cancel && c.epoch == run_epoch[pos])
        .map(|(k, _)| k)
        .nth(ordinal)
}

/// Complete the client future of the request INSTANCE at position `pos` of the batch; false if the
/// manager never called the client for it (see `find_call`).
fn complete(client: &ScriptClient, batch: &[Req], run_epoch: &[usize], b: Beh, pos: usize) -> bool {
    let mut calls = client.calls.lock().unwrap();
    let Some(call) = find_call(&calls, batch, run_epoch, pos).map(|k| &mut calls[k]).filter(|c| c.tx.is_some()) else {
        return false;
    };
    match call.tx.take().unwrap() {
        PendingTx::Open(tx) => {
            let st = call.open.clone().unwrap();
            let state = match b {
                Beh::Ok => Ok(open_meta(pos, Decimal::ZERO)),
                Beh::Filled => Ok(open_meta(pos, st.quantity)),
                Beh::Partial => Ok(open_meta(pos, st.quantity / Decimal::TWO)),
                Beh::Err => Err(client_error(pos)),
                Beh::ErrConn => Err(client_error_conn(pos)),
                Beh::ErrForeign => Err(client_error_foreign(pos)),
            };
            // a late answer finds the receiver gone: that is fine
            let _ = tx.send(Order {
                key: call.key.clone(),
                side: st.side,
                price: st.price,
                quantity: st.quantity,
                kind: st.kind,
                time_in_force: st.time_in_force,
                state,
            });
        }
        PendingTx::Cancel(tx) => {
            let state = match b {
                Beh::Err => Err(client_error(pos)),
                Beh::ErrConn => Err(client_error_conn(pos)),
                Beh::ErrForeign => Err(client_error_foreign(pos)),
                _ => Ok(cancelled_meta(pos)),
            };
            let _ = tx.send(OrderEvent { key: call.key.clone(), state });
        }
    }
    true
}

fn open_meta(pos: usize, filled: Decimal) -> Open {
    Open { id: OrderId::new(format!("xid-{pos}")), time_exchange: t_plus(10 + pos as i64), filled_quantity: filled }
}
fn cancelled_meta(pos: usize) -> Cancelled {
    Cancelled { id: OrderId::new(format!("xid-{pos}")), time_exchange: t_plus(20 + pos as i64) }
}
// the scripted client's answers carry the instance number `pos` (order id / exchange time / rejection text)
fn client_error(pos: usize) -> UnindexedOrderError {
    UnindexedOrderError::Rejected(ApiError::OrderRejected(format!("scripted rejection #{pos}")))
}
fn client_error_indexed(pos: usize) -> OrderError {
    OrderError::Rejected(ApiError::OrderRejected(format!("scripted rejection #{pos}")))
}
/// connectivity-class answer of the scripted client (the same value before and after indexing)
fn client_error_conn<A, I>(pos: usize) -> OrderError<A, I> {
    OrderError::Connectivity(ConnectivityError::Socket(format!("scripted socket error #{pos}")))
}
/// rejection naming an asset outside the exchange's configured assets
fn client_error_foreign(pos: usize) -> UnindexedOrderError {
    UnindexedOrderError::Rejected(ApiError::BalanceInsufficient(AssetNameExchange::new("fee-asset-not-configured"), format!("scripted rejection #{pos}")))
}
fn tag_of_error(e: &OrderError) -> Option<usize> {
    match e {
        OrderError::Rejected(ApiError::OrderRejected(text)) => text.strip_prefix("scripted rejection #")?.parse().ok(),
        OrderError::Connectivity(ConnectivityError::Socket(text)) => text.strip_prefix("scripted socket error #")?.parse().ok(),
        _ => None,
    }
}
/// an open-failed / cancel-failed event
fn is_failure(ev: &AccountStreamEvent) -> bool {
    match ev {
        RcEvent::Item(AccountEvent { kind: AccountEventKind::OrderSnapshot(Snapshot(o)), .. }) => matches!(&o.state, OrderState::Inactive(InactiveOrderState::OpenFailed(_))),
        RcEvent::Item(AccountEvent { kind: AccountEventKind::OrderCancelled(c), .. }) => c.state.is_err(),
        _ => false,
    }
}
fn tag_of_id(id: &OrderId) -> Option<usize> {
    id.0.strip_prefix("xid-")?.parse().ok()
}

/// Which request kind does `ev` answer, for which cid, with which class, and which instance tags does
/// it carry: (kind, cid, class, tag echoed from the client's own answer, echoed open-request fields).
fn event_tags(ev: &AccountStreamEvent) -> Option<(Kind, &ClientOrderId, Class, Option<usize>, Option<RequestOpen>)> {
    let RcEvent::Item(AccountEvent { kind, .. }) = ev else { return None };
    match kind {
        AccountEventKind::OrderSnapshot(Snapshot(o)) => {
            let (class, tag) = match &o.state {
                OrderState::Inactive(InactiveOrderState::OpenFailed(OrderError::Connectivity(ConnectivityError::Timeout))) => (Class::Timeout, None),
                OrderState::Inactive(InactiveOrderState::OpenFailed(e)) => (Class::Response, tag_of_error(e)),
                OrderState::Active(ActiveOrderState::Open(open)) => (Class::Response, tag_of_id(&open.id)),
                _ => (Class::Response, None),
            };
            let echo = RequestOpen { side: o.side, price: o.price, quantity: o.quantity, kind: o.kind, time_in_force: o.time_in_force };
            Some((Kind::Open, &o.key.cid, class, tag, Some(echo)))
        }
        AccountEventKind::OrderCancelled(c) => {
            let (class, tag) = match &c.state {
                Err(OrderError::Connectivity(ConnectivityError::Timeout)) => (Class::Timeout, None),
                Err(e) => (Class::Response, tag_of_error(e)),
                Ok(cancelled) => (Class::Response, tag_of_id(&cancelled.id)),
            };
            Some((Kind::Cancel, &c.key.cid, class, tag, None))
        }
        _ => None,
    }
}

/// Does `ev` answer request `r` (same kind of answer, same cid)? If so classify it and list the
/// attribution / content problems as (field, detail).
fn judge_event(
    w: &World,
    r: &Req,
    pos: usize,
    key: &OrderKey<ExchangeIndex, InstrumentIndex>,
    beh: Option<Beh>,
    ev: &AccountStreamEvent,
) -> Option<(Class, Vec<(&'static str, String)>)> {
    let RcEvent::Item(AccountEvent { exchange, kind }) = ev else { return None };
    let mut problems: Vec<(&'static str, String)> = Vec::new();
    let (class, ev_key) = match (r.kind, kind) {
        (Kind::Open, AccountEventKind::OrderSnapshot(Snapshot(o))) if o.key.cid == key.cid => {
            let st = open_state(pos);
            if o.side != st.side || o.price != st.price || o.quantity != st.quantity || o.kind != st.kind || o.time_in_force != st.time_in_force {
                problems.push(("order-fields", format!("does not echo the request {st:?}")));
            }
            let class = match &o.state {
                OrderState::Inactive(InactiveOrderState::OpenFailed(OrderError::Connectivity(ConnectivityError::Timeout))) => Class::Timeout,
                _ => Class::Response,
            };
            if class == Class::Response {
                let ok = match beh {
                    Some(Beh::Ok) => o.state == OrderState::active(open_meta(pos, Decimal::ZERO)),
                    // the statement does not say how a filled answer is presented: both are the client's answer
                    Some(Beh::Filled) => {
                        o.state == OrderState::fully_filled() || o.state == OrderState::active(open_meta(pos, st.quantity))
                    }
                    // an order that is partly filled is still open: the client's answer says how much is filled
                    Some(Beh::Partial) => o.state == OrderState::active(open_meta(pos, st.quantity / Decimal::TWO)),
                    Some(Beh::Err) => o.state == OrderState::inactive(client_error_indexed(pos)),
                    Some(Beh::ErrConn) => o.state == OrderState::inactive(client_error_conn::<AssetIndex, InstrumentIndex>(pos)),
                    // no indexed form exists: any failure that is not the timeout failure passes as the client's answer
                    Some(Beh::ErrForeign) => matches!(&o.state, OrderState::Inactive(InactiveOrderState::OpenFailed(_))),
                    None => false, // a response although the client never answered
                };
                if !ok {
                    problems.push(("content", format!("is not the client's own answer {beh:?}")));
                }
            }
            (class, &o.key)
        }
        (Kind::Cancel, AccountEventKind::OrderCancelled(c)) if c.key.cid == key.cid => {
            let class = match &c.state {
                Err(OrderError::Connectivity(ConnectivityError::Timeout)) => Class::Timeout,
                _ => Class::Response,
            };
            if class == Class::Response {
                let ok = match beh {
                    Some(Beh::Err) => c.state == Err(client_error_indexed(pos)),
                    Some(Beh::ErrConn) => c.state == Err(client_error_conn(pos)),
                    Some(Beh::ErrForeign) => c.state.is_err(),
                    Some(_) => c.state == Ok(cancelled_meta(pos)),
                    None => false,
                };
                if !ok {
                    problems.push(("content", format!("is not the client's own answer {beh:?}")));
                }
            }
            (class, &c.key)
        }
        _ => return None,
    };
    if *exchange != w.exchange || ev_key.exchange != w.exchange {
        problems.push(("exchange", format!("carries exchange {exchange:?}/{:?}, manager serves {:?}", ev_key.exchange, w.exchange)));
    }
    if ev_key.instrument != key.instrument {
        problems.push(("instrument", format!("carries instrument {:?}, request has {:?}", ev_key.instrument, key.instrument)));
    }
    if ev_key.strategy != key.strategy {
        problems.push(("strategy", format!("carries strategy {:?}, request has {:?}", ev_key.strategy, key.strategy)));
    }
    Some((class, problems))
}

// ------------------------------------------------------------------------------------------------
// exploration
// ------------------------------------------------------------------------------------------------

fn case_json(cfg: Cfg, batch: &[Req], p: &Params, choices: Vec<usize>) -> Value {
    json!({"engine": "env", "cfg": cfg, "batch": batch, "params": p, "choices": choices})
}

struct Tally {
    executions: AtomicU64,
    choice_points: AtomicU64,
    terminated: AtomicU64,
    answered_by_response: AtomicU64,
    answered_by_timeout: AtomicU64,
    race_at_deadline: AtomicU64,
    selfchecks: AtomicU64,
    /// self-checked schedules whose two executions differed (both allowed) where a repeated request met the due
    /// timeout of its outstanding twin
    selfchecks_twin_race: AtomicU64,
    repeats: Mutex<std::collections::BTreeMap<&'static str, u64>>,
    /// schedules whose two executions differed although neither broke a rule: (count, smallest case)
    nondeterministic: Mutex<(u64, Option<(u64, Value)>)>,
    distinct: Distinct,
    samples: Mutex<std::collections::BTreeMap<u64, Value>>,
}

fn explore_batch(ctx: &Ctx, cfg: Cfg, batch: &[Req], p: &Params, bound: Option<usize>, t: &Tally) -> choice::ChoiceStats {
    let stats = choice::explore(bound, |ch| {
        let ex = execute(cfg, batch, p, ch);
        let choices = ch.choices();
        // determinism self-check on a fixed subset of the schedules: same schedule twice => same observations
        if hash_of(&choices) % 97 == 0 {
            let mut ch2 = Chooser::new(choices.clone());
            let ex2 = execute(cfg, batch, p, &mut ch2);
            let sigs = |e: &Exec| e.viols.iter().map(|v| v.0.clone()).collect::<Vec<_>>();
            if ex2.outcome != ex.outcome || sigs(&ex2) != sigs(&ex) || ex2.terminated != ex.terminated {
                // A request handed over at the very instant the timeout of an outstanding request for the same
                // (kind, cid) falls due, before the manager has run: whether the manager meets the new request or
                // the timeout first is select!'s (not enumerated) choice, and a manager that does not accept a
                // request for an already outstanding (kind, cid) then legitimately answers differently.
                if ex.viols.is_empty() && ex2.viols.is_empty() && (ex.twin_race || ex2.twin_race) {
                    t.selfchecks_twin_race.fetch_add(1, Ordering::Relaxed);
                } else if ex.viols.is_empty() && ex2.viols.is_empty() {
                    // Same schedule, different (each time allowed) observations. If the whole run finds no
                    // violation this is a machinery failure (exit 2, decided at the end of `run`); if it does,
                    // the subject itself is schedule-dependent beyond what the harness controls (e.g. a shared
                    // deadline makes select!'s branch order observable) and the violations are the verdict.
                    let mut g = t.nondeterministic.lock().unwrap();
                    g.0 += 1;
                    let case = case_json(cfg, batch, p, choices.clone());
                    let h = hash_of(&case.to_string());
                    if g.1.as_ref().map(|(h0, _)| h < *h0).unwrap_or(true) {
                        g.1 = Some((h, case));
                    }
                }
                // the subject itself behaves differently on the same schedule (select!'s random start branch)
                // and at least one behaviour breaks the property: that is a verdict, report both runs
                for (sig, detail) in ex2.viols {
                    ctx.violate(sig, format!("{detail} || schedule: {}", ex2.trace.join("; ")), case_json(cfg, batch, p, choices.clone()));
                }
            }
            t.selfchecks.fetch_add(1, Ordering::Relaxed);
        }
        t.executions.fetch_add(1, Ordering::Relaxed);
        if ex.terminated {
            t.terminated.fetch_add(1, Ordering::Relaxed);
        }
        for (_, expect, classes) in &ex.outcome {
            match expect {
                Expect::Either(_) => t.race_at_deadline.fetch_add(1, Ordering::Relaxed),
                Expect::Timeout => 0,
                Expect::Response(_) => 0,
            };
            for c in classes {
                match c {
                    Class::Response => t.answered_by_response.fetch_add(1, Ordering::Relaxed),
                    Class::Timeout => t.answered_by_timeout.fetch_add(1, Ordering::Relaxed),
                };
            }
        }
        if !ex.repeats.is_empty() {
            let mut g = t.repeats.lock().unwrap();
            for (_, rel) in &ex.repeats {
                *g.entry(rel).or_insert(0) += 1;
            }
        }
        t.distinct.add(&(cfg, batch.to_vec(), ex.outcome.clone()));
        if batch.len() >= 2 && ex.outcome.iter().any(|o| o.2 == vec![Class::Response]) && ex.outcome.iter().any(|o| o.2 == vec![Class::Timeout]) {
            // deterministic sample: the few mixed executions with the smallest case hash
            let h = hash_of(&(cfg, batch.to_vec(), choices.clone()));
            let mut g = t.samples.lock().unwrap();
            if g.len() < 4 || h < *g.keys().next_back().unwrap() {
                g.insert(h, json!({"case": case_json(cfg, batch, p, choices.clone()), "trace": ex.trace}));
                if g.len() > 4 {
                    let last = *g.keys().next_back().unwrap();
                    g.remove(&last);
                }
            }
        }
        for (sig, detail) in ex.viols {
            ctx.violate(sig, format!("{detail} || schedule: {}", ex.trace.join("; ")), case_json(cfg, batch, p, choices.clone()));
        }
    });
    t.choice_points.fetch_add(stats.choice_points, Ordering::Relaxed);
    stats
}

pub fn run(ctx: &Ctx) -> Outcome {
    install_quiet_hook();
    let quick = ctx.tier == crate::core::Tier::Quick;
    // (label, n, cfgs, params, deviation bound)
    let uniform = |filled: bool, burst: bool| Params {
        timeout_ms: 200,
        instants: vec![0, 100, 200, 300, 400],
        deliver_until: 100,
        burst,
        filled,
        partial: false,
        same_terms: false,
        err_classes: false,
    };
    // epsilon instants around the deadlines (199/200/201 and 299/300/301) for the thorough tier
    let eps = |filled: bool| Params {
        timeout_ms: 200,
        instants: vec![0, 100, 199, 200, 201, 299, 300, 301],
        deliver_until: 100,
        burst: false,
        filled,
        partial: false,
        same_terms: false,
        err_classes: false,
    };
    // repeat plans: T = 1 tick and hand-overs up to 2 ticks, so that a request can be re-issued after the
    // earlier instance was answered, while it is outstanding, exactly at its deadline (before or after
    // the manager has run) and after it has timed out
    let late = |filled: bool, burst: bool, deliver_until: u64| Params {
        timeout_ms: 100,
        instants: vec![0, 100, 200, 300],
        deliver_until,
        burst,
        filled,
        partial: false,
        same_terms: false,
        err_classes: false,
    };
    // (label, n, repeated (kind, cid) batches?, cfgs, params, deviation bound)
    let mut plans: Vec<(&str, usize, bool, Vec<Cfg>, Params, Option<usize>)> = vec![
        // (cfg 2, 3: the same schedules through the builder path; `partial`: opens may also be answered partly filled)
        ("n=1", 1, false, vec![0, 1, 2, 3, 4, 5], Params { partial: true, err_classes: true, ..uniform(true, true) }, None),
        ("n=2", 2, false, vec![0, 1, 2, 3, 4, 5], Params { partial: true, err_classes: true, ..uniform(true, true) }, None),
        // request timeouts far outside the everyday range: 36 h and 2 ms (instants T/2 apart), direct and through the builder
        ("n=2/T=36h", 2, false, vec![0, 3], Params { timeout_ms: 129_600_000, instants: vec![0, 64_800_000, 129_600_000, 194_400_000, 259_200_000], deliver_until: 64_800_000, ..uniform(false, false) }, None),
        ("n=2/T=2ms", 2, false, vec![1, 2], Params { timeout_ms: 2, instants: vec![0, 1, 2, 3, 4], deliver_until: 1, ..uniform(false, false) }, None),
        // a request timeout with whole seconds AND a sub-second part (T = 1.5 s, instants T/2 apart)
        ("n=2/T=1.5s", 2, false, vec![1, 2], Params { timeout_ms: 1500, instants: vec![0, 750, 1500, 2250, 3000], deliver_until: 750, burst: true, filled: false, partial: false, same_terms: false, err_classes: false }, None),
        // identical terms: the requests differ in nothing but kind and client order id
        ("n=2/same-terms", 2, false, vec![0, 3], Params { same_terms: true, ..uniform(false, true) }, None),
        ("n=2/repeat", 2, true, vec![0, 1], uniform(true, true), None),
        ("n=2/repeat/late", 2, true, vec![0, 1], late(true, true, 200), None),
    ];
    if quick {
        plans.push(("n=3", 3, false, vec![0, 1], uniform(false, false), None));
        plans.push(("n=3/repeat", 3, true, vec![1], uniform(false, false), None));
        plans.push(("n=3/repeat/late", 3, true, vec![0], late(false, false, 200), None));
    } else {
        plans.push(("n=3", 3, false, vec![0, 1], uniform(false, true), None));
        plans.push(("n=2/eps", 2, false, vec![0], eps(true), None));
        plans.push(("n=3/eps", 3, false, vec![0], eps(false), Some(4)));
        plans.push(("n=4", 4, false, vec![0], uniform(false, false), Some(4)));
        // three hand-over instants, T = 3 ticks: requests whose deadlines are all different
        let t3 = Params { timeout_ms: 300, instants: vec![0, 100, 200, 300, 400, 500, 600], deliver_until: 200, burst: false, filled: false, partial: false, same_terms: false, err_classes: false };
        plans.push(("n=3/T=3ticks", 3, false, vec![1], t3, None));
        plans.push(("n=3/repeat", 3, true, vec![0, 1], uniform(false, true), None));
        plans.push(("n=3/repeat/late", 3, true, vec![0, 1], late(false, true, 200), None));
        plans.push(("n=2/repeat/eps", 2, true, vec![1], eps(true), None));
        plans.push(("n=4/repeat", 4, true, vec![1], uniform(false, false), Some(4)));
        plans.push(("n=4/repeat/late", 4, true, vec![0], late(false, false, 200), Some(4)));
        plans.push(("n=3/builder", 3, false, vec![3], uniform(false, false), None));
        plans.push(("n=3/same-terms", 3, false, vec![1], Params { same_terms: true, ..uniform(false, false) }, None));
        plans.push(("n=2/repeat/builder", 2, true, vec![2, 3], late(true, true, 200), None));
    }

    let t = Tally {
        executions: AtomicU64::new(0),
        choice_points: AtomicU64::new(0),
        terminated: AtomicU64::new(0),
        answered_by_response: AtomicU64::new(0),
        answered_by_timeout: AtomicU64::new(0),
        race_at_deadline: AtomicU64::new(0),
        selfchecks: AtomicU64::new(0),
        selfchecks_twin_race: AtomicU64::new(0),
        repeats: Mutex::new(Default::default()),
        nondeterministic: Mutex::new((0, None)),
        distinct: Distinct::default(),
        samples: Mutex::new(Default::default()),
    };
    let mut per_plan = Vec::new();
    let mut all_exhaustive = true;
    for (label, n, repeats, cfgs, p, bound) in &plans {
        let batches = if *repeats { batches(*n, true) } else { all_batches(*n) };
        let jobs: Vec<(Cfg, Vec<Req>)> =
            cfgs.iter().flat_map(|c| batches.iter().map(move |b| (*c, b.clone()))).collect();
        let before = t.executions.load(Ordering::Relaxed);
        let max_points = jobs
            .par_iter()
            .map(|(cfg, b)| explore_batch(ctx, *cfg, b, p, *bound, &t).max_points)
            .max()
            .unwrap_or(0);
        let execs = t.executions.load(Ordering::Relaxed) - before;
        all_exhaustive &= bound.is_none();
        per_plan.push(json!({
            "plan": label, "requests": n, "repeated_kind_cid": repeats, "configs": cfgs, "batches": batches.len(), "params": p,
            "deviation_bound": bound, "all_schedules": bound.is_none(), "executions": execs, "max_choice_points": max_points,
        }));
        eprintln!("C07 {label}: batches={} cfgs={} executions={execs} elapsed={:.1}s", batches.len(), cfgs.len(), ctx.start.elapsed().as_secs_f64());
    }
    // ---- load layer: every n up to the bound x kinds x client behaviour x hand-over style, scripted schedules
    let load_max: usize = ctx.tier.pick(100, 255);
    let load_cfgs: Vec<Cfg> = vec![1, 2];
    let mut load_jobs: Vec<(Cfg, usize, LoadKinds, LoadMode, bool)> = Vec::new();
    for cfg in &load_cfgs {
        for n in 1..=load_max {
            for kinds in LOAD_KINDS {
                for mode in LOAD_MODES {
                    for burst in [false, true] {
                        load_jobs.push((*cfg, n, kinds, mode, burst));
                    }
                }
            }
        }
    }
    let load_answers = AtomicU64::new(0);
    let load_max_outstanding = AtomicU64::new(0);
    let before_load = t.executions.load(Ordering::Relaxed);
    load_jobs.par_iter().for_each(|(cfg, n, kinds, mode, burst)| {
        let shutdown = n % 2 == 0;
        let case = json!({"engine": "load", "cfg": cfg, "n": n, "kinds": kinds, "mode": mode, "burst": burst, "shutdown": shutdown});
        let ex = execute_load(*cfg, *n, *kinds, *mode, *burst, shutdown);
        if n % 16 == 0 {
            // determinism self-check
            let ex2 = execute_load(*cfg, *n, *kinds, *mode, *burst, shutdown);
            let sigs = |e: &Exec| e.viols.iter().map(|v| v.0.clone()).collect::<Vec<_>>();
            if ex2.outcome != ex.outcome || sigs(&ex2) != sigs(&ex) {
                if ex.viols.is_empty() && ex2.viols.is_empty() {
                    let mut g = t.nondeterministic.lock().unwrap();
                    g.0 += 1;
                    let h = hash_of(&case.to_string());
                    if g.1.as_ref().map(|(h0, _)| h < *h0).unwrap_or(true) {
                        g.1 = Some((h, case.clone()));
                    }
                }
                for (sig, detail) in ex2.viols {
                    ctx.violate(sig, format!("{detail} || {n} requests outstanding together ({kinds:?}, {mode:?}, burst={burst})"), case.clone());
                }
            }
            t.selfchecks.fetch_add(1, Ordering::Relaxed);
        }
        t.executions.fetch_add(1, Ordering::Relaxed);
        if ex.terminated {
            t.terminated.fetch_add(1, Ordering::Relaxed);
        }
        load_max_outstanding.fetch_max(*n as u64, Ordering::Relaxed);
        for (_, _, classes) in &ex.outcome {
            load_answers.fetch_add(classes.len() as u64, Ordering::Relaxed);
            for c in classes {
                match c {
                    Class::Response => t.answered_by_response.fetch_add(1, Ordering::Relaxed),
                    Class::Timeout => t.answered_by_timeout.fetch_add(1, Ordering::Relaxed),
                };
            }
        }
        t.distinct.add(&(cfg, n, kinds, mode, ex.outcome.clone()));
        for (sig, detail) in ex.viols {
            // the whole schedule of a large batch is long: the replay prints it
            ctx.violate(sig, format!("{detail} || load layer: {n} requests outstanding together ({kinds:?}, {mode:?}, burst={burst})"), case.clone());
        }
    });
    let load_execs = t.executions.load(Ordering::Relaxed) - before_load;
    eprintln!("C07 load: n=1..={load_max} cfgs={} executions={load_execs} elapsed={:.1}s", load_cfgs.len(), ctx.start.elapsed().as_secs_f64());

    let executions = t.executions.load(Ordering::Relaxed);
    let nondet = t.nondeterministic.lock().unwrap().clone();
    if let (n, Some((_, case))) = &nondet {
        if ctx.violations.len() == 0 {
            eprintln!("MACHINERY: C07: {n} schedule(s) are not deterministic although no rule is broken, e.g. {case}");
            std::process::exit(2);
        }
        eprintln!("C07: note: {n} self-checked schedule(s) gave different (each time allowed) observations on re-execution, e.g. {case}");
    }
    Outcome {
        level: "exploration",
        coverage: json!({
            "evaluations": executions,
            "distinct_nontrivial": t.distinct.len(),
            "choice_points": t.choice_points.load(Ordering::Relaxed),
            "executions_terminated_on_shutdown_or_close": t.terminated.load(Ordering::Relaxed),
            "answers_by_response": t.answered_by_response.load(Ordering::Relaxed),
            "answers_by_timeout": t.answered_by_timeout.load(Ordering::Relaxed),
            "requests_racing_at_deadline": t.race_at_deadline.load(Ordering::Relaxed),
            "determinism_selfchecks": t.selfchecks.load(Ordering::Relaxed),
            "selfchecks_subject_schedule_dependent": nondet.0,
            "selfchecks_differing_only_at_a_repeated_request_racing_its_twins_timeout": t.selfchecks_twin_race.load(Ordering::Relaxed),
            "repeated_requests_by_state_of_previous_instance": *t.repeats.lock().unwrap(),
            "exhaustive": all_exhaustive,
            "plans": per_plan,
            "load_layer": {
                "requests_outstanding_together": format!("every n in 1..={load_max}"), "max_outstanding": load_max_outstanding.load(Ordering::Relaxed),
                "configs": load_cfgs, "kinds": LOAD_KINDS, "client_modes": LOAD_MODES, "hand_over": ["one by one", "all before the manager runs"],
                "timeout_ms": LOAD_TIMEOUT_MS, "executions": load_execs, "answers_observed": load_answers.load(Ordering::Relaxed),
            },
            "rule": "every environment schedule (hand-over instants, per-request client answer Ok/Err (API rejection or connectivity-class error)/filled/partly filled before/at/after the deadline or never, all answer orders, manager run before/after an answer at the deadline instant, Shutdown/close) of every batch of n open/cancel requests with colliding cids (incl. the same (kind, cid) requested repeatedly), executed on the real ExecutionManager::run under virtual time - directly (ExecutionManager::new) and through the builder path (ExecutionBuilder::add_live x 2 exchanges -> ExecutionManager::init -> run + forward_to the merged account channel, requests routed through the MultiExchangeTxMap; the other exchange added with a different timeout; one configuration with an unlinked exchange placed first); request timeouts from 2 ms to 36 h; plus a load layer with every number n <= bound of requests outstanding together under scripted client behaviour; per request exactly one answer of the class the statement prescribes, correctly attributed",
            "samples": t.samples.lock().unwrap().values().cloned().collect::<Vec<_>>(),
        }),
        assumptions: vec![
            "an open and a cancel may share a cid; in the 'repeat' plans the same (kind, cid) is requested two or more times (after the earlier one was answered / timed out / while outstanding): every instance needs its own single answer, events without an instance tag (cancel timeouts) are matched per (kind, cid) as a multiset of answer classes; forwarding or not de-duplicating repeated requests is neither demanded nor forbidden; a repeated request handed over while an earlier request for the same (kind, cid) is still outstanding at the manager need not be accepted (no client call: no own event, or one refusal)".into(),
            "requests name instruments configured for the manager's exchange (the code panics otherwise by design)".into(),
            "the client echoes the order key it was called with; its error answers are an API rejection naming no asset / instrument, or a socket-class connectivity error (both distinguishable from a timeout failure, both translatable by the indexer)".into(),
            "the manager task is run whenever it has been woken and before anything later happens (no scheduler starvation, no spurious polls); only at the deadline instant itself the order is an environment choice".into(),
            "select!'s random start branch is not enumerated; the oracle ignores the order of events".into(),
            "virtual instants are whole milliseconds (tokio timer granularity)".into(),
            "builder path: the client's account stream stays silent and its initial snapshot is empty; the account snapshot every manager emits first is not an answer and is skipped".into(),
            "load layer: schedules are scripted (answers newest-first / all at once / none / mixed at T/2), not enumerated; client order ids pairwise distinct".into(),
        ],
    }
}

pub fn replay(ctx: &Ctx, case: &Value) {
    let cfg: Cfg = serde_json::from_value(case["cfg"].clone()).expect("replay: cfg");
    if case["engine"].as_str() == Some("load") {
        install_quiet_hook();
        let n = case["n"].as_u64().expect("replay: n") as usize;
        let kinds: LoadKinds = serde_json::from_value(case["kinds"].clone()).expect("replay: kinds");
        let mode: LoadMode = serde_json::from_value(case["mode"].clone()).expect("replay: mode");
        let burst = case["burst"].as_bool().expect("replay: burst");
        let shutdown = case["shutdown"].as_bool().expect("replay: shutdown");
        let ex = execute_load(cfg, n, kinds, mode, burst, shutdown);
        for line in &ex.trace {
            println!("replay: {line}");
        }
        println!("replay: manager terminated normally = {}", ex.terminated);
        for (sig, detail) in ex.viols {
            ctx.violate(sig, detail, case.clone());
        }
        return;
    }
    let batch: Vec<Req> = serde_json::from_value(case["batch"].clone()).expect("replay: batch");
    let p: Params = serde_json::from_value(case["params"].clone()).expect("replay: params");
    let choices: Vec<usize> = serde_json::from_value(case["choices"].clone()).expect("replay: choices");
    install_quiet_hook();
    let mut ch = Chooser::new(choices);
    let ex = execute(cfg, &batch, &p, &mut ch);
    for line in &ex.trace {
        println!("replay: {line}");
    }
    for (r, expect, got) in &ex.outcome {
        println!("replay: {r:?}: expected {expect:?}, observed {got:?}");
    }
    println!("replay: manager terminated normally = {}", ex.terminated);
    for (sig, detail) in ex.viols {
        ctx.violate(sig, detail, case.clone());
    }
}
