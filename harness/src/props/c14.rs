//! C14 — Global connectivity is healthy exactly when every exchange link is.
//!
//! E-BFS to fixpoint through the real `Engine::process`, for 1, 2 and 3 exchanges. State = the
//! connectivity flags of the real engine state (2 per exchange + global). The reference model (flags
//! as the statement defines them) is recomputed from the same state: since the invariant
//! `global == all healthy` is checked in every reached state and the per-link flags of the model and
//! the implementation must agree after every step, a divergence is reported on the step that causes
//! it and the search continues from the implementation's state.

use super::common::*;
use crate::core::{Ctx, Outcome, hash_of};
use crate::explore::bfs::{self, Model, Viol};
use barter::{
    EngineEvent,
    engine::{
        EngineOutput, Processor,
        audit::EngineAudit,
        state::{connectivity::Health, trading::TradingState},
    },
    execution::AccountStreamEvent,
};
use barter_data::{
    books::Level,
    event::{DataKind, MarketEvent},
    streams::consumer::MarketStreamEvent,
    subscription::{book::OrderBookL1, liquidation::Liquidation, trade::PublicTrade},
};
use barter_execution::{
    AccountEvent, AccountEventKind, AccountSnapshot,
    balance::{AssetBalance, Balance},
    order::{
        Order, OrderKey, OrderKind, TimeInForce,
        id::{ClientOrderId, OrderId},
        request::OrderResponseCancel,
        state::{Cancelled, OrderState},
    },
    trade::{AssetFees, Trade, TradeId},
};
use barter_instrument::{
    Side,
    asset::AssetIndex,
    exchange::{ExchangeId, ExchangeIndex},
    index::IndexedInstruments,
    instrument::InstrumentIndex,
};
use barter_integration::snapshot::Snapshot;
use rust_decimal::Decimal;
use serde::{Deserialize, Serialize};
use serde_json::{Value, json};

#[derive(Debug, Clone, Copy, PartialEq, Eq, Hash, Serialize, Deserialize)]
pub enum Act {
    /// (exchange, market event kind: 0 trade, 1 top of book, 2 liquidation)
    MarketItem(usize, u8),
    /// (exchange, account event kind: 0 balance, 1 order snapshot, 2 trade, 3 full snapshot, 4 cancel response)
    AccountItem(usize, u8),
    MarketReconnecting(usize),
    AccountReconnecting(usize),
}

/// (market healthy, account healthy) per exchange + global healthy
#[derive(Debug, Clone, PartialEq, Eq, Hash)]
pub struct St {
    links: Vec<(bool, bool)>,
    global: bool,
}

pub struct M {
    n: usize,
    instruments: IndexedInstruments,
}

impl M {
    pub fn new(n: usize) -> Self {
        let mut b = IndexedInstruments::builder();
        for (i, ex) in EXCHANGES.iter().take(n).enumerate() {
            b = b.add_instrument(spot(*ex, &format!("i{i}"), &format!("I{i}"), "btc", "usdt"));
            // a second instrument on the first exchange so instrument index != exchange index
            if i == 0 {
                b = b.add_instrument(spot(*ex, "i0b", "I0B", "eth", "usdt"));
            }
        }
        Self { n, instruments: b.build() }
    }

    fn exchange_id(&self, x: usize) -> ExchangeId {
        self.instruments.exchanges()[x].value
    }

    fn instrument_on(&self, x: usize) -> InstrumentIndex {
        // last instrument of that exchange (so that for exchange 0 the index is 1, for exchange 1 it is 2…)
        self.instruments
            .instruments()
            .iter()
            .filter(|i| i.value.exchange.key == ExchangeIndex(x))
            .last()
            .unwrap()
            .key
    }

    fn asset_on(&self, x: usize) -> AssetIndex {
        self.instruments
            .assets()
            .iter()
            .filter(|a| a.value.exchange == self.exchange_id(x))
            .last()
            .unwrap()
            .key
    }

    fn event(&self, a: &Act) -> Event {
        match *a {
            Act::MarketItem(x, k) => EngineEvent::Market(MarketStreamEvent::Item(MarketEvent {
                time_exchange: t_plus(1),
                time_received: t_plus(1),
                exchange: self.exchange_id(x),
                instrument: self.instrument_on(x),
                kind: match k {
                    0 => DataKind::Trade(PublicTrade { id: "1".into(), price: 100.0, amount: 1.0, side: Side::Buy }),
                    1 => DataKind::OrderBookL1(OrderBookL1 {
                        last_update_time: t_plus(1),
                        best_bid: Some(Level::new(Decimal::from(99), Decimal::ONE)),
                        best_ask: Some(Level::new(Decimal::from(101), Decimal::ONE)),
                    }),
                    _ => DataKind::Liquidation(Liquidation { side: Side::Sell, price: 100.0, quantity: 1.0, time: t_plus(1) }),
                },
            })),
            Act::AccountItem(x, k) => {
                let key = OrderKey {
                    exchange: ExchangeIndex(x),
                    instrument: self.instrument_on(x),
                    strategy: strategy_id(),
                    cid: ClientOrderId::new("c"),
                };
                let balance = AssetBalance {
                    asset: self.asset_on(x),
                    balance: Balance::new(Decimal::ONE, Decimal::ONE),
                    time_exchange: t_plus(1),
                };
                let kind = match k {
                    0 => AccountEventKind::BalanceSnapshot(Snapshot(balance)),
                    1 => AccountEventKind::OrderSnapshot(Snapshot(Order {
                        key,
                        side: Side::Buy,
                        price: Decimal::from(100),
                        quantity: Decimal::ONE,
                        kind: OrderKind::Limit,
                        time_in_force: TimeInForce::GoodUntilCancelled { post_only: false },
                        state: OrderState::fully_filled(),
                    })),
                    2 => AccountEventKind::Trade(Trade {
                        id: TradeId::new("t"),
                        order_id: OrderId::new("o"),
                        instrument: self.instrument_on(x),
                        strategy: strategy_id(),
                        time_exchange: t_plus(1),
                        side: Side::Buy,
                        price: Decimal::from(100),
                        quantity: Decimal::ONE,
                        fees: AssetFees::quote_fees(Decimal::ZERO),
                    }),
                    3 => AccountEventKind::Snapshot(AccountSnapshot { exchange: ExchangeIndex(x), balances: vec![balance], instruments: vec![] }),
                    _ => AccountEventKind::OrderCancelled(OrderResponseCancel {
                        key,
                        state: Ok(Cancelled { id: OrderId::new("o"), time_exchange: t_plus(1) }),
                    }),
                };
                EngineEvent::Account(AccountStreamEvent::Item(AccountEvent { exchange: ExchangeIndex(x), kind }))
            }
            Act::MarketReconnecting(x) => {
                EngineEvent::Market(MarketStreamEvent::Reconnecting(self.exchange_id(x)))
            }
            Act::AccountReconnecting(x) => {
                EngineEvent::Account(AccountStreamEvent::Reconnecting(self.exchange_id(x)))
            }
        }
    }

    fn engine_from(&self, s: &St) -> SEngine {
        let (mut engine, _links) = build_engine(&self.instruments, TradingState::Disabled, &[]);
        engine.state.connectivity.global = h(s.global);
        for (x, (m, a)) in s.links.iter().enumerate() {
            let st = engine.state.connectivity.connectivity_index_mut(&ExchangeIndex(x));
            st.market_data = h(*m);
            st.account = h(*a);
        }
        engine
    }

    fn snapshot(&self, engine: &SEngine) -> St {
        St {
            links: (0..self.n)
                .map(|x| {
                    let st = engine.state.connectivity.connectivity_index(&ExchangeIndex(x));
                    (st.market_data == Health::Healthy, st.account == Health::Healthy)
                })
                .collect(),
            global: engine.state.connectivity.global == Health::Healthy,
        }
    }
}

fn h(b: bool) -> Health {
    if b { Health::Healthy } else { Health::Reconnecting }
}

impl Model for M {
    type State = St;
    type Action = Act;

    fn init(&self) -> Vec<St> {
        // the state the real builder produces (all reconnecting)
        let (engine, _) = build_engine(&self.instruments, TradingState::Disabled, &[]);
        vec![self.snapshot(&engine)]
    }

    fn actions(&self, _s: &St) -> Vec<Act> {
        let mut v = Vec::new();
        for x in 0..self.n {
            for k in 0..3u8 {
                v.push(Act::MarketItem(x, k));
            }
            for k in 0..5u8 {
                v.push(Act::AccountItem(x, k));
            }
            v.push(Act::MarketReconnecting(x));
            v.push(Act::AccountReconnecting(x));
        }
        v
    }

    fn step(&self, s: &St, a: &Act, out: &mut Vec<Viol>) -> Option<St> {
        let mut engine = self.engine_from(s);
        let event = self.event(a);
        let Ok(audit) = crate::core::guarded(|| engine.process(event)) else {
            out.push(("C14/panic/engine-process".to_string(), format!("before={s:?} event={a:?}: Engine::process panicked")));
            return None;
        };
        let got = self.snapshot(&engine);

        // reference: the statement
        let mut want = s.links.clone();
        let (x, expect_disc): (usize, Option<ExchangeId>) = match *a {
            Act::MarketItem(x, _) => {
                want[x].0 = true;
                (x, None)
            }
            Act::AccountItem(x, _) => {
                want[x].1 = true;
                (x, None)
            }
            Act::MarketReconnecting(x) => {
                want[x].0 = false;
                (x, Some(self.exchange_id(x)))
            }
            Act::AccountReconnecting(x) => {
                want[x].1 = false;
                (x, Some(self.exchange_id(x)))
            }
        };
        let kind = match a {
            Act::MarketItem(..) => "market-item",
            Act::AccountItem(..) => "account-item",
            Act::MarketReconnecting(_) => "market-reconnecting",
            Act::AccountReconnecting(_) => "account-reconnecting",
        };
        if got.links != want {
            // which link is wrong?
            let mut what = String::new();
            for (i, (g, w)) in got.links.iter().zip(want.iter()).enumerate() {
                if g != w {
                    what = if i == x { "own-link-wrong".into() } else { "other-exchange-link-changed".into() };
                    break;
                }
            }
            out.push((
                format!("C14/link-flags/{kind}/{what}"),
                format!("before={:?} event={a:?} links after={:?} expected={:?}", s, got.links, want),
            ));
        }
        let all = got.links.iter().all(|(m, a)| *m && *a);
        if got.global != all {
            out.push((
                format!(
                    "C14/global-iff-all-healthy/{kind}/global={}-all={}",
                    got.global, all
                ),
                format!("before={:?} event={a:?} after={:?}", s, got),
            ));
        }
        // on_disconnect exactly once per notice, for the right exchange; never for items
        let calls = &engine.strategy.disconnects;
        let want_calls: Vec<ExchangeId> = expect_disc.into_iter().collect();
        if *calls != want_calls {
            out.push((
                format!("C14/on-disconnect-calls/{kind}/got={}-want={}", calls.len(), want_calls.len()),
                format!("event={a:?} on_disconnect calls={calls:?} expected={want_calls:?}"),
            ));
        }
        // audit carries the disconnect output
        let outputs: Vec<_> = match &audit {
            EngineAudit::Process(p) => p.outputs.iter().cloned().collect(),
            EngineAudit::FeedEnded => vec![],
        };
        let disc_outputs: Vec<(bool, ExchangeId)> = outputs
            .iter()
            .filter_map(|o| match o {
                EngineOutput::AccountDisconnect(e) => Some((true, *e)),
                EngineOutput::MarketDisconnect(e) => Some((false, *e)),
                _ => None,
            })
            .collect();
        let want_outputs: Vec<(bool, ExchangeId)> = match *a {
            Act::MarketReconnecting(x) => vec![(false, self.exchange_id(x))],
            Act::AccountReconnecting(x) => vec![(true, self.exchange_id(x))],
            _ => vec![],
        };
        if disc_outputs != want_outputs {
            out.push((
                format!("C14/audit-disconnect-output/{kind}"),
                format!("event={a:?} audit disconnect outputs={disc_outputs:?} expected={want_outputs:?}"),
            ));
        }
        Some(got)
    }

    fn impl_hash(&self, s: &St) -> Option<u64> {
        Some(hash_of(s))
    }
}

pub fn run(ctx: &Ctx) -> Outcome {
    let mut states = 0usize;
    let mut transitions = 0u64;
    let mut per_n = Vec::new();
    let mut samples = Vec::new();
    let mut max_depth = 0;
    let mut fix = true;
    for n in 1..=3usize {
        let m = M::new(n);
        let st = bfs::run(ctx, &m, &format!("exchanges={n}"), None, 5_000_000);
        states += st.states;
        transitions += st.transitions;
        max_depth = max_depth.max(st.max_depth);
        fix &= st.fixpoint;
        per_n.push(json!({"exchanges": n, "states": st.states, "transitions": st.transitions, "max_depth": st.max_depth, "fixpoint": st.fixpoint}));
        samples.extend(st.samples);
    }
    if !fix {
        eprintln!("MACHINERY: C14 BFS did not reach its fixpoint");
        std::process::exit(2);
    }
    Outcome {
        level: "model_checking",
        coverage: json!({
            "states": states,
            "transitions": transitions,
            "traces_validated_against_impl": transitions,
            "max_depth": max_depth,
            "fixpoint_reached": fix,
            "exhaustive": true,
            "per_configuration": per_n,
            "samples": samples,
            "rule": "BFS to fixpoint over {market item (trade / top of book / liquidation), account item (balance / order snapshot / trade / full snapshot / cancel response), market reconnecting, account reconnecting} x exchange, for 1,2,3 exchanges, every transition executed by the real Engine::process; state = connectivity flags",
        }),
        assumptions: vec![
            "connectivity only depends on the connectivity flags (state rebuilt from them for each transition)".into(),
            "at most 3 exchanges".into(),
        ],
    }
}

pub fn replay(ctx: &Ctx, case: &Value) {
    let label = case["label"].as_str().unwrap_or("exchanges=3");
    let n: usize = label.trim_start_matches("exchanges=").parse().unwrap_or(3);
    let m = M::new(n);
    for (sig, detail) in bfs::replay(&m, case) {
        ctx.violate(sig, detail, case.clone());
    }
}
