//! C14 — Global connectivity is healthy exactly when every exchange link is.
//!
//! Layer 1: E-BFS to fixpoint through the real `Engine::process`, for a list of engine
//! *configurations* (`configs`): 1, 2, 3, 4 and 5 exchanges; exchange sets whose `ExchangeId` order (= the
//! `ExchangeIndex` order) differs from the alphabetical order of their names (rotated and reversed), so
//! that an index/identity mix-up cannot hide; trading enabled and disabled; exchanges with a healthy
//! execution link, a closed one and none at all (also "none" placed before a linked one). State = the
//! connectivity flags of the real engine state (2 per exchange + global), read **by `ExchangeId`** (the key
//! of the map the statement talks about); a state is re-established by driving a fresh real engine with one
//! item per healthy link (so implementation-private bookkeeping stays consistent), the flags are written
//! directly only for states that the event API cannot reproduce (invariant already broken). The reference model (flags as the
//! statement defines them) is recomputed from the same state: since the invariant
//! `global == all healthy` is checked in every reached state and the per-link flags of the model and
//! the implementation must agree after every step, a divergence is reported on the step that causes
//! it and the search continues from the implementation's state.
//!
//! Layer 2 (`persistent`): every sequence of length <= L over a reduced alphabet executed on ONE engine
//! that is never rebuilt (orders, positions, sequence numbers, clock and any other state the engine
//! keeps accumulate), judged step by step with the same oracle. It removes the assumption of layer 1
//! that connectivity depends on the connectivity flags only.

use super::common::*;
use crate::core::{Ctx, Outcome, hash_of};
use crate::explore::bfs::{self, Model, Viol};
use barter::{
    EngineEvent,
    engine::{
        EngineOutput, Processor,
        audit::EngineAudit,
        state::{connectivity::Health, trading::TradingState},
    },
    execution::AccountStreamEvent,
};
use barter_data::{
    books::{Level, OrderBook},
    event::{DataKind, MarketEvent},
    streams::consumer::MarketStreamEvent,
    subscription::{
        book::{OrderBookEvent, OrderBookL1},
        candle::Candle,
        liquidation::Liquidation,
        trade::PublicTrade,
    },
};
use barter_execution::{
    AccountEvent, AccountEventKind, AccountSnapshot, InstrumentAccountSnapshot,
    balance::{AssetBalance, Balance},
    error::{ApiError, ConnectivityError, OrderError},
    order::{
        Order, OrderKey, OrderKind, TimeInForce,
        id::{ClientOrderId, OrderId},
        request::OrderResponseCancel,
        state::{Cancelled, Open, OrderState},
    },
    trade::{AssetFees, Trade, TradeId},
};
use barter_instrument::{
    Side,
    asset::AssetIndex,
    exchange::{ExchangeId, ExchangeIndex},
    index::IndexedInstruments,
    instrument::InstrumentIndex,
};
use barter_integration::snapshot::Snapshot;
use rayon::prelude::*;
use rust_decimal::Decimal;
use serde::{Deserialize, Serialize};
use serde_json::{Value, json};

#[derive(Debug, Clone, Copy, PartialEq, Eq, Hash, Serialize, Deserialize)]
pub enum Act {
    /// (exchange, market event kind: 0 trade, 1 top of book, 2 liquidation, 3 L2 book snapshot, 4 candle,
    /// 5 trade on the exchange's FIRST instrument, 6 trade stamped before every other event (late arrival),
    /// 7 L2 book update)
    MarketItem(usize, u8),
    /// (exchange, account event kind: 0 balance, 1 order snapshot (fully filled), 2 trade, 3 full snapshot
    /// (balances), 4 cancel response ok, 5 order snapshot (open), 6 order snapshot (open failed: request timed
    /// out), 7 cancel response err, 8 full snapshot carrying an open order, 9 order snapshot (open failed:
    /// rejected) on the exchange's FIRST instrument)
    AccountItem(usize, u8),
    MarketReconnecting(usize),
    AccountReconnecting(usize),
}

/// (market healthy, account healthy) per exchange + global healthy
#[derive(Debug, Clone, PartialEq, Eq, Hash)]
pub struct St {
    links: Vec<(bool, bool)>,
    global: bool,
}

/// One engine configuration (a dimension the statement quantifies over: "any number of exchanges").
#[derive(Debug, Clone)]
pub struct Cfg {
    label: String,
    exchanges: Vec<ExchangeId>,
    trading: TradingState,
    /// execution link per exchange in `ExchangeIndex` order (None = tracked but not traded on)
    links: Vec<Option<TxMode>>,
}

fn cfg(label: &str, exchanges: &[ExchangeId], trading: TradingState, links: &[Option<TxMode>]) -> Cfg {
    Cfg { label: label.to_string(), exchanges: exchanges.to_vec(), trading, links: links.to_vec() }
}

/// All configurations explored (both tiers: the spaces are tiny).
fn configs() -> Vec<Cfg> {
    use ExchangeId::*;
    let h = Some(TxMode::Healthy);
    vec![
        // the original three (labels kept stable)
        cfg("exchanges=1", &EXCHANGES[..1], TradingState::Disabled, &[h]),
        cfg("exchanges=2", &EXCHANGES[..2], TradingState::Disabled, &[h, h]),
        cfg("exchanges=3", &EXCHANGES[..3], TradingState::Disabled, &[h, h, h]),
        // ExchangeId order Mock < BinanceSpot < Kraken, names binance_spot < kraken < mock (rotated)
        cfg("set=mock+binance_spot+kraken", &[Mock, BinanceSpot, Kraken], TradingState::Disabled, &[h, h, h]),
        // ExchangeId order Other < Bitvavo < Bithumb, names bithumb < bitvavo < other (reversed); trading enabled
        cfg("set=other+bitvavo+bithumb/trading=enabled", &[Other, Bitvavo, Bithumb], TradingState::Enabled, &[h, h, h]),
        // an exchange without execution link placed before a linked one, and one whose link is closed
        cfg("exchanges=3/trading=enabled/links=none+healthy+closed", &EXCHANGES[..3], TradingState::Enabled, &[None, h, Some(TxMode::Closed)]),
        cfg("exchanges=2/links=healthy+none", &EXCHANGES[..2], TradingState::Disabled, &[h, None]),
        cfg("exchanges=2/links=none+none", &EXCHANGES[..2], TradingState::Disabled, &[None, None]),
        // "any number of exchanges": more than three (a recomputation of the global flag that only looks at the
        // first few exchanges, or a per-exchange structure of fixed size, cannot hide behind <= 3)
        cfg("exchanges=4", &[Mock, BinanceSpot, Kraken, Okx], TradingState::Disabled, &[h, h, h, h]),
        cfg(
            "exchanges=5/trading=enabled/links=healthy+none+healthy+closed+healthy",
            &[Other, Mock, BinanceSpot, Kraken, Okx],
            TradingState::Enabled,
            &[h, None, h, Some(TxMode::Closed), h],
        ),
    ]
}

pub struct M {
    cfg: Cfg,
    n: usize,
    instruments: IndexedInstruments,
}

const MARKET_KINDS: u8 = 8;
const ACCOUNT_KINDS: u8 = 10;

impl M {
    pub fn new(cfg: Cfg) -> Self {
        let mut b = IndexedInstruments::builder();
        for (i, ex) in cfg.exchanges.iter().enumerate() {
            b = b.add_instrument(spot(*ex, &format!("i{i}"), &format!("I{i}"), "btc", "usdt"));
            // a second instrument on the first-listed exchange so instrument index != exchange index
            if i == 0 {
                b = b.add_instrument(spot(*ex, "i0b", "I0B", "eth", "usdt"));
            }
        }
        let instruments = b.build();
        // `exchanges` is given in ExchangeId order, which is the ExchangeIndex order the builder assigns
        assert!(
            instruments.exchanges().iter().map(|e| e.value).eq(cfg.exchanges.iter().copied()),
            "harness: configuration exchanges must be listed in ExchangeId order"
        );
        Self { n: cfg.exchanges.len(), cfg, instruments }
    }

    fn exchange_id(&self, x: usize) -> ExchangeId {
        self.instruments.exchanges()[x].value
    }

    /// last (`first == false`) or first instrument of that exchange (for exchange 0 the last one has
    /// index 1, for exchange 1 index 2, ... so instrument index != exchange index)
    fn instrument_of(&self, x: usize, first: bool) -> InstrumentIndex {
        let mut it = self.instruments.instruments().iter().filter(|i| i.value.exchange.key == ExchangeIndex(x));
        if first { it.next().unwrap().key } else { it.last().unwrap().key }
    }
    fn instrument_on(&self, x: usize) -> InstrumentIndex {
        self.instrument_of(x, false)
    }

    fn asset_on(&self, x: usize) -> AssetIndex {
        self.instruments
            .assets()
            .iter()
            .filter(|a| a.value.exchange == self.exchange_id(x))
            .last()
            .unwrap()
            .key
    }

    fn event(&self, a: &Act) -> Event {
        match *a {
            Act::MarketItem(x, k) => {
                let t = if k == 6 { t_plus(-3600) } else { t_plus(1) };
                EngineEvent::Market(MarketStreamEvent::Item(MarketEvent {
                    time_exchange: t,
                    time_received: t_plus(1),
                    exchange: self.exchange_id(x),
                    instrument: self.instrument_of(x, k == 5),
                    kind: match k {
                        0 | 5 | 6 => DataKind::Trade(PublicTrade { id: "1".into(), price: 100.0, amount: 1.0, side: Side::Buy }),
                        1 => DataKind::OrderBookL1(OrderBookL1 {
                            last_update_time: t_plus(1),
                            best_bid: Some(Level::new(Decimal::from(99), Decimal::ONE)),
                            best_ask: Some(Level::new(Decimal::from(101), Decimal::ONE)),
                        }),
                        2 => DataKind::Liquidation(Liquidation { side: Side::Sell, price: 100.0, quantity: 1.0, time: t_plus(1) }),
                        3 => DataKind::OrderBook(OrderBookEvent::Snapshot(OrderBook::new(
                            1,
                            None,
                            vec![Level::new(Decimal::from(99), Decimal::ONE)],
                            vec![Level::new(Decimal::from(101), Decimal::ONE)],
                        ))),
                        7 => DataKind::OrderBook(OrderBookEvent::Update(OrderBook::new(
                            2,
                            None,
                            vec![Level::new(Decimal::from(98), Decimal::ONE)],
                            vec![Level::new(Decimal::from(102), Decimal::ONE)],
                        ))),
                        _ => DataKind::Candle(Candle { close_time: t_plus(1), open: 100.0, high: 101.0, low: 99.0, close: 100.0, volume: 1.0, trade_count: 1 }),
                    },
                }))
            }
            Act::AccountItem(x, k) => {
                let instrument = self.instrument_of(x, k == 9);
                let key = OrderKey { exchange: ExchangeIndex(x), instrument, strategy: strategy_id(), cid: ClientOrderId::new("c") };
                let balance = AssetBalance {
                    asset: self.asset_on(x),
                    balance: Balance::new(Decimal::ONE, Decimal::ONE),
                    time_exchange: t_plus(1),
                };
                let order = |state: OrderState| Order {
                    key: key.clone(),
                    side: Side::Buy,
                    price: Decimal::from(100),
                    quantity: Decimal::ONE,
                    kind: OrderKind::Limit,
                    time_in_force: TimeInForce::GoodUntilCancelled { post_only: false },
                    state,
                };
                let open = || OrderState::active(Open { id: OrderId::new("o"), time_exchange: t_plus(1), filled_quantity: Decimal::ZERO });
                let kind = match k {
                    0 => AccountEventKind::BalanceSnapshot(Snapshot(balance)),
                    1 => AccountEventKind::OrderSnapshot(Snapshot(order(OrderState::fully_filled()))),
                    2 => AccountEventKind::Trade(Trade {
                        id: TradeId::new("t"),
                        order_id: OrderId::new("o"),
                        instrument,
                        strategy: strategy_id(),
                        time_exchange: t_plus(1),
                        side: Side::Buy,
                        price: Decimal::from(100),
                        quantity: Decimal::ONE,
                        fees: AssetFees::quote_fees(Decimal::ZERO),
                    }),
                    3 => AccountEventKind::Snapshot(AccountSnapshot { exchange: ExchangeIndex(x), balances: vec![balance], instruments: vec![] }),
                    4 => AccountEventKind::OrderCancelled(OrderResponseCancel {
                        key: key.clone(),
                        state: Ok(Cancelled { id: OrderId::new("o"), time_exchange: t_plus(1) }),
                    }),
                    5 => AccountEventKind::OrderSnapshot(Snapshot(order(open()))),
                    6 => AccountEventKind::OrderSnapshot(Snapshot(order(OrderState::inactive(OrderError::Connectivity(ConnectivityError::Timeout))))),
                    7 => AccountEventKind::OrderCancelled(OrderResponseCancel {
                        key: key.clone(),
                        state: Err(OrderError::Rejected(ApiError::OrderRejected("script".into()))),
                    }),
                    8 => AccountEventKind::Snapshot(AccountSnapshot {
                        exchange: ExchangeIndex(x),
                        balances: vec![balance],
                        instruments: vec![InstrumentAccountSnapshot { instrument, orders: vec![order(open())] }],
                    }),
                    _ => AccountEventKind::OrderSnapshot(Snapshot(order(OrderState::inactive(OrderError::Rejected(ApiError::OrderRejected("script".into())))))),
                };
                EngineEvent::Account(AccountStreamEvent::Item(AccountEvent { exchange: ExchangeIndex(x), kind }))
            }
            Act::MarketReconnecting(x) => {
                EngineEvent::Market(MarketStreamEvent::Reconnecting(self.exchange_id(x)))
            }
            Act::AccountReconnecting(x) => {
                EngineEvent::Account(AccountStreamEvent::Reconnecting(self.exchange_id(x)))
            }
        }
    }

    fn fresh_engine(&self) -> SEngine {
        build_engine(&self.instruments, self.cfg.trading, &self.cfg.links).0
    }

    /// The real engine in connectivity state `s`. The state is reached through the engine's own event API
    /// (one item per healthy link, processed by the real `Engine::process` on a fresh engine), so that
    /// anything the implementation keeps NEXT TO the public flags (caches, counters) is consistent with
    /// them. Only if that does not reproduce `s` - possible only for a state in which the invariant is
    /// already broken, i.e. after a reported violation - the public flags are written directly.
    fn engine_from(&self, s: &St) -> SEngine {
        let engine = self.fresh_engine();
        let driven = crate::core::guarded(move || {
            let mut engine = engine;
            for (x, (m, a)) in s.links.iter().enumerate() {
                if *m {
                    let _ = engine.process(self.event(&Act::MarketItem(x, 0)));
                }
                if *a {
                    let _ = engine.process(self.event(&Act::AccountItem(x, 0)));
                }
            }
            engine
        });
        if let Ok(mut engine) = driven {
            if self.snapshot(&engine) == *s {
                engine.strategy.disconnects.clear();
                return engine;
            }
        }
        let mut engine = self.fresh_engine();
        engine.state.connectivity.global = h(s.global);
        for (x, (m, a)) in s.links.iter().enumerate() {
            // by ExchangeId: the key under which the engine state reports an exchange's links
            let st = engine.state.connectivity.connectivity_mut(&self.exchange_id(x));
            st.market_data = h(*m);
            st.account = h(*a);
        }
        engine
    }

    fn snapshot(&self, engine: &SEngine) -> St {
        St {
            links: (0..self.n)
                .map(|x| {
                    let st = engine.state.connectivity.connectivity(&self.exchange_id(x));
                    (st.market_data == Health::Healthy, st.account == Health::Healthy)
                })
                .collect(),
            global: engine.state.connectivity.global == Health::Healthy,
        }
    }

    /// The oracle (the statement), for one processed event: `s` before, `got` after, `calls` = the
    /// on_disconnect invocations made while processing it, `audit` = what `Engine::process` returned.
    fn judge<A>(&self, s: &St, a: &Act, got: &St, calls: &[ExchangeId], audit: &A, out: &mut Vec<Viol>)
    {
        // reference: the statement
        let mut want = s.links.clone();
        let (x, expect_disc): (usize, Option<ExchangeId>) = match *a {
            Act::MarketItem(x, _) => {
                want[x].0 = true;
                (x, None)
            }
            Act::AccountItem(x, _) => {
                want[x].1 = true;
                (x, None)
            }
            Act::MarketReconnecting(x) => {
                want[x].0 = false;
                (x, Some(self.exchange_id(x)))
            }
            Act::AccountReconnecting(x) => {
                want[x].1 = false;
                (x, Some(self.exchange_id(x)))
            }
        };
        let kind = match a {
            Act::MarketItem(..) => "market-item",
            Act::AccountItem(..) => "account-item",
            Act::MarketReconnecting(_) => "market-reconnecting",
            Act::AccountReconnecting(_) => "account-reconnecting",
        };
        if got.links != want {
            // which link is wrong?
            let mut what = String::new();
            for (i, (g, w)) in got.links.iter().zip(want.iter()).enumerate() {
                if g != w {
                    what = if i == x { "own-link-wrong".into() } else { "other-exchange-link-changed".into() };
                    break;
                }
            }
            out.push((
                format!("C14/link-flags/{kind}/{what}"),
                format!("config={} before={:?} event={a:?} links after={:?} expected={:?}", self.cfg.label, s, got.links, want),
            ));
        }
        let all = got.links.iter().all(|(m, a)| *m && *a);
        if got.global != all {
            out.push((
                format!("C14/global-iff-all-healthy/{kind}/global={}-all={}", got.global, all),
                format!("config={} before={:?} event={a:?} after={:?}", self.cfg.label, s, got),
            ));
        }
        // on_disconnect exactly once per notice, for the right exchange. (Items: the statement does not say the
        // strategy is never invoked outside a notice - an engine may, e.g., also notify it of an order that
        // failed for a connectivity reason - so invocations while an item is processed are not judged.)
        let want_calls: Vec<ExchangeId> = expect_disc.into_iter().collect();
        if expect_disc.is_some() && calls != want_calls.as_slice() {
            out.push((
                format!("C14/on-disconnect-calls/{kind}/got={}-want={}", calls.len(), want_calls.len()),
                format!("config={} event={a:?} on_disconnect calls={calls:?} expected={want_calls:?}", self.cfg.label),
            ));
        }
        // (The audit is not judged: the statement speaks of the strategy invocation, not of what the audit
        // carries - an engine may, e.g., audit an outage once instead of once per repeated notice.)
        let _ = audit;
    }

    fn all_actions(&self) -> Vec<Act> {
        let mut v = Vec::new();
        for x in 0..self.n {
            for k in 0..MARKET_KINDS {
                v.push(Act::MarketItem(x, k));
            }
            for k in 0..ACCOUNT_KINDS {
                v.push(Act::AccountItem(x, k));
            }
            v.push(Act::MarketReconnecting(x));
            v.push(Act::AccountReconnecting(x));
        }
        v
    }
}

/// (is account disconnect, exchange) outputs of one audit
trait AuditOutputs {
    fn disconnect_outputs(&self) -> Vec<(bool, ExchangeId)>;
}
impl<E, T> AuditOutputs for EngineAudit<E, EngineOutput<T, ExchangeId>> {
    fn disconnect_outputs(&self) -> Vec<(bool, ExchangeId)> {
        match self {
            EngineAudit::Process(p) => p
                .outputs
                .iter()
                .filter_map(|o| match o {
                    EngineOutput::AccountDisconnect(e) => Some((true, *e)),
                    EngineOutput::MarketDisconnect(e) => Some((false, *e)),
                    _ => None,
                })
                .collect(),
            EngineAudit::FeedEnded => vec![],
        }
    }
}

fn h(b: bool) -> Health {
    if b { Health::Healthy } else { Health::Reconnecting }
}

impl Model for M {
    type State = St;
    type Action = Act;

    fn init(&self) -> Vec<St> {
        // the state the real builder produces (all reconnecting)
        vec![self.snapshot(&self.fresh_engine())]
    }

    fn actions(&self, _s: &St) -> Vec<Act> {
        self.all_actions()
    }

    fn step(&self, s: &St, a: &Act, out: &mut Vec<Viol>) -> Option<St> {
        let mut engine = self.engine_from(s);
        let event = self.event(a);
        let Ok(audit) = crate::core::guarded(|| engine.process(event)) else {
            out.push(("C14/panic/engine-process".to_string(), format!("config={} before={s:?} event={a:?}: Engine::process panicked", self.cfg.label)));
            return None;
        };
        let got = self.snapshot(&engine);
        self.judge(s, a, &got, &engine.strategy.disconnects, &audit, out);
        Some(got)
    }

    fn impl_hash(&self, s: &St) -> Option<u64> {
        Some(hash_of(s))
    }
}

// ---------------------------------------------------------------------------------------------
// Layer 2: sequences on one persistent engine
// ---------------------------------------------------------------------------------------------

impl M {
    /// Reduced alphabet of the persistent layer: per exchange a market trade, an account trade (builds
    /// and closes positions), an open-order report (leaves a tracked order behind), both notices.
    fn persistent_alphabet(&self) -> Vec<Act> {
        let mut v = Vec::new();
        for x in 0..self.n {
            v.push(Act::MarketItem(x, 0));
            v.push(Act::AccountItem(x, 2));
            v.push(Act::AccountItem(x, 5));
            v.push(Act::MarketReconnecting(x));
            v.push(Act::AccountReconnecting(x));
        }
        v
    }

    /// Execute `seq` on one engine; judge every step. Returns (violations with the index of the step
    /// that raised them, final flags).
    fn run_sequence(&self, seq: &[Act]) -> (Vec<(usize, Viol)>, St) {
        let mut engine = self.fresh_engine();
        let mut cur = self.snapshot(&engine);
        let mut all = Vec::new();
        for (i, a) in seq.iter().enumerate() {
            let calls_before = engine.strategy.disconnects.len();
            let event = self.event(a);
            let Ok(audit) = crate::core::guarded(|| engine.process(event)) else {
                all.push((i, ("C14/panic/engine-process".to_string(), format!("config={} sequence={seq:?}: Engine::process panicked at step {i}", self.cfg.label))));
                break;
            };
            let got = self.snapshot(&engine);
            let mut out = Vec::new();
            self.judge(&cur, a, &got, &engine.strategy.disconnects[calls_before..], &audit, &mut out);
            all.extend(out.into_iter().map(|v| (i, v)));
            cur = got;
        }
        (all, cur)
    }

    /// All sequences of length exactly `len` (every shorter sequence is a prefix of one of them and is
    /// judged step by step). Returns (sequences, steps judged, distinct final flag states).
    fn persistent(&self, ctx: &Ctx, len: usize) -> (u64, u64, usize) {
        let alpha = self.persistent_alphabet();
        let k = alpha.len();
        let total = (k as u64).pow(len as u32);
        let label = format!("persistent/{}", self.cfg.label);
        let finals: std::collections::BTreeSet<u64> = (0..total)
            .into_par_iter()
            .map(|mut code| {
                let mut seq = Vec::with_capacity(len);
                for _ in 0..len {
                    seq.push(alpha[(code % k as u64) as usize]);
                    code /= k as u64;
                }
                let (viols, fin) = self.run_sequence(&seq);
                for (i, (sig, detail)) in viols {
                    ctx.violate(sig, detail, json!({"engine": "c14-persistent", "label": label, "seq": seq[..=i].to_vec()}));
                }
                hash_of(&fin)
            })
            .collect();
        (total, total * len as u64, finals.len())
    }
}

pub fn run(ctx: &Ctx) -> Outcome {
    let mut states = 0usize;
    let mut transitions = 0u64;
    let mut per_n = Vec::new();
    let mut samples = Vec::new();
    let mut max_depth = 0;
    let mut fix = true;
    for c in configs() {
        let m = M::new(c);
        let st = bfs::run(ctx, &m, &m.cfg.label, None, 5_000_000);
        states += st.states;
        transitions += st.transitions;
        max_depth = max_depth.max(st.max_depth);
        fix &= st.fixpoint;
        per_n.push(json!({"configuration": m.cfg.label, "exchanges": m.cfg.exchanges.iter().map(|e| e.as_str()).collect::<Vec<_>>(),
            "trading": format!("{:?}", m.cfg.trading), "links": m.cfg.links.iter().map(|l| format!("{l:?}")).collect::<Vec<_>>(),
            "states": st.states, "transitions": st.transitions, "max_depth": st.max_depth, "fixpoint": st.fixpoint}));
        samples.extend(st.samples.into_iter().take(1));
    }
    if !fix {
        eprintln!("MACHINERY: C14 BFS did not reach its fixpoint");
        std::process::exit(2);
    }
    // layer 2: persistent engine
    let len = ctx.tier.pick(5usize, 7usize);
    let mut persistent = Vec::new();
    let (mut p_seqs, mut p_steps) = (0u64, 0u64);
    for c in configs().into_iter().filter(|c| ["exchanges=2", "exchanges=2/links=healthy+none", "exchanges=4"].contains(&c.label.as_str()) || c.label.starts_with("set=other")) {
        // three exchanges: one step shorter (15 symbols); four: two steps shorter (20 symbols)
        let l = len - c.exchanges.len().saturating_sub(2).min(2);
        let m = M::new(c);
        let (seqs, steps, finals) = m.persistent(ctx, l);
        p_seqs += seqs;
        p_steps += steps;
        persistent.push(json!({"configuration": m.cfg.label, "alphabet": m.persistent_alphabet().len(), "length": l, "sequences": seqs, "steps": steps, "distinct_final_flag_states": finals}));
    }
    Outcome {
        level: "model_checking",
        coverage: json!({
            "states": states,
            "transitions": transitions + p_steps,
            "traces_validated_against_impl": transitions + p_steps,
            "bfs_transitions": transitions,
            "persistent_engine_sequences": p_seqs,
            "persistent_engine_steps": p_steps,
            "max_depth": max_depth,
            "fixpoint_reached": fix,
            "exhaustive": true,
            "per_configuration": per_n,
            "persistent_engine_layer": persistent,
            "samples": samples,
            "rule": "layer 1: BFS to fixpoint over {market item (trade / top of book / liquidation / L2 book snapshot / L2 book update / candle / trade on the exchange's first instrument / late-stamped trade), account item (balance / order snapshot fully filled, open, failed by timeout, rejected / trade / full snapshot with and without orders / cancel response ok, err), market reconnecting, account reconnecting} x exchange, per configuration (exchange sets in and out of alphabetical order, trading on/off, execution links healthy/closed/absent), every transition executed by the real Engine::process; state = connectivity flags read by ExchangeId. layer 2: every sequence of the stated length over {market trade, account trade, open-order report, both notices} x exchange on one engine that is never rebuilt, same oracle after every step",
        }),
        assumptions: vec![
            "layer 1: connectivity only depends on the connectivity flags (state re-established for each transition by one item per healthy link on a fresh engine); layer 2 drops this assumption up to its sequence length".into(),
            "the audit contents are not judged (the statement speaks of the strategy invocation only)".into(),
            "at most 5 exchanges (persistent layer: at most 4)".into(),
            "events name an instrument of the exchange they come from".into(),
        ],
    }
}

pub fn replay(ctx: &Ctx, case: &Value) {
    let label = case["label"].as_str().unwrap_or("exchanges=3");
    let cfg_label = label.trim_start_matches("persistent/");
    let Some(c) = configs().into_iter().find(|c| c.label == cfg_label) else {
        eprintln!("MACHINERY: unknown configuration {cfg_label}");
        std::process::exit(2);
    };
    let m = M::new(c);
    if case["engine"].as_str() == Some("c14-persistent") {
        let seq: Vec<Act> = serde_json::from_value(case["seq"].clone()).expect("replay: seq does not parse");
        for (i, (sig, detail)) in m.run_sequence(&seq).0 {
            println!("replay step {i}: {sig}: {detail}");
            ctx.violate(sig, detail, case.clone());
        }
    } else {
        for (sig, detail) in bfs::replay(&m, case) {
            ctx.violate(sig, detail, case.clone());
        }
    }
}
